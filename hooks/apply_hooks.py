#!/usr/bin/env python3
"""Inserts the cfg(flurry_verif) hook lines into /repo/src (add-only: no existing line is
changed or removed). Kept for the record of how the hook commits were produced; it refuses to
run twice (every insertion checks that the hook is not there yet)."""
import re, sys, os

REPO = sys.argv[1] if len(sys.argv) > 1 else "/repo"

def rd(p): return open(os.path.join(REPO, p)).read()
def wr(p, s): open(os.path.join(REPO, p), "w").write(s)

def insert_before(s, anchor, text, nth=0, count=None):
    """insert `text` (one or more whole lines) before the line containing the nth occurrence of anchor,
    using that line's indentation."""
    idxs = [m.start() for m in re.finditer(re.escape(anchor), s)]
    if count is not None:
        assert len(idxs) == count, (anchor, len(idxs), count)
    assert len(idxs) > nth, (anchor, len(idxs))
    i = idxs[nth]
    ls = s.rfind("\n", 0, i) + 1
    indent = re.match(r"[ \t]*", s[ls:]).group(0)
    block = "".join(indent + l + "\n" for l in text.split("\n"))
    return s[:ls] + block + s[ls:]

def insert_before_all(s, anchor, text, expect=None):
    idxs = [m.start() for m in re.finditer(re.escape(anchor), s)]
    if expect is not None:
        assert len(idxs) == expect, (anchor, len(idxs), expect)
    for n in reversed(range(len(idxs))):
        s = insert_before(s, anchor, text, nth=n)
    return s

V = "#[cfg(flurry_verif)]\n"

# ---------------------------------------------------------------- lib.rs / Cargo.toml
s = rd("src/lib.rs")
assert "flurry_verif" not in s
s = s.replace("/// Iterator types.\npub mod iter;",
              "/// Verification hooks (only with `--cfg flurry_verif`).\n#[cfg(flurry_verif)]\npub mod verif;\n/// Read-only inspector (only with `--cfg flurry_verif`).\n#[cfg(flurry_verif)]\npub use map::verif_map as verif_inspect;\n\n/// Iterator types.\npub mod iter;")
wr("src/lib.rs", s)

s = rd("Cargo.toml")
assert "flurry_verif" not in s
s += "\n[lints.rust]\nunexpected_cfgs = { level = \"warn\", check-cfg = ['cfg(flurry_verif)'] }\n"
wr("Cargo.toml", s)

# ---------------------------------------------------------------- reclaim.rs
s = rd("src/reclaim.rs")
assert "flurry_verif" not in s
TC = "#[cfg_attr(flurry_verif, track_caller)]"
s = insert_before(s, "pub(crate) fn load<'g>(&self, ordering: Ordering", TC, count=1)
s = insert_before(s, "guard.protect(&self.0, ordering).into()",
    V + "crate::verif::atomic::<T>(crate::verif::Kind::Load, &self.0 as *const _ as usize, 0, 0, Some(ordering), None, crate::verif::guard_flag(guard));", count=1)
s = insert_before(s, "pub(crate) fn store(&self, new: Shared<'_, T>, ordering: Ordering)", TC, count=1)
s = insert_before(s, "self.0.store(new.ptr, ordering);",
    V + "crate::verif::atomic::<T>(crate::verif::Kind::Store, &self.0 as *const _ as usize, new.ptr as usize, 0, Some(ordering), None, 2);", count=1)
s = insert_before(s, "pub(crate) fn swap<'g>(", TC, count=1)
s = insert_before(s, "self.0.swap(new.ptr, ord).into()",
    V + "crate::verif::atomic::<T>(crate::verif::Kind::Swap, &self.0 as *const _ as usize, new.ptr as usize, 0, Some(ord), None, 2);", count=1)
s = insert_before(s, "pub(crate) fn compare_exchange<'g>(", TC, count=1)
s = insert_before(s, "match self\n            .0\n            .compare_exchange(current.ptr, new.ptr, success, failure)",
    V + "crate::verif::atomic::<T>(crate::verif::Kind::Cas, &self.0 as *const _ as usize, current.ptr as usize, new.ptr as usize, Some(success), Some(failure), 2);", count=1)
# Atomic::clone (relaxed copy of a pointer)
s = insert_before(s, "fn clone(&self) -> Self {\n        Atomic(", TC, count=1)
s = insert_before(s, "Atomic(self.0.load(Ordering::Relaxed).into())",
    V + "crate::verif::atomic::<T>(crate::verif::Kind::CloneLoad, &self.0 as *const _ as usize, 0, 0, Some(Ordering::Relaxed), None, 2);", count=1)
# Atomic::into_box
s = insert_before(s, "pub(crate) unsafe fn into_box(self) -> Box<Linked<T>> {\n        Box::from_raw(self.0.into_inner())", TC, count=1)
s = insert_before(s, "Box::from_raw(self.0.into_inner())",
    V + "crate::verif::atomic::<T>(crate::verif::Kind::IntoBox, self.0.load(Ordering::Relaxed) as usize, 0, 0, None, None, 2);", count=1)
# Shared::boxed: post-event with the new address (the added `return` shadows the original tail expression)
s = insert_before(s, "pub(crate) fn boxed(value: T, collector: &Collector) -> Self {", TC + "\n#[cfg_attr(flurry_verif, allow(unreachable_code))]", count=1)
s = insert_before(s, "Shared::from(collector.link_boxed(value))",
    V + "return {\n    let s = Shared::from(collector.link_boxed(value));\n    crate::verif::atomic::<T>(crate::verif::Kind::Alloc, s.ptr as usize, std::mem::size_of::<Linked<T>>(), 0, None, None, 2);\n    s\n};", count=1)
# Shared::into_box / as_ref / deref
s = insert_before(s, "pub(crate) unsafe fn into_box(self) -> Box<Linked<T>> {\n        Box::from_raw(self.ptr)", TC, count=1)
s = insert_before(s, "Box::from_raw(self.ptr)",
    V + "crate::verif::atomic::<T>(crate::verif::Kind::IntoBox, self.ptr as usize, 0, 0, None, None, 2);", count=1)
s = insert_before(s, "pub(crate) unsafe fn as_ref(&self) -> Option<&'g Linked<T>> {", TC, count=1)
s = insert_before(s, "self.ptr.as_ref()",
    V + "crate::verif::atomic::<T>(crate::verif::Kind::Deref, self.ptr as usize, 0, 0, None, None, 2);", count=1)
s = insert_before(s, "pub(crate) unsafe fn deref(&self) -> &'g Linked<T> {", TC, count=1)
s = insert_before(s, "&*self.ptr",
    V + "crate::verif::atomic::<T>(crate::verif::Kind::Deref, self.ptr as usize, 0, 0, None, None, 2);", count=1)
# retire
s = insert_before(s, "unsafe fn retire_shared<T>(&self, shared: Shared<'_, T>) {", TC, count=1)
s = insert_before(s, "self.defer_retire(shared.ptr, seize::reclaim::boxed::<Linked<T>>);",
    V + "crate::verif::atomic::<T>(crate::verif::Kind::Retire, shared.ptr as usize, 0, crate::verif::guard_flag(self) as usize, None, None, crate::verif::guard_flag(self));", count=1)
wr("src/reclaim.rs", s)

# ---------------------------------------------------------------- raw/mod.rs
s = rd("src/raw/mod.rs")
assert "flurry_verif" not in s
for sig in ["pub(crate) fn bin<'g>(", "pub(crate) fn cas_bin<'g>(", "pub(crate) fn store_bin(", "pub(crate) fn next_table<'g>(", "pub(crate) fn get_moved<'g>("]:
    s = insert_before(s, sig, TC, count=1)
wr("src/raw/mod.rs", s)

# ---------------------------------------------------------------- node.rs
s = rd("src/node.rs")
assert "flurry_verif" not in s
R = "crate::verif::raw(crate::verif::Kind::"
# lock_root
s = insert_before(s, "if self\n            .lock_state\n            .compare_exchange(0, WRITER, Ordering::SeqCst, Ordering::Relaxed)",
    V + R + "Cas, &self.lock_state, 0, WRITER as isize, \"lock_state\");", count=1)
# unlock_root
s = insert_before(s, "self.lock_state.store(0, Ordering::Release);",
    V + R + "Store, &self.lock_state, 0, 0, \"lock_state\");", count=1)
# contended_lock
s = insert_before(s, "state = self.lock_state.load(Ordering::Acquire);",
    V + R + "Load, &self.lock_state, 0, 0, \"lock_state\");", count=1)
s = insert_before(s, "if self\n                    .lock_state\n                    .compare_exchange(state, WRITER, Ordering::SeqCst, Ordering::Relaxed)",
    V + R + "Cas, &self.lock_state, state as isize, WRITER as isize, \"lock_state\");", count=1)
s = insert_before(s, "if self\n                    .lock_state\n                    .compare_exchange(state, state | WAITER, Ordering::SeqCst, Ordering::Relaxed)",
    V + R + "Cas, &self.lock_state, state as isize, (state | WAITER) as isize, \"lock_state\");", count=1)
s = insert_before(s, "                park();", V + "crate::verif::before_park();", count=1)
s = insert_before(s, "std::hint::spin_loop();", V + "crate::verif::spin();", count=1)
# find
s = insert_before(s, "let s = bin_deref.lock_state.load(Ordering::SeqCst);",
    V + R + "Load, &bin_deref.lock_state, 0, 0, \"lock_state\");", count=1)
# the reader CAS sits in an `else if` condition: announce it as a Yield before the `if`
s = insert_before(s, "if s & (WAITER | WRITER) != 0 {",
    V + R + "Yield, &bin_deref.lock_state, s as isize, (s + READER) as isize, \"lock_state\");", count=1)
s = insert_before(s, "if bin_deref.lock_state.fetch_add(-READER, Ordering::SeqCst) == (READER | WAITER) {",
    V + R + "FetchAdd, &bin_deref.lock_state, -(READER as isize), 0, \"lock_state\");", count=1)
s = insert_before(s, "unsafe { waiter.deref() }.unpark();",
    V + "crate::verif::on_unpark(unsafe { waiter.deref() });", count=1)
# defer_drop_without_values retires the bin through defer_retire directly
s = insert_before(s, "guard.defer_retire(bin.as_ptr(), |link| {",
    V + "crate::verif::atomic::<BinEntry<K, V>>(crate::verif::Kind::Retire, bin.as_ptr() as usize, 1, crate::verif::guard_flag(guard) as usize, None, None, crate::verif::guard_flag(guard));", count=1)
wr("src/node.rs", s)

# ---------------------------------------------------------------- map.rs
s = rd("src/map.rs")
assert "flurry_verif" not in s
# lock scopes: one line before each `let X = Y.lock.lock();`
pat = re.compile(r"^([ \t]*)let (\w+) = (\w+)\.lock\.lock\(\);$", re.M)
ms = list(pat.finditer(s))
assert len(ms) == 11, len(ms)
for m in reversed(ms):
    ind, obj = m.group(1), m.group(3)
    s = s[:m.start()] + ind + "#[cfg(flurry_verif)]\n" + ind + "let _vs = crate::verif::LockScope::new(&%s.lock);\n" % obj + s[m.start():]

def raw_before(s, anchor, kind, cell, a, b, what, nth=0, count=None):
    return insert_before(s, anchor, V + R + "%s, &self.%s, %s, %s, \"%s\");" % (kind, cell, a, b, what), nth=nth, count=count)

# len(): count load
s = raw_before(s, "let n = self.count.load(Ordering::Relaxed);", "Load", "count", "0", "0", "count", count=1)
# init_table
s = raw_before(s, "let mut sc = self.size_ctl.load(Ordering::SeqCst);", "Load", "size_ctl", "0", "0", "size_ctl", count=1)
s = insert_before(s, "std::thread::yield_now();", V + "crate::verif::spin();", count=1)
s = raw_before(s, "if self\n                .size_ctl\n                .compare_exchange(sc, -1, Ordering::SeqCst, Ordering::Relaxed)", "Cas", "size_ctl", "sc", "-1", "size_ctl", count=1)
s = raw_before(s, "self.size_ctl.store(sc, Ordering::SeqCst);", "Store", "size_ctl", "sc", "0", "size_ctl", count=1)
# presize (constructor; single-threaded) -- store only
s = raw_before(s, "self.size_ctl.store(new_load_to_resize_at, Ordering::SeqCst);", "Store", "size_ctl", "new_load_to_resize_at", "0", "size_ctl", nth=1, count=2)
s = raw_before(s, "self.size_ctl.store(new_load_to_resize_at, Ordering::SeqCst);", "Store", "size_ctl", "new_load_to_resize_at", "0", "size_ctl", nth=0, count=2)
# try_presize
s = raw_before(s, "let size_ctl = self.size_ctl.load(Ordering::SeqCst);", "Load", "size_ctl", "0", "0", "size_ctl", count=1)
s = raw_before(s, "if self\n                    .size_ctl\n                    .compare_exchange(size_ctl, -1, Ordering::SeqCst, Ordering::Relaxed)", "Cas", "size_ctl", "size_ctl", "-1", "size_ctl", count=1)
s = raw_before(s, "self.size_ctl.store(size_ctl, Ordering::SeqCst);", "Store", "size_ctl", "size_ctl", "0", "size_ctl", count=1)
s = raw_before(s, "if self\n                    .size_ctl\n                    .compare_exchange(size_ctl, rs + 2, Ordering::SeqCst, Ordering::Relaxed)", "Cas", "size_ctl", "size_ctl", "rs + 2", "size_ctl", count=1)
# transfer
s = raw_before(s, "self.transfer_index.store(n as isize, Ordering::SeqCst);", "Store", "transfer_index", "n as isize", "0", "transfer_index", count=1)
s = raw_before(s, "let next_index = self.transfer_index.load(Ordering::SeqCst);", "Load", "transfer_index", "0", "0", "transfer_index", count=1)
s = raw_before(s, "if self\n                    .transfer_index\n                    .compare_exchange(next_index, next_bound, Ordering::SeqCst, Ordering::Relaxed)", "Cas", "transfer_index", "next_index", "next_bound", "transfer_index", count=1)
s = raw_before(s, "self.size_ctl\n                        .store(((n as isize) << 1) - ((n as isize) >> 1), Ordering::SeqCst);", "Store", "size_ctl", "((n as isize) << 1) - ((n as isize) >> 1)", "0", "size_ctl", count=1)
s = raw_before(s, "let sc = self.size_ctl.load(Ordering::SeqCst);\n                if self\n                    .size_ctl\n                    .compare_exchange(sc, sc - 1,", "Load", "size_ctl", "0", "0", "size_ctl", count=1)
s = raw_before(s, "if self\n                    .size_ctl\n                    .compare_exchange(sc, sc - 1, Ordering::SeqCst, Ordering::Relaxed)", "Cas", "size_ctl", "sc", "sc - 1", "size_ctl", count=1)
# help_transfer
s = raw_before(s, "let sc = self.size_ctl.load(Ordering::SeqCst);\n            if sc >= 0\n", "Load", "size_ctl", "0", "0", "size_ctl", count=1)
s = raw_before(s, "if sc >= 0\n                || sc == rs + MAX_RESIZERS\n                || sc == rs + 1\n                || self.transfer_index.load(Ordering::SeqCst) <= 0", "Yield", "transfer_index", "0", "0", "transfer_index", count=1)
s = raw_before(s, "if self\n                .size_ctl\n                .compare_exchange(sc, sc + 1, Ordering::SeqCst, Ordering::Relaxed)", "Cas", "size_ctl", "sc", "sc + 1", "size_ctl", count=1)
# add_count
s = insert_before(s, "let mut count = match n.cmp(&0) {", V + R + "FetchAdd, &self.count, n, 0, \"count\");", count=1)
s = raw_before(s, "let sc = self.size_ctl.load(Ordering::SeqCst);\n            if count < sc {", "Load", "size_ctl", "0", "0", "size_ctl", count=1)
s = raw_before(s, "if self.transfer_index.load(Ordering::SeqCst) <= 0 {", "Load", "transfer_index", "0", "0", "transfer_index", count=1)
s = raw_before(s, "if self\n                    .size_ctl\n                    .compare_exchange(sc, sc + 1, Ordering::SeqCst, Ordering::Relaxed)", "Cas", "size_ctl", "sc", "sc + 1", "size_ctl", count=1)
s = raw_before(s, "if sc < 0 {\n                // ongoing resize! can we join the resize transfer?", "Yield", "size_ctl", "sc", "rs + 2", "size_ctl", count=1)
s = raw_before(s, "count = self.count.load(Ordering::SeqCst);", "Load", "count", "0", "0", "count", count=1)
# the inspector module (child of `map`, so it can read the private fields)
s = s.rstrip("\n") + "\n\n#[cfg(flurry_verif)]\n#[path = \"verif_map.rs\"]\npub mod verif_map;\n"
wr("src/map.rs", s)
print("hooks applied")
