//! Gen/Api.lean (+ api.json): the public signature table.
//! One row per `pub fn` / trait-impl method of HashMap, HashSet, HashMapRef, HashSetRef and the
//! iterator types, with receiver / parameter / return lifetimes (elision resolved) and the
//! trait bounds of the method and of its impl block; one row per struct field that carries a
//! lifetime; one row per `unsafe impl Send/Sync`.
use crate::expr::tokens_of;
use crate::util::*;
use syn::visit::Visit;

const TYPES: &[&str] = &["HashMap", "HashSet", "HashMapRef", "HashSetRef", "Iter", "Keys", "Values"];

#[derive(Default, Clone)]
struct Row {
    ty: String,
    self_ty: String,
    name: String,
    trait_: String,
    public: bool,
    self_lt: Option<String>,
    self_kind: String, // "ref", "mut", "value", "none"
    params: Vec<(String, String, Option<String>)>, // name, type text, reference lifetime
    guard_params: Vec<(String, String)>,           // name, reference lifetime
    ret: String,
    ret_lts: Vec<String>,
    ret_borrows: bool,
    bounds: Vec<(String, String)>, // (type param, bound) from impl + method
    file: String,
}

struct LtCollector {
    lts: Vec<String>,
    elided_refs: usize,
}
impl<'ast> Visit<'ast> for LtCollector {
    fn visit_lifetime(&mut self, l: &'ast syn::Lifetime) {
        self.lts.push(format!("'{}", l.ident));
    }
    fn visit_type_reference(&mut self, r: &'ast syn::TypeReference) {
        if r.lifetime.is_none() {
            self.elided_refs += 1;
        }
        syn::visit::visit_type_reference(self, r);
    }
}

fn lifetimes_of(t: &syn::Type) -> (Vec<String>, usize) {
    let mut c = LtCollector { lts: vec![], elided_refs: 0 };
    c.visit_type(t);
    (c.lts, c.elided_refs)
}

fn bounds_of_generics(g: &syn::Generics, out: &mut Vec<(String, String)>) {
    for p in &g.params {
        if let syn::GenericParam::Type(tp) = p {
            for b in &tp.bounds {
                out.push((tp.ident.to_string(), tokens_of(b)));
            }
        }
    }
    if let Some(w) = &g.where_clause {
        for pr in &w.predicates {
            if let syn::WherePredicate::Type(pt) = pr {
                let lhs = tokens_of(&pt.bounded_ty);
                for b in &pt.bounds {
                    out.push((lhs.clone(), tokens_of(b)));
                }
            }
        }
    }
}

fn base_name(self_ty: &str) -> String {
    self_ty.trim_start_matches('&').split('<').next().unwrap_or("").to_string()
}

/// the key/value (map) or element (set) type parameters as the impl block names them
fn elem_params(ty: &str, self_ty: &str) -> Vec<String> {
    let inner = match (self_ty.find('<'), self_ty.rfind('>')) {
        (Some(a), Some(b)) if a < b => &self_ty[a + 1..b],
        _ => return vec![],
    };
    // split on top-level commas
    let mut parts = vec![];
    let (mut depth, mut cur) = (0i32, String::new());
    for c in inner.chars() {
        match c {
            '<' | '(' => { depth += 1; cur.push(c) }
            '>' | ')' => { depth -= 1; cur.push(c) }
            ',' if depth == 0 => { parts.push(cur.clone()); cur.clear() }
            _ => cur.push(c),
        }
    }
    if !cur.is_empty() {
        parts.push(cur);
    }
    let tys: Vec<String> = parts.into_iter().filter(|p| !p.starts_with('\'')).collect();
    let n = if ty.starts_with("HashSet") { 1 } else if ty.starts_with("HashMap") { 2 } else { 0 };
    tys.into_iter().take(n).collect()
}

fn ret_is_borrow(ret: &str) -> bool {
    ret.contains('&') || ret.contains('\'') || ["Iter<", "Keys<", "Values<", "HashMapRef<", "HashSetRef<", "TryInsertError<"].iter().any(|p| ret.contains(p))
}

pub fn generate(files: &[SourceFile], report: &mut Report) -> String {
    let mut rows: Vec<Row> = vec![];
    let mut fields: Vec<(String, Vec<String>, String, String, Vec<String>)> = vec![]; // struct, lifetime params, field, type, lts
    let mut unsafe_impls: Vec<(String, String, Vec<(String, String)>)> = vec![]; // trait, type, bounds
    for sf in files {
        for it in &sf.ast.items {
            match it {
                syn::Item::Struct(s) => {
                    let name = s.ident.to_string();
                    if !TYPES.contains(&name.as_str()) {
                        continue;
                    }
                    let lps: Vec<String> = s.generics.lifetimes().map(|l| format!("'{}", l.lifetime.ident)).collect();
                    for f in &s.fields {
                        let (lts, elided) = lifetimes_of(&f.ty);
                        let mut lts = lts;
                        if elided > 0 {
                            lts.push("'_elided".into());
                        }
                        fields.push((name.clone(), lps.clone(), f.ident.as_ref().map(|i| i.to_string()).unwrap_or_default(), tokens_of(&f.ty), lts));
                    }
                }
                syn::Item::Impl(im) => {
                    if is_cfg_test(&im.attrs) || is_cfg_verif(&im.attrs) {
                        continue;
                    }
                    let self_ty = tokens_of(&im.self_ty);
                    let base = base_name(&self_ty);
                    let trait_ = im.trait_.as_ref().map(|(_, p, _)| tokens_of(p)).unwrap_or_default();
                    if im.unsafety.is_some() && (trait_ == "Send" || trait_ == "Sync") {
                        let mut b = vec![];
                        bounds_of_generics(&im.generics, &mut b);
                        unsafe_impls.push((trait_.clone(), self_ty.clone(), b));
                        continue;
                    }
                    if !TYPES.contains(&base.as_str()) {
                        continue;
                    }
                    let mut impl_bounds = vec![];
                    bounds_of_generics(&im.generics, &mut impl_bounds);
                    for ii in &im.items {
                        match ii {
                            syn::ImplItem::Type(t) if !trait_.is_empty() => {
                                let (lts, elided) = lifetimes_of(&t.ty);
                                let mut lts = lts;
                                if elided > 0 {
                                    lts.push("'_elided".into());
                                }
                                let lps: Vec<String> = im.generics.lifetimes().map(|l| format!("'{}", l.lifetime.ident)).collect();
                                rows.push(Row {
                                    ty: base.clone(),
                                    self_ty: self_ty.clone(),
                                    name: format!("type {}", t.ident),
                                    trait_: trait_.clone(),
                                    public: true,
                                    self_lt: lps.first().cloned(),
                                    self_kind: "assoc".into(),
                                    ret: tokens_of(&t.ty),
                                    ret_borrows: ret_is_borrow(&tokens_of(&t.ty)),
                                    ret_lts: lts,
                                    bounds: impl_bounds.clone(),
                                    file: sf.rel.clone(),
                                    ..Default::default()
                                });
                            }
                            syn::ImplItem::Fn(f) => {
                                if is_cfg_test(&f.attrs) || is_cfg_verif(&f.attrs) {
                                    continue;
                                }
                                let public = !trait_.is_empty() || matches!(f.vis, syn::Visibility::Public(_));
                                if !public {
                                    continue;
                                }
                                let mut r = Row {
                                    ty: base.clone(),
                                    self_ty: self_ty.clone(),
                                    name: f.sig.ident.to_string(),
                                    trait_: trait_.clone(),
                                    public,
                                    file: sf.rel.clone(),
                                    self_kind: "none".into(),
                                    ..Default::default()
                                };
                                r.bounds = impl_bounds.clone();
                                bounds_of_generics(&f.sig.generics, &mut r.bounds);
                                let mut input_lts: Vec<String> = vec![];
                                for (pi, a) in f.sig.inputs.iter().enumerate() {
                                    match a {
                                        syn::FnArg::Receiver(rc) => {
                                            if let Some((_, lt)) = &rc.reference {
                                                r.self_kind = if rc.mutability.is_some() { "mut".into() } else { "ref".into() };
                                                let l = lt.as_ref().map(|l| format!("'{}", l.ident)).unwrap_or("'_self".into());
                                                r.self_lt = Some(l.clone());
                                                input_lts.push(l);
                                            } else {
                                                r.self_kind = "value".into();
                                                // `self` of type `&'g HashMapRef` (IntoIterator for &Ref): lifetime of the impl's self type
                                                if self_ty.starts_with('&') {
                                                    let (lts, _) = lifetimes_of(&im.self_ty);
                                                    if let Some(l) = lts.first() {
                                                        r.self_lt = Some(l.clone());
                                                        input_lts.push(l.clone());
                                                    }
                                                }
                                            }
                                        }
                                        syn::FnArg::Typed(pt) => {
                                            let name = match &*pt.pat {
                                                syn::Pat::Ident(pi) => pi.ident.to_string(),
                                                _ => format!("_{}", pi),
                                            };
                                            let ty = tokens_of(&pt.ty);
                                            let ref_lt = if let syn::Type::Reference(tr) = &*pt.ty {
                                                Some(tr.lifetime.as_ref().map(|l| format!("'{}", l.ident)).unwrap_or(format!("'_p{}", pi)))
                                            } else {
                                                None
                                            };
                                            let (lts, _) = lifetimes_of(&pt.ty);
                                            for l in lts {
                                                if l != "'_" {
                                                    input_lts.push(l);
                                                }
                                            }
                                            if let Some(l) = &ref_lt {
                                                if l.starts_with("'_p") {
                                                    input_lts.push(l.clone());
                                                }
                                            }
                                            if ty.starts_with('&') && ty.contains("Guard<") {
                                                r.guard_params.push((name.clone(), ref_lt.clone().unwrap_or_default()));
                                            }
                                            r.params.push((name, ty, ref_lt));
                                        }
                                    }
                                }
                                if let syn::ReturnType::Type(_, t) = &f.sig.output {
                                    r.ret = tokens_of(t);
                                    let (lts, elided) = lifetimes_of(t);
                                    let mut out_lts = vec![];
                                    let resolve_elided = |input_lts: &Vec<String>, self_lt: &Option<String>| -> String {
                                        if let Some(s) = self_lt {
                                            s.clone()
                                        } else {
                                            let mut d = input_lts.clone();
                                            d.sort();
                                            d.dedup();
                                            if d.len() == 1 {
                                                d[0].clone()
                                            } else {
                                                "'_unresolved".into()
                                            }
                                        }
                                    };
                                    for l in lts {
                                        if l == "'_" {
                                            out_lts.push(resolve_elided(&input_lts, &r.self_lt));
                                        } else {
                                            out_lts.push(l);
                                        }
                                    }
                                    for _ in 0..elided {
                                        out_lts.push(resolve_elided(&input_lts, &r.self_lt));
                                    }
                                    out_lts.sort();
                                    out_lts.dedup();
                                    // `Self` return of a type with lifetime params (Clone for refs) is not a borrow of an argument
                                    r.ret_borrows = ret_is_borrow(&r.ret);
                                    r.ret_lts = out_lts;
                                }
                                rows.push(r);
                            }
                            _ => {}
                        }
                    }
                }
                _ => {}
            }
        }
    }

    let ls = |v: &[String]| format!("[{}]", v.iter().map(|s| lean_str(s)).collect::<Vec<_>>().join(", "));
    let mut out = String::from("-- GENERATED by /verif/extract from /repo/src on every run. Do not edit.\n");
    out.push_str("import Flurry.SigDefs\nnamespace Flurry.Gen\nopen Flurry.Sig\n\ndef apiFns : List ApiFn := [\n");
    let mut lines = vec![];
    for r in &rows {
        lines.push(format!(
            "  {{ ty := {}, selfTy := {}, elems := {}, fn := {}, trait_ := {}, traitHead := {}, makesValue := {}, selfLt := {}, selfKind := {}, params := [{}], guardLts := {}, ret := {}, retLts := {}, retBorrows := {}, bounds := [{}] }}",
            lean_str(&r.ty),
            lean_str(&r.self_ty),
            ls(&elem_params(&r.ty, &r.self_ty)),
            lean_str(&r.name),
            lean_str(&r.trait_),
            lean_str(r.trait_.split('<').next().unwrap_or("")),
            r.bounds.iter().any(|b| b.1.contains("->Option<V>") || b.1.contains("->Option<T>")),
            match &r.self_lt {
                Some(l) => format!("some {}", lean_str(l)),
                None => "none".into(),
            },
            lean_str(&r.self_kind),
            r.params.iter().map(|(n, t, _)| format!("({}, {})", lean_str(n), lean_str(t))).collect::<Vec<_>>().join(", "),
            ls(&r.guard_params.iter().map(|g| g.1.clone()).collect::<Vec<_>>()),
            lean_str(&r.ret),
            ls(&r.ret_lts),
            r.ret_borrows,
            r.bounds.iter().map(|(a, b)| format!("({}, {})", lean_str(a), lean_str(b))).collect::<Vec<_>>().join(", "),
        ));
    }
    out.push_str(&lines.join(",\n"));
    out.push_str("\n]\n\ndef apiFields : List ApiField := [\n");
    out.push_str(
        &fields
            .iter()
            .map(|(s, lps, f, t, lts)| format!("  {{ struct_ := {}, ltParams := {}, field := {}, ty := {}, lts := {} }}", lean_str(s), ls(lps), lean_str(f), lean_str(t), ls(lts)))
            .collect::<Vec<_>>()
            .join(",\n"),
    );
    out.push_str("\n]\n\ndef unsafeImpls : List UnsafeImpl := [\n");
    out.push_str(
        &unsafe_impls
            .iter()
            .map(|(t, ty, b)| {
                format!(
                    "  {{ trait_ := {}, ty := {}, bounds := [{}] }}",
                    lean_str(t),
                    lean_str(ty),
                    b.iter().map(|(a, b)| format!("({}, {})", lean_str(a), lean_str(b))).collect::<Vec<_>>().join(", ")
                )
            })
            .collect::<Vec<_>>()
            .join(",\n"),
    );
    out.push_str("\n]\n\nend Flurry.Gen\n");

    // the same table as JSON for the rustc corpus generator
    let esc = |s: &str| s.replace('\\', "\\\\").replace('"', "\\\"");
    let js = |v: &[String]| format!("[{}]", v.iter().map(|s| format!("\"{}\"", esc(s))).collect::<Vec<_>>().join(","));
    let mut j = String::from("[\n");
    j.push_str(
        &rows
            .iter()
            .map(|r| {
                format!(
                    "{{\"ty\":\"{}\",\"self_ty\":\"{}\",\"fn\":\"{}\",\"trait\":\"{}\",\"self_lt\":{},\"self_kind\":\"{}\",\"params\":[{}],\"guard_lts\":{},\"ret\":\"{}\",\"ret_lts\":{},\"ret_borrows\":{},\"bounds\":[{}],\"file\":\"{}\"}}",
                    esc(&r.ty),
                    esc(&r.self_ty),
                    esc(&r.name),
                    esc(&r.trait_),
                    r.self_lt.as_ref().map(|l| format!("\"{}\"", esc(l))).unwrap_or("null".into()),
                    r.self_kind,
                    r.params.iter().map(|(n, t, _)| format!("[\"{}\",\"{}\"]", esc(n), esc(t))).collect::<Vec<_>>().join(","),
                    js(&r.guard_params.iter().map(|g| g.1.clone()).collect::<Vec<_>>()),
                    esc(&r.ret),
                    js(&r.ret_lts),
                    r.ret_borrows,
                    r.bounds.iter().map(|(a, b)| format!("[\"{}\",\"{}\"]", esc(a), esc(b))).collect::<Vec<_>>().join(","),
                    esc(&r.file)
                )
            })
            .collect::<Vec<_>>()
            .join(",\n"),
    );
    j.push_str("\n]\n");
    API_JSON.with(|c| *c.borrow_mut() = j);
    report.count("api_fns", rows.len());
    report.count("api_fields", fields.len());
    report.count("unsafe_send_sync_impls", unsafe_impls.len());
    if rows.is_empty() {
        report.fail("api", "no public functions found");
    } else {
        report.ok("api");
    }
    out
}

thread_local! {
    pub static API_JSON: std::cell::RefCell<String> = const { std::cell::RefCell::new(String::new()) };
}
