use crate::util::*;
pub fn generate(_files: &[SourceFile], _report: &mut Report) -> String {
    String::from("-- GENERATED placeholder\n")
}
