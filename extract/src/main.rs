//! flurry-extract: regenerates /verif/lean/Flurry/Gen/*.lean from /repo/src.
//!
//! usage: flurry-extract <repo-src-dir> <out-dir>
//!
//! Items are located by name and shape, never by line number. An item that cannot be
//! found or translated is written as an `extraction_failed` line (a Lean syntax
//! error), and listed in <out-dir>/extract_report.json.

mod api;
mod arith;
mod atomics;
mod expr;
mod guards;
mod serde_policy;
mod util;

use std::path::PathBuf;

fn main() {
    let args: Vec<String> = std::env::args().collect();
    if args.len() < 3 {
        eprintln!("usage: flurry-extract <repo-src-dir> <out-dir>");
        std::process::exit(2);
    }
    let src = PathBuf::from(&args[1]);
    let out = PathBuf::from(&args[2]);
    std::fs::create_dir_all(&out).unwrap();
    let files = util::load_sources(&src);
    let mut report = util::Report::default();

    let (consts, arith_txt) = arith::generate(&files, &mut report);
    util::write_if_changed(&out.join("Consts.lean"), &consts);
    util::write_if_changed(&out.join("Arith.lean"), &arith_txt);
    util::write_if_changed(&out.join("Api.lean"), &api::generate(&files, &mut report));
    api::API_JSON.with(|j| util::write_if_changed(&out.join("api.json"), &j.borrow()));
    util::write_if_changed(&out.join("Guards.lean"), &guards::generate(&files, &mut report));
    util::write_if_changed(&out.join("Atomics.lean"), &atomics::generate(&files, &mut report));
    util::write_if_changed(&out.join("Serde.lean"), &serde_policy::generate(&files, &mut report));

    let rep = report.to_json();
    std::fs::write(out.join("extract_report.json"), &rep).unwrap();
    println!("{}", rep);
}
