use std::collections::BTreeMap;
use std::path::Path;
use syn::visit::Visit;

pub struct SourceFile {
    pub rel: String,
    pub ast: syn::File,
}

pub fn load_sources(src: &Path) -> Vec<SourceFile> {
    let mut v = Vec::new();
    let rels = [
        "map.rs",
        "node.rs",
        "raw/mod.rs",
        "reclaim.rs",
        "set.rs",
        "map_ref.rs",
        "set_ref.rs",
        "iter/mod.rs",
        "iter/traverser.rs",
        "serde_impls.rs",
        "rayon_impls.rs",
        "lib.rs",
    ];
    for r in rels {
        let p = src.join(r);
        let txt = match std::fs::read_to_string(&p) {
            Ok(t) => t,
            Err(_) => continue,
        };
        match syn::parse_file(&txt) {
            Ok(ast) => v.push(SourceFile {
                rel: r.to_string(),
                ast,
            }),
            Err(e) => eprintln!("parse error in {}: {}", r, e),
        }
    }
    v
}

pub fn file<'a>(files: &'a [SourceFile], rel: &str) -> Option<&'a syn::File> {
    files.iter().find(|f| f.rel == rel).map(|f| &f.ast)
}

#[derive(Default)]
pub struct Report {
    pub ok: Vec<String>,
    pub failed: BTreeMap<String, String>,
    pub counts: BTreeMap<String, usize>,
}

impl Report {
    pub fn ok(&mut self, item: &str) {
        self.ok.push(item.to_string());
    }
    pub fn fail(&mut self, item: &str, why: &str) {
        self.failed.insert(item.to_string(), why.to_string());
    }
    pub fn count(&mut self, k: &str, n: usize) {
        self.counts.insert(k.to_string(), n);
    }
    pub fn to_json(&self) -> String {
        let esc = |s: &str| s.replace('\\', "\\\\").replace('"', "\\\"").replace('\n', " ");
        let mut s = String::from("{\"ok\":[");
        s.push_str(
            &self
                .ok
                .iter()
                .map(|x| format!("\"{}\"", esc(x)))
                .collect::<Vec<_>>()
                .join(","),
        );
        s.push_str("],\"failed\":{");
        s.push_str(
            &self
                .failed
                .iter()
                .map(|(k, v)| format!("\"{}\":\"{}\"", esc(k), esc(v)))
                .collect::<Vec<_>>()
                .join(","),
        );
        s.push_str("},\"counts\":{");
        s.push_str(
            &self
                .counts
                .iter()
                .map(|(k, v)| format!("\"{}\":{}", esc(k), v))
                .collect::<Vec<_>>()
                .join(","),
        );
        s.push_str("}}");
        s
    }
}

pub fn write_if_changed(p: &Path, txt: &str) {
    if let Ok(old) = std::fs::read_to_string(p) {
        if old == txt {
            return;
        }
    }
    std::fs::write(p, txt).unwrap();
}

/// Every fn item (free, impl, trait-impl) in a file, with the impl it sits in.
pub struct FnInfo<'a> {
    pub name: String,
    pub sig: &'a syn::Signature,
    pub block: &'a syn::Block,
    pub vis: Option<&'a syn::Visibility>,
    pub attrs: &'a [syn::Attribute],
    pub imp: Option<&'a syn::ItemImpl>,
}

pub fn is_cfg_test(attrs: &[syn::Attribute]) -> bool {
    attrs.iter().any(|a| {
        let s = crate::expr::tokens_of(a);
        s.contains("cfg(test)") || s == "#[test]"
    })
}

pub fn is_cfg_verif(attrs: &[syn::Attribute]) -> bool {
    attrs.iter().any(|a| {
        let t = crate::expr::tokens_of(a);
        // `#[cfg(flurry_verif)]` items are hook code; `#[cfg_attr(flurry_verif, ..)]` only decorates real code
        t.starts_with("#[cfg(") && t.contains("flurry_verif")
    })
}

pub fn fns(file: &syn::File) -> Vec<FnInfo<'_>> {
    let mut v = Vec::new();
    for it in &file.items {
        match it {
            syn::Item::Fn(f) => {
                if is_cfg_test(&f.attrs) || is_cfg_verif(&f.attrs) {
                    continue;
                }
                v.push(FnInfo {
                    name: f.sig.ident.to_string(),
                    sig: &f.sig,
                    block: &f.block,
                    vis: Some(&f.vis),
                    attrs: &f.attrs,
                    imp: None,
                })
            }
            syn::Item::Impl(im) => {
                if is_cfg_test(&im.attrs) || is_cfg_verif(&im.attrs) {
                    continue;
                }
                for ii in &im.items {
                    if let syn::ImplItem::Fn(f) = ii {
                        if is_cfg_test(&f.attrs) || is_cfg_verif(&f.attrs) {
                            continue;
                        }
                        v.push(FnInfo {
                            name: f.sig.ident.to_string(),
                            sig: &f.sig,
                            block: &f.block,
                            vis: Some(&f.vis),
                            attrs: &f.attrs,
                            imp: Some(im),
                        })
                    }
                }
            }
            _ => {}
        }
    }
    v
}

pub fn find_fn<'a>(file: &'a syn::File, name: &str) -> Option<FnInfo<'a>> {
    fns(file).into_iter().find(|f| f.name == name)
}

/// Collect all sub-expressions of a block satisfying `pred`, in source order.
pub fn collect_exprs<'a>(block: &'a syn::Block, pred: &dyn Fn(&syn::Expr) -> bool) -> Vec<&'a syn::Expr> {
    struct V<'a, 'p> {
        out: Vec<&'a syn::Expr>,
        pred: &'p dyn Fn(&syn::Expr) -> bool,
    }
    impl<'a, 'p> Visit<'a> for V<'a, 'p> {
        fn visit_expr(&mut self, e: &'a syn::Expr) {
            if (self.pred)(e) {
                self.out.push(e);
            }
            syn::visit::visit_expr(self, e);
        }
    }
    let mut v = V { out: vec![], pred };
    v.visit_block(block);
    v.out
}

pub fn collect_locals<'a>(block: &'a syn::Block, name: &str) -> Vec<&'a syn::Local> {
    struct V<'a> {
        out: Vec<&'a syn::Local>,
        name: String,
    }
    impl<'a> Visit<'a> for V<'a> {
        fn visit_local(&mut self, l: &'a syn::Local) {
            let n = match &l.pat {
                syn::Pat::Ident(pi) => pi.ident.to_string(),
                syn::Pat::Type(pt) => match &*pt.pat {
                    syn::Pat::Ident(pi) => pi.ident.to_string(),
                    _ => String::new(),
                },
                _ => String::new(),
            };
            if n == self.name {
                self.out.push(l);
            }
            syn::visit::visit_local(self, l);
        }
    }
    let mut v = V {
        out: vec![],
        name: name.to_string(),
    };
    v.visit_block(block);
    v.out
}

pub fn block_contains_call(block: &syn::Block, method: &str) -> bool {
    !collect_exprs(block, &|e| match e {
        syn::Expr::MethodCall(m) => m.method == method,
        syn::Expr::Call(c) => crate::expr::tokens_of(&c.func).ends_with(method),
        _ => false,
    })
    .is_empty()
}

pub fn lean_str(s: &str) -> String {
    format!("\"{}\"", s.replace('\\', "\\\\").replace('"', "\\\""))
}
