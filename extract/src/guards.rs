//! Gen/Guards.lean: for every fn that has a `Guard` in scope (a `&Guard` parameter, or the
//! `guard` field of a reference wrapper), the ordered list of what it does with that guard:
//! `check` (a top-level `self.check_guard(g)` statement), `call` (passes it on to another fn of the
//! crate, resolved to type/fn/parameter), `store` (wraps it in a value without reading through it),
//! `raw` (anything else: a load, a retire, an iterator constructed from it, …).
use crate::expr::{norm, tokens_of};
use crate::util::*;
use std::collections::BTreeMap;
use syn::visit::Visit;
use syn::{Expr, FnArg, Pat};

#[derive(Clone, Debug)]
enum Use {
    Check,
    Call { recv: String, name: String, arg_idx: usize },
    Raw(String),
    Store,
}

struct Row {
    ty: String,
    name: String,
    public: bool,
    params: Vec<String>, // all parameter names in order (excluding self)
    guard_param: String,
    uses: Vec<Use>,
}

fn impl_type_name(im: &syn::ItemImpl) -> String {
    let s = tokens_of(&im.self_ty);
    // `&HashMap<K,V,S>` (Extend impls) -> HashMap
    let s = s.trim_start_matches('&').to_string();
    s.split('<').next().unwrap_or("").to_string()
}

fn is_guard_type(t: &syn::Type) -> bool {
    let s = tokens_of(t);
    s.starts_with("&") && s.contains("Guard<")
}

struct UseVisitor<'a> {
    guard_tokens: Vec<String>, // normalised spellings of the guard expression
    uses: Vec<Use>,
    top_level_checks: &'a [usize], // indices (in visiting order of method calls named check_guard) that are top-level
    check_seen: usize,
}

fn is_guard_expr(e: &Expr, toks: &[String]) -> bool {
    let s = tokens_of(e);
    toks.iter().any(|t| *t == s)
}

impl<'ast, 'a> Visit<'ast> for UseVisitor<'a> {
    fn visit_expr_method_call(&mut self, m: &'ast syn::ExprMethodCall) {
        // receiver first (source order)
        self.visit_expr(&m.receiver);
        let name = m.method.to_string();
        if is_guard_expr(&m.receiver, &self.guard_tokens) {
            self.uses.push(Use::Raw(format!("{}.{}()", tokens_of(&m.receiver), name)));
        }
        for (i, a) in m.args.iter().enumerate() {
            if is_guard_expr(a, &self.guard_tokens) {
                if name == "check_guard" {
                    let top = self.top_level_checks.contains(&self.check_seen);
                    self.check_seen += 1;
                    if top {
                        self.uses.push(Use::Check);
                    } else {
                        self.uses.push(Use::Raw("conditional check_guard".into()));
                    }
                } else {
                    self.uses.push(Use::Call {
                        recv: tokens_of(&m.receiver),
                        name: name.clone(),
                        arg_idx: i,
                    });
                }
            } else {
                self.visit_expr(a);
            }
        }
    }
    fn visit_expr_call(&mut self, c: &'ast syn::ExprCall) {
        let f = tokens_of(&c.func);
        for (i, a) in c.args.iter().enumerate() {
            if is_guard_expr(a, &self.guard_tokens) {
                if f.starts_with("GuardRef::") {
                    self.uses.push(Use::Store);
                } else {
                    self.uses.push(Use::Call {
                        recv: format!("::{}", f),
                        name: f.rsplit("::").next().unwrap_or("").to_string(),
                        arg_idx: i,
                    });
                }
            } else {
                self.visit_expr(a);
            }
        }
        self.visit_expr(&c.func);
    }
    fn visit_expr_struct(&mut self, s: &'ast syn::ExprStruct) {
        for f in &s.fields {
            if is_guard_expr(&f.expr, &self.guard_tokens) {
                self.uses.push(Use::Store);
            } else {
                self.visit_expr(&f.expr);
            }
        }
    }
}

/// which `check_guard` calls (in visiting order) are direct statements of the fn body
fn top_level_check_indices(block: &syn::Block) -> Vec<usize> {
    // count check_guard method calls in source order; a call is top-level iff the statement
    // `self.check_guard(..);` is an element of block.stmts
    let all = collect_exprs(block, &|e| matches!(e, Expr::MethodCall(m) if m.method == "check_guard"));
    let mut tops = vec![];
    for st in &block.stmts {
        if let syn::Stmt::Expr(e @ Expr::MethodCall(m), _) = st {
            if m.method == "check_guard" {
                if let Some(i) = all.iter().position(|x| std::ptr::eq(*x, e)) {
                    tops.push(i);
                }
            }
        }
    }
    tops
}

fn recv_type(cur: &str, recv: &str) -> Option<String> {
    let r = recv.trim_start_matches('&').trim_start_matches("(*").trim_end_matches(')');
    let r = r.replacen("other", "self", 1);
    let r = r.replace("(*self)", "self");
    match (cur, r.as_str()) {
        (_, "self") => Some(cur.to_string()),
        ("HashSet", "self.map") => Some("HashMap".into()),
        ("HashMapRef", "self.map") => Some("HashMap".into()),
        ("HashSetRef", "self.set") => Some("HashSet".into()),
        ("HashSetRef", "self.set.map") => Some("HashMap".into()),
        _ => None,
    }
}

pub fn generate(files: &[SourceFile], report: &mut Report) -> String {
    let mut rows: Vec<Row> = vec![];
    for rel in ["map.rs", "set.rs", "map_ref.rs", "set_ref.rs", "serde_impls.rs", "rayon_impls.rs"] {
        let Some(f) = file(files, rel) else { continue };
        for fi in fns(f) {
            let Some(im) = fi.imp else { continue };
            let ty = impl_type_name(im);
            if !["HashMap", "HashSet", "HashMapRef", "HashSetRef"].contains(&ty.as_str()) {
                continue;
            }
            let is_trait_impl = im.trait_.is_some();
            let public = is_trait_impl || matches!(fi.vis, Some(syn::Visibility::Public(_)));
            let mut params = vec![];
            let mut guard_params = vec![];
            for a in &fi.sig.inputs {
                if let FnArg::Typed(pt) = a {
                    let name = match &*pt.pat {
                        Pat::Ident(pi) => pi.ident.to_string(),
                        _ => "_".into(),
                    };
                    if is_guard_type(&pt.ty) {
                        guard_params.push(name.clone());
                    }
                    params.push(name);
                }
            }
            let tops = top_level_check_indices(fi.block);
            let mut mk = |gp: String, toks: Vec<String>, rows: &mut Vec<Row>| {
                let mut v = UseVisitor {
                    guard_tokens: toks,
                    uses: vec![],
                    top_level_checks: &tops,
                    check_seen: 0,
                };
                v.visit_block(fi.block);
                rows.push(Row {
                    ty: ty.clone(),
                    name: fi.name.clone(),
                    public,
                    params: params.clone(),
                    guard_param: gp,
                    uses: v.uses,
                });
            };
            for gp in &guard_params {
                mk(gp.clone(), vec![norm(gp), norm(&format!("&{}", gp))], &mut rows);
            }
            {
                // the wrapper's own guard, and the guard of another wrapper in binary impls
                let body = tokens_of(fi.block);
                if body.contains("self.guard") {
                    mk("self.guard".into(), vec!["&self.guard".into(), "self.guard".into()], &mut rows);
                }
                if body.contains("other.guard") {
                    mk("other.guard".into(), vec!["&other.guard".into(), "other.guard".into()], &mut rows);
                }
            }
        }
    }
    // resolve calls: a callee is named by its row index
    let index: BTreeMap<(String, String), Vec<String>> = rows
        .iter()
        .map(|r| ((r.ty.clone(), r.name.clone()), r.params.clone()))
        .collect();
    let row_of: BTreeMap<(String, String, String), usize> = rows
        .iter()
        .enumerate()
        .map(|(i, r)| ((r.ty.clone(), r.name.clone(), r.guard_param.clone()), i))
        .collect();
    let mut out = String::from("-- GENERATED by /verif/extract from /repo/src on every run. Do not edit.\n");
    out.push_str("import Flurry.SigDefs\nnamespace Flurry.Gen\nopen Flurry.Sig\n\ndef guardFns : List GFn := [\n");
    let mut lines = vec![];
    let mut npub = 0;
    for r in &rows {
        let mut uses = vec![];
        for u in &r.uses {
            uses.push(match u {
                Use::Check => ".check".to_string(),
                Use::Store => ".store".to_string(),
                Use::Raw(w) => format!(".raw {}", lean_str(w)),
                Use::Call { recv, name, arg_idx } => {
                    let rt = if recv.starts_with("::") { None } else { recv_type(&r.ty, recv) };
                    let resolved = rt.and_then(|t| {
                        let ps = index.get(&(t.clone(), name.clone()))?;
                        let p = ps.get(*arg_idx)?;
                        row_of.get(&(t, name.clone(), p.clone())).copied()
                    });
                    match resolved {
                        Some(i) => format!(".call {} {}", i, lean_str(&format!("{}::{}", rows[i].ty, rows[i].name))),
                        None => format!(".raw {}", lean_str(&format!("{}.{}(..)", recv, name))),
                    }
                }
            });
        }
        if r.public {
            npub += 1;
        }
        lines.push(format!(
            "  {{ ty := {}, fn := {}, pub := {}, param := {}, uses := [{}] }}",
            lean_str(&r.ty),
            lean_str(&r.name),
            r.public,
            lean_str(&r.guard_param),
            uses.join(", ")
        ));
    }
    out.push_str(&lines.join(",\n"));
    out.push_str("\n]\n\n-- row indices by name\n");
    let mut named = std::collections::BTreeSet::new();
    for (i, r) in rows.iter().enumerate() {
        let gp: String = r.guard_param.chars().map(|c| if c.is_alphanumeric() { c } else { '_' }).collect();
        let n = format!("row_{}_{}_{}", r.ty, r.name, gp);
        if named.insert(n.clone()) {
            out.push_str(&format!("def {} : Nat := {}\n", n, i));
        }
    }
    // the bodies of the functions named `check_guard`: does the check reject a foreign collector in
    // every build profile? (`assert!`, not `debug_assert!`, not under `cfg!`/`#[cfg]`), or delegate
    // to another `check_guard`
    out.push_str("\n/-- (type, the body of its `check_guard` panics on a foreign collector in every build profile) -/\ndef checkGuardBodies : List (String × Bool) := [");
    let mut cg = vec![];
    for rel in ["map.rs", "set.rs", "map_ref.rs", "set_ref.rs"] {
        let Some(f) = file(files, rel) else { continue };
        for fi in fns(f) {
            if fi.name != "check_guard" {
                continue;
            }
            let ty = fi.imp.map(impl_type_name).unwrap_or_default();
            struct M {
                asserts: bool,
                weak: bool,
            }
            impl<'ast> Visit<'ast> for M {
                fn visit_macro(&mut self, m: &'ast syn::Macro) {
                    let name = m.path.segments.last().map(|s| s.ident.to_string()).unwrap_or_default();
                    let toks = m.tokens.to_string().replace(' ', "");
                    if name == "assert" && toks.contains("ptr_eq") && toks.contains("collector") {
                        self.asserts = true;
                    }
                    if name.starts_with("debug_assert") || name == "cfg" {
                        self.weak = true;
                    }
                }
            }
            let mut m = M { asserts: false, weak: false };
            m.visit_block(fi.block);
            let body = tokens_of(fi.block);
            let attrs_cfg = fi.attrs.iter().any(|a| tokens_of(a).replace(' ', "").starts_with("#[cfg"));
            let delegates = body.replace(' ', "").contains(".check_guard(");
            let early_exit = body.contains("return");
            let ok = (m.asserts || delegates) && !m.weak && !attrs_cfg && !early_exit;
            cg.push(format!("({}, {})", lean_str(&ty), ok));
        }
    }
    report.count("check_guard_bodies", cg.len());
    out.push_str(&cg.join(", "));
    out.push_str("]\n");
    out.push_str("\nend Flurry.Gen\n");
    report.count("guard_fns", rows.len());
    report.count("guard_fns_public", npub);
    if rows.is_empty() {
        report.fail("guards", "no guard-taking functions found");
    } else {
        report.ok("guards");
    }
    out
}
