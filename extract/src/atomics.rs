//! Gen/Atomics.lean: every shared-memory site of the crate, per function:
//! atomic loads/stores/swaps/CASes/RMWs with the receiver's field path and the `Ordering`
//! arguments as written, mutex `lock()` calls, `park`/`unpark`/`yield_now`/`spin_loop`,
//! `retire_shared`/`defer_retire`, and the intra-crate calls (by method name) a function makes.
use crate::expr::tokens_of;
use crate::util::*;
use syn::visit::Visit;
use syn::Expr;

#[derive(Clone)]
struct Site {
    func: String,
    kind: String,
    path: String,
    ords: Vec<String>,
}

struct V<'a> {
    func: String,
    sites: &'a mut Vec<Site>,
    /// (caller, callee name, number of arguments, receiver text; for path calls "::<Qualifier>" or "::")
    calls: &'a mut Vec<(String, String, usize, String)>,
}

fn ord_name(e: &Expr) -> Option<String> {
    let s = tokens_of(e);
    for o in ["Relaxed", "Acquire", "Release", "AcqRel", "SeqCst"] {
        if s == format!("Ordering::{}", o) || s.ends_with(&format!("::{}", o)) {
            return Some(o.to_string());
        }
    }
    None
}

/// last one or two field names of a receiver chain: `tree_bin.first` -> "first", `self.size_ctl` -> "size_ctl",
/// `treenode!(x).red` -> "red", `self.bins[i]` -> "bins[]"
fn field_path(e: &Expr) -> String {
    match e {
        Expr::Field(f) => match &f.member {
            syn::Member::Named(i) => i.to_string(),
            syn::Member::Unnamed(i) => i.index.to_string(),
        },
        Expr::Index(i) => format!("{}[]", field_path(&i.expr)),
        Expr::Paren(p) => field_path(&p.expr),
        Expr::Reference(r) => field_path(&r.expr),
        Expr::MethodCall(m) => format!("{}()", m.method),
        Expr::Path(p) => p.path.segments.last().map(|s| s.ident.to_string()).unwrap_or_default(),
        Expr::Match(_) => "<match>".into(),
        Expr::Unary(u) => field_path(&u.expr),
        _ => "<expr>".into(),
    }
}

impl<'ast, 'a> Visit<'ast> for V<'a> {
    fn visit_expr_method_call(&mut self, m: &'ast syn::ExprMethodCall) {
        let name = m.method.to_string();
        let ords: Vec<String> = m.args.iter().filter_map(ord_name).collect();
        let kind = match name.as_str() {
            "load" if !ords.is_empty() => Some("load"),
            "store" if !ords.is_empty() => Some("store"),
            "swap" if !ords.is_empty() => Some("swap"),
            "compare_exchange" | "compare_exchange_weak" if !ords.is_empty() => Some("cas"),
            "fetch_add" | "fetch_sub" | "fetch_or" | "fetch_and" if !ords.is_empty() => Some("rmw"),
            "lock" if m.args.is_empty() => Some("lock"),
            "try_lock" => Some("lock"),
            "unpark" => Some("unpark"),
            "retire_shared" | "defer_retire" => Some("retire"),
            "clone" if tokens_of(&m.receiver).ends_with(".value") => Some("clone_load"),
            _ => None,
        };
        if let Some(k) = kind {
            self.sites.push(Site { func: self.func.clone(), kind: k.into(), path: field_path(&m.receiver), ords });
        } else {
            self.calls.push((self.func.clone(), name, m.args.len(), tokens_of(&m.receiver)));
        }
        syn::visit::visit_expr_method_call(self, m);
    }
    fn visit_expr_call(&mut self, c: &'ast syn::ExprCall) {
        let f = tokens_of(&c.func);
        let last = f.rsplit("::").next().unwrap_or("").to_string();
        match last.as_str() {
            "park" | "park_timeout" => self.sites.push(Site { func: self.func.clone(), kind: "park".into(), path: String::new(), ords: vec![] }),
            "yield_now" => self.sites.push(Site { func: self.func.clone(), kind: "yield".into(), path: String::new(), ords: vec![] }),
            "spin_loop" => self.sites.push(Site { func: self.func.clone(), kind: "spin".into(), path: String::new(), ords: vec![] }),
            "sleep" => self.sites.push(Site { func: self.func.clone(), kind: "sleep".into(), path: String::new(), ords: vec![] }),
            _ => {
                // `Type::func(..)` / `Self::func(..)`: remember the qualifier
                let segs: Vec<&str> = f.split("::").collect();
                let qual = if segs.len() >= 2 { segs[segs.len() - 2].split('<').next().unwrap_or("") } else { "" };
                self.calls.push((self.func.clone(), last, c.args.len(), format!("::{}", qual)))
            }
        }
        syn::visit::visit_expr_call(self, c);
    }
    fn visit_expr_macro(&mut self, m: &'ast syn::ExprMacro) {
        // `treenode!(x).red.load(..)` is parsed as field access on a macro: nothing to do here;
        // macros whose arguments contain expressions (assert!, debug_assert!) are skipped
        let _ = m;
    }
}

pub fn generate(files: &[SourceFile], report: &mut Report) -> String {
    let mut sites = vec![];
    let mut calls = vec![];
    let mut fnames = vec![];
    // per function: (number of non-receiver parameters, has receiver, is a method of a std trait impl)
    let mut finfo: Vec<(usize, bool, bool)> = vec![];
    for rel in ["map.rs", "node.rs", "raw/mod.rs", "reclaim.rs", "iter/mod.rs", "iter/traverser.rs", "set.rs", "map_ref.rs", "set_ref.rs"] {
        let Some(f) = file(files, rel) else { continue };
        for fi in fns(f) {
            let ty = fi.imp.map(|im| tokens_of(&im.self_ty).trim_start_matches('&').split('<').next().unwrap_or("").to_string()).unwrap_or_default();
            let full = if ty.is_empty() { fi.name.clone() } else { format!("{}::{}", ty, fi.name) };
            fnames.push(full.clone());
            let has_recv = fi.sig.inputs.iter().any(|a| matches!(a, syn::FnArg::Receiver(_)));
            let nparams = fi.sig.inputs.iter().filter(|a| matches!(a, syn::FnArg::Typed(_))).count();
            let std_trait = fi.imp.and_then(|im| im.trait_.as_ref()).map(|(_, p, _)| {
                let t = p.segments.last().map(|s| s.ident.to_string()).unwrap_or_default();
                ["Clone", "PartialEq", "Eq", "Debug", "Drop", "Extend", "FromIterator", "Iterator", "IntoIterator", "Default", "Deref", "From", "Index", "Display", "Error", "Hasher", "BuildHasher"].contains(&t.as_str())
            }).unwrap_or(false);
            finfo.push((nparams, has_recv, std_trait));
            let mut v = V { func: full, sites: &mut sites, calls: &mut calls };
            v.visit_block(fi.block);
        }
    }
    let ls = |v: &[String]| format!("[{}]", v.iter().map(|s| lean_str(s)).collect::<Vec<_>>().join(", "));
    let id_of: std::collections::HashMap<String, usize> = fnames.iter().enumerate().map(|(i, f)| (f.clone(), i)).collect();
    let mut out = String::from("-- GENERATED by /verif/extract from /repo/src on every run. Do not edit.\n");
    out.push_str("import Flurry.SigDefs\nnamespace Flurry.Gen\nopen Flurry.Sig\n\n/-- function names; the index is the function's id -/\ndef crateFns : List String := ");
    out.push_str(&ls(&fnames));
    out.push_str("\n\ndef atomicSites : List Site := [\n");
    out.push_str(
        &sites
            .iter()
            .map(|s| format!("  {{ fn := {}, fnId := {}, kind := {}, path := {}, ords := {} }}", lean_str(&s.func), id_of.get(&s.func).copied().unwrap_or(0), lean_str(&s.kind), lean_str(&s.path), ls(&s.ords)))
            .collect::<Vec<_>>()
            .join(",\n"),
    );
    // call edges by id: a call of method `m` may reach every function of the crate named `m`
    let mut ce: Vec<(usize, usize)> = vec![];
    for (caller, callee, nargs, recv) in &calls {
        let Some(a) = id_of.get(caller) else { continue };
        for (j, f) in fnames.iter().enumerate() {
            if f.rsplit("::").next().unwrap() != callee {
                continue;
            }
            let (nparams, has_recv, std_trait) = finfo[j];
            // method syntax: the receiver is not among the arguments; path syntax: it is
            let path_call = recv.starts_with("::");
            let arity_ok = if path_call { *nargs == nparams + has_recv as usize } else { has_recv && *nargs == nparams };
            if !arity_ok {
                continue;
            }
            if path_call {
                // a qualified call reaches only that type's function (`Self` = the caller's type)
                let q = &recv[2..];
                let caller_ty = caller.split("::").next().unwrap_or("");
                let want_ty = if q == "Self" { caller_ty } else { q };
                let callee_ty = f.split("::").next().unwrap_or("");
                if !want_ty.is_empty() && f.contains("::") && want_ty != callee_ty {
                    continue;
                }
            }
            // a method of a std trait (clone, next, eq, …) is only taken to be the crate's impl when
            // it is called on `self`/`other` or one of their fields
            if std_trait && !path_call {
                let r = recv.trim_start_matches('&').trim_start_matches("(*");
                if !(r.starts_with("self") || r.starts_with("other")) {
                    continue;
                }
            }
            ce.push((*a, j));
        }
    }
    ce.sort();
    ce.dedup();
    out.push_str("\n]\n\n/-- (caller id, callee id): resolved by method name (an over-approximation) -/\ndef callEdges : List (Nat × Nat) := [");
    out.push_str(&ce.iter().map(|(a, b)| format!("({}, {})", a, b)).collect::<Vec<_>>().join(", "));
    out.push_str("]\n\n");
    // read entry points and the functions reachable from them (a certificate: Lean re-checks that
    // the list contains the roots and is closed under `callEdges`)
    let roots = [
        "HashMap::get", "HashMap::get_key_value", "HashMap::contains_key", "HashMap::len", "HashMap::is_empty",
        "HashMap::guarded_eq", "HashMap::iter", "HashMap::keys", "HashMap::values", "NodeIter::next", "NodeIter::new",
        "Iter::next", "Iter::next_internal", "Keys::next", "Values::next", "HashSet::contains", "HashSet::get", "HashSet::iter",
        "HashSet::len", "HashSet::is_empty", "HashSet::is_disjoint", "HashSet::is_subset", "HashSet::is_superset", "HashSet::guarded_eq",
        "HashMapRef::get", "HashMapRef::get_key_value", "HashMapRef::contains_key", "HashMapRef::iter", "HashMapRef::keys",
        "HashMapRef::values", "HashMapRef::len", "HashMapRef::is_empty", "HashSetRef::contains", "HashSetRef::get",
        "HashSetRef::iter", "HashSetRef::len", "HashSetRef::is_empty",
    ];
    let mut clos: std::collections::BTreeSet<usize> = roots.iter().filter_map(|r| id_of.get(*r).copied()).collect();
    let root_ids: Vec<usize> = roots.iter().filter_map(|r| id_of.get(*r).copied()).collect();
    loop {
        let before = clos.len();
        for (a, b) in &ce {
            if clos.contains(a) {
                clos.insert(*b);
            }
        }
        if clos.len() == before {
            break;
        }
    }
    out.push_str(&format!("def readRootNames : List String := {}\n", ls(&roots.iter().filter(|r| id_of.contains_key(**r)).map(|r| r.to_string()).collect::<Vec<_>>())));
    out.push_str(&format!("def readRoots : List Nat := [{}]\n", root_ids.iter().map(|i| i.to_string()).collect::<Vec<_>>().join(", ")));
    out.push_str(&format!("def readClosure : List Nat := [{}]\n", clos.iter().map(|i| i.to_string()).collect::<Vec<_>>().join(", ")));
    // the order, in the source of `transfer`, of: bin-lock acquisitions, stores into bins of the
    // next table ("fill"), the store of the forwarding marker into the old table ("forward"), and
    // retirements ("retire")
    out.push_str("\n/-- `transfer`, in source order: lock / fill (store_bin on next_table) / forward (store_bin on table) / retire -/\ndef transferOrder : List String := [");
    let mut order: Vec<String> = vec![];
    if let Some(f) = file(files, "map.rs") {
        if let Some(fi) = find_fn(f, "transfer") {
            struct O<'a> {
                out: &'a mut Vec<String>,
            }
            impl<'ast, 'a> Visit<'ast> for O<'a> {
                fn visit_expr_method_call(&mut self, m: &'ast syn::ExprMethodCall) {
                    // receiver first (source order of evaluation)
                    syn::visit::visit_expr_method_call(self, m);
                    let name = m.method.to_string();
                    let recv = tokens_of(&m.receiver);
                    match name.as_str() {
                        "store_bin" => self.out.push(if recv == "next_table" { "fill".into() } else if recv == "table" { "forward".into() } else { format!("store_bin:{}", recv) }),
                        "lock" if m.args.is_empty() => self.out.push("lock".into()),
                        "retire_shared" | "defer_retire" => self.out.push("retire".into()),
                        _ => {}
                    }
                }
            }
            let mut o = O { out: &mut order };
            o.visit_block(fi.block);
        }
    }
    out.push_str(&order.iter().map(|x| lean_str(x)).collect::<Vec<_>>().join(", "));
    out.push_str("]\n");
    report.count("transfer_order", order.len());
    // the order, in source, of the accesses to the map's control words in the two functions
    // that join a running resize (`Proto/Resize` models exactly this order, see finding F6)
    for (fname, lname) in [("add_count", "addCountAccessOrder"), ("help_transfer", "helpTransferAccessOrder")] {
        let mut order: Vec<String> = vec![];
        if let Some(f) = file(files, "map.rs") {
            if let Some(fi) = find_fn(f, fname) {
                struct A<'a> {
                    out: &'a mut Vec<String>,
                }
                impl<'ast, 'a> Visit<'ast> for A<'a> {
                    fn visit_expr_method_call(&mut self, m: &'ast syn::ExprMethodCall) {
                        syn::visit::visit_expr_method_call(self, m);
                        let name = m.method.to_string();
                        let recv = tokens_of(&m.receiver).replace(' ', "");
                        let field = ["size_ctl", "transfer_index", "next_table", "table", "count"].iter().find(|f| recv == format!("self.{}", f));
                        if let Some(f) = field {
                            let k = match name.as_str() {
                                "load" => "load",
                                "compare_exchange" | "compare_exchange_weak" => "cas",
                                "store" => "store",
                                "swap" => "swap",
                                "fetch_add" | "fetch_sub" => "rmw",
                                _ => return,
                            };
                            self.out.push(format!("{}:{}", k, f));
                        }
                    }
                }
                let mut a = A { out: &mut order };
                a.visit_block(fi.block);
            }
        }
        out.push_str(&format!("\n/-- `{}`: accesses to the control words, in source order -/\ndef {} : List String := [{}]\n", fname, lname, order.iter().map(|x| lean_str(x)).collect::<Vec<_>>().join(", ")));
    }
    // tree bins (`Proto/BinT`): the order of lock_root / unlock_root and of the stores to the list
    // cells (`first`, `next`, `prev`) and tree links (`left`, `right`, `root`, `parent`) in the two
    // functions that change a tree bin
    for (fname, lname) in [("remove_tree_node", "removeTreeNodeOrder"), ("find_or_put_tree_val", "findOrPutTreeValOrder")] {
        let mut order: Vec<String> = vec![];
        if let Some(f) = file(files, "node.rs") {
            if let Some(fi) = find_fn(f, fname) {
                struct T<'a> {
                    out: &'a mut Vec<String>,
                }
                impl<'ast, 'a> Visit<'ast> for T<'a> {
                    fn visit_expr_method_call(&mut self, m: &'ast syn::ExprMethodCall) {
                        syn::visit::visit_expr_method_call(self, m);
                        let name = m.method.to_string();
                        match name.as_str() {
                            "lock_root" | "unlock_root" => self.out.push(name),
                            "store" => {
                                let f = field_path(&m.receiver);
                                let class = match f.as_str() {
                                    "first" | "next" | "prev" => "list",
                                    "left" | "right" | "root" | "parent" | "red" => "tree",
                                    _ => "other",
                                };
                                // keep one entry per run of equal classes
                                let tag = format!("store:{}", class);
                                if self.out.last() != Some(&tag) {
                                    self.out.push(tag);
                                }
                            }
                            _ => {}
                        }
                    }
                }
                let mut t = T { out: &mut order };
                t.visit_block(fi.block);
            }
        }
        out.push_str(&format!("\n/-- `{}`: lock_root / unlock_root and runs of stores to list cells / tree links, in source order -/\ndef {} : List String := [{}]\n", fname, lname, order.iter().map(|x| lean_str(x)).collect::<Vec<_>>().join(", ")));
    }
    // bin locks (`Proto/BinW`, `BinT`, `BinX`: wLock -> wCheck -> write): per function of map.rs that
    // takes a bin lock, in source order: `lock` (a `.lock.lock()`), `binload` (a `.bin(..)` load of
    // the bin cell), `recheck` (an `if` whose condition compares that cell with `!=`), `write`
    // (store / swap / CAS of a cell, store_bin / cas_bin, a retirement)
    {
        let mut per_fn: Vec<(String, Vec<String>)> = vec![];
        if let Some(f) = file(files, "map.rs") {
            for fname in ["transfer", "put", "replace_node", "compute_if_present", "clear", "treeify_bin", "retain", "retain_force", "try_insert", "insert"] {
                let Some(fi) = find_fn(f, fname) else { continue };
                struct L<'a> {
                    out: &'a mut Vec<String>,
                }
                impl<'ast, 'a> Visit<'ast> for L<'a> {
                    fn visit_expr_if(&mut self, i: &'ast syn::ExprIf) {
                        // the condition is evaluated first
                        self.visit_expr(&i.cond);
                        let c = tokens_of(&*i.cond);
                        if c.contains("!=") && (c.contains(". bin (") || c.contains(".bin(") || c.contains("current_head")) {
                            self.out.push("recheck".into());
                        }
                        self.visit_block(&i.then_branch);
                        if let Some((_, e)) = &i.else_branch {
                            self.visit_expr(e);
                        }
                    }
                    fn visit_expr_method_call(&mut self, m: &'ast syn::ExprMethodCall) {
                        syn::visit::visit_expr_method_call(self, m);
                        let name = m.method.to_string();
                        let recv = tokens_of(&m.receiver).replace(' ', "");
                        match name.as_str() {
                            "lock" if m.args.is_empty() && recv.ends_with(".lock") => self.out.push("lock".into()),
                            "bin" if m.args.len() == 2 => self.out.push("binload".into()),
                            "store" | "swap" | "compare_exchange" | "store_bin" | "cas_bin" | "retire_shared" | "defer_retire" => {
                                if self.out.last().map(|x| x.as_str()) != Some("write") {
                                    self.out.push("write".into());
                                }
                            }
                            _ => {}
                        }
                    }
                }
                let mut order = vec![];
                let mut l = L { out: &mut order };
                l.visit_block(fi.block);
                if order.iter().any(|x| x == "lock") {
                    per_fn.push((fname.to_string(), order));
                }
            }
        }
        out.push_str("\n/-- per function of map.rs that takes a bin lock, in source order: `lock` / `binload` (load of the bin cell) / `recheck` (an `if` comparing the cell with `!=`) / `write` (runs of stores, swaps, CASes, retirements) -/\ndef binLockOrder : List (String × List String) := [\n");
        out.push_str(&per_fn.iter().map(|(f, o)| format!("  ({}, [{}])", lean_str(f), o.iter().map(|x| lean_str(x)).collect::<Vec<_>>().join(", "))).collect::<Vec<_>>().join(",\n"));
        out.push_str("]\n");
        report.count("bin_lock_sites", per_fn.iter().map(|(_, o)| o.iter().filter(|x| *x == "lock").count()).sum());
    }
    // `clear` (`Proto/BinXC`: cTable -> cWait -> cCell): in source order, the call of
    // `help_transfer`, a `while` that re-loads `self.table` and compares it with `==` (the wait for
    // the commit of the resize, finding F7), and the assignment `idx = 0` (restart in the new table)
    {
        let mut order: Vec<String> = vec![];
        if let Some(f) = file(files, "map.rs") {
            if let Some(fi) = find_fn(f, "clear") {
                struct C<'a> {
                    out: &'a mut Vec<String>,
                }
                impl<'ast, 'a> Visit<'ast> for C<'a> {
                    fn visit_expr_while(&mut self, w: &'ast syn::ExprWhile) {
                        let c = tokens_of(&*w.cond).replace(' ', "");
                        if c.contains("self.table.load(") && c.contains("==") {
                            self.out.push("wait-commit".into());
                        }
                        syn::visit::visit_expr_while(self, w);
                    }
                    fn visit_expr_assign(&mut self, a: &'ast syn::ExprAssign) {
                        syn::visit::visit_expr_assign(self, a);
                        if tokens_of(&*a.left).trim() == "idx" && tokens_of(&*a.right).trim() == "0" {
                            self.out.push("restart".into());
                        }
                    }
                    fn visit_expr_method_call(&mut self, m: &'ast syn::ExprMethodCall) {
                        syn::visit::visit_expr_method_call(self, m);
                        if m.method == "help_transfer" {
                            self.out.push("help".into());
                        }
                    }
                }
                let mut c = C { out: &mut order };
                c.visit_block(fi.block);
            }
        }
        out.push_str(&format!("\n/-- `clear`, in source order: `help` (help_transfer) / `wait-commit` (a `while self.table.load(..) == ..` loop) / `restart` (`idx = 0`) -/\ndef clearMovedOrder : List String := [{}]\n", order.iter().map(|x| lean_str(x)).collect::<Vec<_>>().join(", ")));
    }
    // `replace_node` (the one routine behind `remove`, `remove_entry`, `retain`, `retain_force`): its
    // parameters `new_value` and `observed_value` are the *condition* of the call (`retain` passes the
    // value its predicate rejected as `observed_value`). The models (`Seq.replaceNode`, the conditional
    // removal of the per-key specification) keep them fixed for the whole call, whatever detours the
    // loop takes (forwarded bins, retries after a failed re-check). Listed: every parameter declared
    // `mut` and every assignment to a parameter.
    {
        let mut writes: Vec<String> = vec![];
        let mut found = false;
        if let Some(f) = file(files, "map.rs") {
            if let Some(fi) = find_fn(f, "replace_node") {
                found = true;
                let mut params: Vec<String> = vec![];
                for a in fi.sig.inputs.iter() {
                    if let syn::FnArg::Typed(t) = a {
                        if let syn::Pat::Ident(pi) = &*t.pat {
                            params.push(pi.ident.to_string());
                            if pi.mutability.is_some() {
                                writes.push(format!("mut:{}", pi.ident));
                            }
                        }
                    }
                }
                struct W<'a> {
                    params: &'a [String],
                    out: &'a mut Vec<String>,
                }
                impl<'ast, 'a> Visit<'ast> for W<'a> {
                    fn visit_expr_assign(&mut self, a: &'ast syn::ExprAssign) {
                        syn::visit::visit_expr_assign(self, a);
                        let l = tokens_of(&*a.left).replace(' ', "");
                        if self.params.iter().any(|p| *p == l) {
                            self.out.push(format!("assign:{}", l));
                        }
                    }
                    fn visit_local(&mut self, l: &'ast syn::Local) {
                        syn::visit::visit_local(self, l);
                        // shadowing: `let observed_value = ..`
                        if let syn::Pat::Ident(pi) = &l.pat {
                            if self.params.iter().any(|p| *p == pi.ident.to_string()) {
                                self.out.push(format!("shadow:{}", pi.ident));
                            }
                        }
                    }
                }
                let mut w = W { params: &params, out: &mut writes };
                w.visit_block(fi.block);
            }
        }
        out.push_str(&format!("\n/-- `replace_node`: parameters declared `mut`, assigned to, or shadowed in its body -/\ndef replaceNodeParamWrites : List String := [{}]\n/-- `replace_node` was found in map.rs -/\ndef replaceNodeFound : Bool := {}\n", writes.iter().map(|x| lean_str(x)).collect::<Vec<_>>().join(", "), found));
    }
    // `TreeBin::find` (`Proto/BinU` / `BinK`: rState -> rCas -> rTree -> rRelease): in source order, the
    // accesses to the bin's words and the call of the tree search. The models search the tree only
    // between the successful reader CAS and the reader's release; a root loaded before the CAS is a
    // root that a writer may have rotated away since.
    {
        let mut order: Vec<String> = vec![];
        if let Some(f) = file(files, "node.rs") {
            if let Some(fi) = crate::util::fns(f).into_iter().find(|x| x.name == "find" && tokens_of(x.block).contains("lock_state")) {
                struct F<'a> {
                    out: &'a mut Vec<String>,
                }
                impl<'ast, 'a> Visit<'ast> for F<'a> {
                    fn visit_expr_method_call(&mut self, m: &'ast syn::ExprMethodCall) {
                        syn::visit::visit_expr_method_call(self, m);
                        let name = m.method.to_string();
                        let k = match name.as_str() {
                            "load" => "load",
                            "compare_exchange" | "compare_exchange_weak" => "cas",
                            "store" => "store",
                            "swap" => "swap",
                            "fetch_add" | "fetch_sub" => "rmw",
                            _ => return,
                        };
                        let fld = field_path(&m.receiver);
                        if ["first", "lock_state", "next", "root", "waiter", "left", "right", "parent"].contains(&fld.as_str()) {
                            self.out.push(format!("{}:{}", k, fld));
                        }
                    }
                    fn visit_expr_call(&mut self, c: &'ast syn::ExprCall) {
                        syn::visit::visit_expr_call(self, c);
                        let f = tokens_of(&*c.func).replace(' ', "");
                        if f.ends_with("find_tree_node") {
                            self.out.push("call:find_tree_node".into());
                        }
                    }
                }
                let mut v = F { out: &mut order };
                v.visit_block(fi.block);
            }
        }
        out.push_str(&format!("\n/-- `TreeBin::find`, in source order: accesses to `first` / `lock_state` / `next` / `root` / `waiter` and the call of the tree search -/\ndef treeBinFindOrder : List String := [{}]\n", order.iter().map(|x| lean_str(x)).collect::<Vec<_>>().join(", ")));
        report.count("tree_bin_find_order", order.len());
    }
    out.push_str("\nend Flurry.Gen\n");
    report.count("read_closure", clos.len());
    report.count("atomic_sites", sites.len());
    report.count("call_edges", ce.len());
    if sites.is_empty() {
        report.fail("atomics", "no atomic sites found");
    } else {
        report.ok("atomics");
    }
    out
}
