//! Expression translator: a small subset of Rust integer expressions -> Lean 4 terms.
//!
//! Two back ends:
//!  * `Math`: usize/u64 -> `Nat`, isize/i64 -> `Int` (unbounded; `>> k` is `/ 2^k`, `<< k` is `* 2^k`).
//!  * `BV`:   every 64-bit integer -> `BitVec 64` with Rust's wrapping/sign semantics.
//!
//! Anything outside the subset is an `Err`, which the caller turns into an
//! `extraction_failed` marker (the dependent Lean file then fails to build).

use std::collections::HashMap;
use syn::{BinOp, Expr, Lit, Stmt, UnOp};

#[derive(Clone, Copy, PartialEq, Eq, Debug)]
pub enum Ty {
    U, // usize / u64 / u32
    I, // isize / i64
    B, // bool
    L, // unsuffixed literal: adopts the type of the other operand
}

#[derive(Clone, Copy, PartialEq, Eq, Debug)]
pub enum Backend {
    Math,
    BV,
}

#[derive(Clone)]
pub struct Ctx {
    pub backend: Backend,
    /// rust identifier -> (lean term, type)
    pub vars: HashMap<String, (String, Ty)>,
    /// method-call / field patterns that are replaced by variables, keyed by a
    /// normalised token string of the receiver+method, e.g. "self.bins.len()"
    pub subst: HashMap<String, (String, Ty)>,
    /// constants as Nat/Int terms, used for shift amounts in either back end
    pub math_consts: HashMap<String, (String, Ty)>,
    /// side effects recorded while translating (`self.count.fetch_add(..)` etc.)
    pub effects: std::rc::Rc<std::cell::RefCell<Vec<String>>>,
}

impl Ctx {
    pub fn new(backend: Backend) -> Self {
        Ctx {
            backend,
            vars: HashMap::new(),
            subst: HashMap::new(),
            math_consts: HashMap::new(),
            effects: Default::default(),
        }
    }
    pub fn var(&mut self, rust: &str, lean: &str, ty: Ty) -> &mut Self {
        self.vars.insert(rust.to_string(), (lean.to_string(), ty));
        self
    }
    pub fn sub(&mut self, pat: &str, lean: &str, ty: Ty) -> &mut Self {
        self.subst.insert(norm(pat), (lean.to_string(), ty));
        self
    }
}

pub fn norm(s: &str) -> String {
    s.chars().filter(|c| !c.is_whitespace()).collect()
}

pub fn tokens_of<T: quote::ToTokens>(t: &T) -> String {
    norm(&t.to_token_stream().to_string())
}

pub fn ty_of_type(t: &syn::Type) -> Result<Ty, String> {
    let s = tokens_of(t);
    match s.as_str() {
        "usize" | "u64" | "u32" => Ok(Ty::U),
        "isize" | "i64" => Ok(Ty::I),
        "bool" => Ok(Ty::B),
        _ => Err(format!("unsupported type {}", s)),
    }
}

fn lit_of(n: &str, ty: Ty, be: Backend) -> String {
    match (be, ty) {
        (Backend::BV, _) => format!("({}#64)", n),
        (Backend::Math, Ty::I) => format!("({} : Int)", n),
        (Backend::Math, _) => format!("({} : Nat)", n),
    }
}

fn unify(a: (String, Ty), b: (String, Ty), be: Backend) -> Result<(String, String, Ty), String> {
    // literals are produced lazily as "LIT:<digits>"
    let fix = |s: String, t: Ty| -> String {
        if let Some(d) = s.strip_prefix("LIT:") {
            lit_of(d, t, be)
        } else {
            s
        }
    };
    match (a.1, b.1) {
        (Ty::L, Ty::L) => Ok((fix(a.0, Ty::U), fix(b.0, Ty::U), Ty::L)),
        (Ty::L, t) => Ok((fix(a.0, t), b.0, t)),
        (t, Ty::L) => Ok((a.0, fix(b.0, t), t)),
        (t, u) if t == u => Ok((a.0, b.0, t)),
        (t, u) => Err(format!("type mismatch {:?} vs {:?} in `{}` / `{}`", t, u, a.0, b.0)),
    }
}

pub fn finish(x: (String, Ty), want: Ty, be: Backend) -> String {
    if let Some(d) = x.0.strip_prefix("LIT:") {
        lit_of(d, if x.1 == Ty::L { want } else { x.1 }, be)
    } else {
        x.0
    }
}

fn shift_amount(e: &Expr, ctx: &Ctx) -> Result<String, String> {
    // shift amounts are always small naturals; translate in Math/Nat
    let mut c = Ctx::new(Backend::Math);
    c.vars = ctx.math_consts.clone();
    c.math_consts = ctx.math_consts.clone();
    let r = tr(e, &c)?;
    Ok(finish(r, Ty::U, Backend::Math))
}

pub fn tr(e: &Expr, ctx: &Ctx) -> Result<(String, Ty), String> {
    let be = ctx.backend;
    // whole-expression substitutions first
    let key = tokens_of(e);
    if let Some((l, t)) = ctx.subst.get(&key) {
        return Ok((l.clone(), *t));
    }
    match e {
        Expr::Paren(p) => tr(&p.expr, ctx),
        Expr::Group(g) => tr(&g.expr, ctx),
        Expr::Reference(r) => tr(&r.expr, ctx),
        Expr::Lit(l) => match &l.lit {
            Lit::Int(i) => {
                let digits = i.base10_digits().to_string();
                let ty = match i.suffix() {
                    "" => Ty::L,
                    "usize" | "u64" | "u32" => Ty::U,
                    "isize" | "i64" => Ty::I,
                    s => return Err(format!("literal suffix {}", s)),
                };
                if ty == Ty::L {
                    Ok((format!("LIT:{}", digits), Ty::L))
                } else {
                    Ok((lit_of(&digits, ty, be), ty))
                }
            }
            Lit::Bool(b) => Ok((format!("{}", b.value), Ty::B)),
            _ => Err("unsupported literal".into()),
        },
        Expr::Path(p) => {
            let name = p.path.segments.last().unwrap().ident.to_string();
            if let Some((l, t)) = ctx.vars.get(&name) {
                Ok((l.clone(), *t))
            } else {
                Err(format!("unknown identifier `{}`", tokens_of(p)))
            }
        }
        Expr::Unary(u) => match u.op {
            UnOp::Neg(_) => {
                let x = tr(&u.expr, ctx)?;
                let s = finish(x.clone(), Ty::I, be);
                Ok((format!("(-{})", s), Ty::I))
            }
            UnOp::Not(_) => {
                let x = tr(&u.expr, ctx)?;
                match x.1 {
                    Ty::B => Ok((format!("(!{})", x.0), Ty::B)),
                    t => match be {
                        Backend::BV => Ok((format!("(~~~{})", finish(x, t, be)), t)),
                        Backend::Math => Err("bitwise not in Math backend".into()),
                    },
                }
            }
            _ => Err("unsupported unary".into()),
        },
        Expr::Cast(c) => {
            let x = tr(&c.expr, ctx)?;
            let to = ty_of_type(&c.ty)?;
            let from = if x.1 == Ty::L { to } else { x.1 };
            let s = finish(x, to, be);
            match (be, from, to) {
                (_, a, b) if a == b => Ok((s, to)),
                (Backend::BV, _, _) => Ok((s, to)),
                (Backend::Math, Ty::U, Ty::I) => Ok((format!("(Int.ofNat {})", s), Ty::I)),
                (Backend::Math, Ty::I, Ty::U) => Ok((format!("(Int.toNat {})", s), Ty::U)),
                _ => Err("unsupported cast".into()),
            }
        }
        Expr::Binary(b) => {
            let l = tr(&b.left, ctx)?;
            match b.op {
                BinOp::Shl(_) | BinOp::Shr(_) => {
                    let amt = shift_amount(&b.right, ctx)?;
                    let t = if l.1 == Ty::L { Ty::U } else { l.1 };
                    let ls = finish(l, t, be);
                    let shl = matches!(b.op, BinOp::Shl(_));
                    let s = match (be, shl, t) {
                        (Backend::Math, true, _) => format!("({} * 2 ^ {})", ls, amt),
                        (Backend::Math, false, _) => format!("({} / 2 ^ {})", ls, amt),
                        (Backend::BV, true, _) => format!("({} <<< {})", ls, amt),
                        (Backend::BV, false, Ty::I) => format!("(BitVec.sshiftRight {} {})", ls, amt),
                        (Backend::BV, false, _) => format!("({} >>> {})", ls, amt),
                    };
                    return Ok((s, t));
                }
                _ => {}
            }
            let r = tr(&b.right, ctx)?;
            if matches!(b.op, BinOp::And(_) | BinOp::Or(_)) {
                let op = if matches!(b.op, BinOp::And(_)) { "&&" } else { "||" };
                return Ok((format!("({} {} {})", l.0, op, r.0), Ty::B));
            }
            let (ls, rs, t) = unify(l, r, be)?;
            let t = if t == Ty::L { Ty::U } else { t };
            let arith = |op: &str| Ok((format!("({} {} {})", ls, op, rs), t));
            let cmp_math = |op: &str| Ok((format!("(decide ({} {} {}))", ls, op, rs), Ty::B));
            let cmp_bv = |u: &str, s: &str, swap: bool| {
                let f = if t == Ty::I { s } else { u };
                if swap {
                    Ok((format!("(BitVec.{} {} {})", f, rs, ls), Ty::B))
                } else {
                    Ok((format!("(BitVec.{} {} {})", f, ls, rs), Ty::B))
                }
            };
            match (&b.op, be) {
                (BinOp::Add(_), _) => arith("+"),
                (BinOp::Sub(_), _) => arith("-"),
                (BinOp::Mul(_), _) => arith("*"),
                (BinOp::Div(_), Backend::Math) => arith("/"),
                (BinOp::Div(_), Backend::BV) => {
                    if t == Ty::I {
                        Ok((format!("(BitVec.sdiv {} {})", ls, rs), t))
                    } else {
                        arith("/")
                    }
                }
                (BinOp::BitAnd(_), _) => arith("&&&"),
                (BinOp::BitOr(_), _) => arith("|||"),
                (BinOp::Eq(_), _) => Ok((format!("({} == {})", ls, rs), Ty::B)),
                (BinOp::Ne(_), _) => Ok((format!("({} != {})", ls, rs), Ty::B)),
                (BinOp::Lt(_), Backend::Math) => cmp_math("<"),
                (BinOp::Le(_), Backend::Math) => cmp_math("≤"),
                (BinOp::Gt(_), Backend::Math) => cmp_math(">"),
                (BinOp::Ge(_), Backend::Math) => cmp_math("≥"),
                (BinOp::Lt(_), Backend::BV) => cmp_bv("ult", "slt", false),
                (BinOp::Le(_), Backend::BV) => cmp_bv("ule", "sle", false),
                (BinOp::Gt(_), Backend::BV) => cmp_bv("ult", "slt", true),
                (BinOp::Ge(_), Backend::BV) => cmp_bv("ule", "sle", true),
                _ => Err(format!("unsupported binary operator in `{}`", key)),
            }
        }
        Expr::MethodCall(m) => {
            let name = m.method.to_string();
            let recv = tokens_of(&m.receiver);
            if recv == "self.count" && be == Backend::Math {
                match name.as_str() {
                    "fetch_add" | "fetch_sub" => {
                        let a = tr(&m.args[0], ctx)?;
                        let a = finish(a, Ty::I, be);
                        let op = if name == "fetch_add" { "+" } else { "-" };
                        ctx.effects.borrow_mut().push(format!("(old {} {})", op, a));
                        return Ok(("old".into(), Ty::I));
                    }
                    "load" => {
                        ctx.effects.borrow_mut().push("old".into());
                        return Ok(("old".into(), Ty::I));
                    }
                    _ => {}
                }
            }
            match name.as_str() {
                "leading_zeros" => {
                    let x = tr(&m.receiver, ctx)?;
                    let s = finish(x, Ty::U, be);
                    match be {
                        Backend::BV => Ok((format!("(BitVec.clz {})", s), Ty::U)),
                        Backend::Math => Ok((format!("(Flurry.clz64 {})", s), Ty::U)),
                    }
                }
                "next_power_of_two" => {
                    let x = tr(&m.receiver, ctx)?;
                    let s = finish(x, Ty::U, be);
                    match be {
                        Backend::Math => Ok((format!("(Flurry.npow2 {})", s), Ty::U)),
                        Backend::BV => Err("next_power_of_two in BV backend".into()),
                    }
                }
                "abs" => {
                    let x = tr(&m.receiver, ctx)?;
                    let s = finish(x, Ty::I, be);
                    match be {
                        Backend::Math => Ok((format!("(Int.ofNat (Int.natAbs {}))", s), Ty::I)),
                        Backend::BV => Ok((format!("(BitVec.abs {})", s), Ty::I)),
                    }
                }
                "max" | "min" if m.args.len() == 1 => {
                    let a = tr(&m.receiver, ctx)?;
                    let b = tr(&m.args[0], ctx)?;
                    let (a, b, t) = unify(a, b, be)?;
                    if be == Backend::BV {
                        return Err("min/max in BV backend".into());
                    }
                    Ok((format!("({} {} {})", name, a, b), t))
                }
                _ => Err(format!("unsupported method call `{}`", key)),
            }
        }
        Expr::Call(c) => {
            let f = tokens_of(&c.func);
            if (f.ends_with("cmp::min") || f.ends_with("cmp::max") || f == "min" || f == "max")
                && c.args.len() == 2
            {
                let name = if f.ends_with("min") { "min" } else { "max" };
                let a = tr(&c.args[0], ctx)?;
                let b = tr(&c.args[1], ctx)?;
                let (a, b, t) = unify(a, b, be)?;
                if be == Backend::BV {
                    return Err("min/max in BV backend".into());
                }
                return Ok((format!("({} {} {})", name, a, b), t));
            }
            if f.ends_with("resize_stamp") && c.args.len() == 1 {
                let a = tr(&c.args[0], ctx)?;
                let a = finish(a, Ty::U, be);
                return Ok((format!("(resizeStamp {})", a), Ty::I));
            }
            if f.contains("size_of::<isize>") || f.contains("size_of::<usize>") {
                return Ok(("LIT:8".into(), Ty::L));
            }
            Err(format!("unsupported call `{}`", key))
        }
        Expr::Macro(m) => {
            let name = m.mac.path.segments.last().unwrap().ident.to_string();
            if name == "load_factor" {
                let inner: Expr = syn::parse2(m.mac.tokens.clone()).map_err(|e| e.to_string())?;
                let x = tr(&inner, ctx)?;
                let t = if x.1 == Ty::L { Ty::I } else { x.1 };
                let s = finish(x, t, be);
                let f = if t == Ty::I { "loadFactor" } else { "loadFactorN" };
                return Ok((format!("({} {})", f, s), t));
            }
            Err(format!("unsupported macro `{}`", name))
        }
        Expr::If(i) => {
            let c = tr(&i.cond, ctx)?;
            let a = tr_block(&i.then_branch, ctx)?;
            let b = match &i.else_branch {
                Some((_, e)) => tr(e, ctx)?,
                None => return Err("if without else".into()),
            };
            let (a, b, t) = unify(a, b, be)?;
            Ok((format!("(if {} then {} else {})", c.0, a, b), t))
        }
        Expr::Block(b) => tr_block(&b.block, ctx),
        _ => Err(format!("unsupported expression `{}`", key)),
    }
}

pub fn tr_block(b: &syn::Block, ctx: &Ctx) -> Result<(String, Ty), String> {
    let mut ctx = ctx.clone();
    let mut prefix = String::new();
    let mut closes = 0;
    for (idx, st) in b.stmts.iter().enumerate() {
        match st {
            Stmt::Local(l) => {
                let name = match &l.pat {
                    syn::Pat::Ident(pi) => pi.ident.to_string(),
                    syn::Pat::Type(pt) => tokens_of(&pt.pat).replace("mut", ""),
                    _ => return Err("unsupported let pattern".into()),
                };
                let init = l.init.as_ref().ok_or("let without init")?;
                let x = tr(&init.expr, &ctx)?;
                let t = if x.1 == Ty::L { Ty::U } else { x.1 };
                let s = finish(x, t, ctx.backend);
                let lean = format!("{}'", name);
                prefix.push_str(&format!("(let {} := {}; ", lean, s));
                closes += 1;
                ctx.vars.insert(name, (lean, t));
            }
            Stmt::Expr(e, None) if idx + 1 == b.stmts.len() => {
                let x = tr(e, &ctx)?;
                let t = x.1;
                let s = if t == Ty::L { x.0 } else { x.0 };
                if closes == 0 {
                    return Ok((s, t));
                }
                let s = finish((s, t), Ty::U, ctx.backend);
                return Ok((format!("{}{}{}", prefix, s, ")".repeat(closes)), if t == Ty::L { Ty::U } else { t }));
            }
            // comments are not statements; anything else is unsupported
            _ => return Err("unsupported statement in block".into()),
        }
    }
    Err("block without tail expression".into())
}
