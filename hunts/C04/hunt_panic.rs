//! C04 hunt, secondary findings (plain build, no hooks):
//!
//!   cargo test --offline --test hunt_panic -- --test-threads=1 --nocapture
//!
//! Each test FAILS on the unmodified code. They show keys/values that are never dropped, not
//! even when the map is dropped, after (1) a panicking `Eq`, (2) a panicking `Clone` during a
//! resize, (3) a leaked (`mem::forget`) guard.
use flurry::HashMap;
use std::hash::{BuildHasher, Hash, Hasher};
use std::panic::{catch_unwind, AssertUnwindSafe};
use std::sync::atomic::{AtomicBool, AtomicUsize, Ordering};
use std::sync::Arc;

#[derive(Clone, Default)]
struct IdBuild;
struct IdHasher(u64);
impl Hasher for IdHasher {
    fn finish(&self) -> u64 {
        self.0
    }
    fn write(&mut self, _: &[u8]) {
        unreachable!()
    }
    fn write_u64(&mut self, v: u64) {
        self.0 = v;
    }
}
impl BuildHasher for IdBuild {
    type Hasher = IdHasher;
    fn build_hasher(&self) -> IdHasher {
        IdHasher(0)
    }
}

#[derive(Default)]
struct Ledger {
    created: AtomicUsize,
    dropped: AtomicUsize,
}
impl Ledger {
    fn counts(&self) -> (usize, usize) {
        (
            self.created.load(Ordering::SeqCst),
            self.dropped.load(Ordering::SeqCst),
        )
    }
}

struct Val(Arc<Ledger>);
impl Val {
    fn new(l: &Arc<Ledger>) -> Val {
        l.created.fetch_add(1, Ordering::SeqCst);
        Val(l.clone())
    }
}
impl Drop for Val {
    fn drop(&mut self) {
        self.0.dropped.fetch_add(1, Ordering::SeqCst);
    }
}

/// Key whose `Eq` / `Clone` can be made to panic; every instance (including clones made by the
/// map) is counted.
struct Key {
    id: u64,
    l: Arc<Ledger>,
    eq_bomb: Arc<AtomicBool>,
    clone_bomb: Arc<AtomicBool>,
}
impl Key {
    fn new(id: u64, l: &Arc<Ledger>, eq_bomb: &Arc<AtomicBool>, clone_bomb: &Arc<AtomicBool>) -> Key {
        l.created.fetch_add(1, Ordering::SeqCst);
        Key {
            id,
            l: l.clone(),
            eq_bomb: eq_bomb.clone(),
            clone_bomb: clone_bomb.clone(),
        }
    }
}
impl Drop for Key {
    fn drop(&mut self) {
        self.l.dropped.fetch_add(1, Ordering::SeqCst);
    }
}
impl Clone for Key {
    fn clone(&self) -> Key {
        if self.clone_bomb.load(Ordering::SeqCst) {
            panic!("Key::clone panics (on purpose)");
        }
        Key::new(self.id, &self.l, &self.eq_bomb, &self.clone_bomb)
    }
}
impl PartialEq for Key {
    fn eq(&self, o: &Key) -> bool {
        if self.eq_bomb.load(Ordering::SeqCst) {
            panic!("Key::eq panics (on purpose)");
        }
        self.id == o.id
    }
}
impl Eq for Key {}
impl PartialOrd for Key {
    fn partial_cmp(&self, o: &Key) -> Option<std::cmp::Ordering> {
        Some(self.cmp(o))
    }
}
impl Ord for Key {
    fn cmp(&self, o: &Key) -> std::cmp::Ordering {
        self.id.cmp(&o.id)
    }
}
impl Hash for Key {
    fn hash<H: Hasher>(&self, h: &mut H) {
        // everything collides unless told otherwise: hash = id % 1000
        h.write_u64(self.id % 1000)
    }
}

/// (1) `put` boxes the value into a raw `Shared` before it compares keys. If `Eq` panics, the
/// key is dropped by unwinding but the boxed value is never freed.
#[test]
fn value_leaks_when_eq_panics_in_insert() {
    let keys = Arc::new(Ledger::default());
    let vals = Arc::new(Ledger::default());
    let eq_bomb = Arc::new(AtomicBool::new(false));
    let clone_bomb = Arc::new(AtomicBool::new(false));
    let map: HashMap<Key, Val, IdBuild> = HashMap::with_hasher(IdBuild);

    map.pin()
        .insert(Key::new(7, &keys, &eq_bomb, &clone_bomb), Val::new(&vals));
    eq_bomb.store(true, Ordering::SeqCst);
    // same hash (1007 % 1000 == 7) => `head.key == key` runs => panic
    let r = catch_unwind(AssertUnwindSafe(|| {
        map.pin()
            .insert(Key::new(1007, &keys, &eq_bomb, &clone_bomb), Val::new(&vals));
    }));
    assert!(r.is_err());
    eq_bomb.store(false, Ordering::SeqCst);
    assert_eq!(map.len(), 1);
    drop(map);

    println!("keys (created, dropped) = {:?}; values (created, dropped) = {:?}", keys.counts(), vals.counts());
    assert_eq!(keys.counts(), (2, 2), "keys are fine");
    assert_eq!(
        vals.counts(),
        (2, 2),
        "the value passed to the panicking insert is never dropped (leaked)"
    );
}

/// (2) If `K::clone` panics inside `transfer`, `HashMap::next_table` stays non-null forever, and
/// `HashMap::drop` starts with `assert!(self.next_table.load(..).is_null())`: dropping the map
/// panics *before* it frees anything, so every key and value stored in the map is leaked.
#[test]
fn everything_leaks_when_clone_panics_during_resize() {
    let keys = Arc::new(Ledger::default());
    let vals = Arc::new(Ledger::default());
    let eq_bomb = Arc::new(AtomicBool::new(false));
    let clone_bomb = Arc::new(AtomicBool::new(false));
    let map: HashMap<Key, Val, IdBuild> = HashMap::with_hasher(IdBuild); // 16 bins, threshold 12

    // bin 3 gets [3, 19]: on a 16 -> 32 split, 3 stays, 19 moves => key 3 must be cloned.
    for id in [3u64, 19, 0, 1, 2, 4, 5, 6, 7, 8, 9] {
        map.pin()
            .insert(Key::new(id, &keys, &eq_bomb, &clone_bomb), Val::new(&vals));
    }
    assert_eq!(map.len(), 11);
    clone_bomb.store(true, Ordering::SeqCst);
    // 12th entry => resize => transfer => Key::clone => panic
    let r = catch_unwind(AssertUnwindSafe(|| {
        map.pin()
            .insert(Key::new(10, &keys, &eq_bomb, &clone_bomb), Val::new(&vals));
    }));
    assert!(r.is_err(), "the resizing insert panicked");
    clone_bomb.store(false, Ordering::SeqCst);
    assert_eq!(map.len(), 12);

    let r = catch_unwind(AssertUnwindSafe(move || drop(map)));
    println!("drop(map) panicked: {}", r.is_err());
    println!("keys (created, dropped) = {:?}; values (created, dropped) = {:?}", keys.counts(), vals.counts());
    let (kc, kd) = keys.counts();
    let (vc, vd) = vals.counts();
    assert!(
        r.is_ok() && kc == kd && vc == vd,
        "map teardown after a panicking Clone: drop(map) panicked = {}, keys {kd}/{kc} dropped, \
         values {vd}/{vc} dropped",
        r.is_err()
    );
}

/// (3) A guard that is leaked (`mem::forget`, safe code) keeps its thread "active" in the
/// collector forever. Every retirement batch that is handed to the collector afterwards waits
/// for that thread, and `Collector::drop` only frees the *thread-local, not yet handed over*
/// batches. Values removed from the map are then never dropped, not even at map teardown.
#[test]
fn removed_values_leak_at_teardown_after_a_forgotten_guard() {
    let vals = Arc::new(Ledger::default());
    let map: HashMap<u64, Val> = HashMap::new();
    std::mem::forget(map.guard());
    for i in 0..1000u64 {
        map.pin().insert(i, Val::new(&vals));
        map.pin().remove(&i);
    }
    assert_eq!(map.len(), 0);
    drop(map);
    println!("values (created, dropped) = {:?}", vals.counts());
    let (c, d) = vals.counts();
    assert_eq!(c, d, "{} removed values were never dropped although the map is gone", c - d);
}
