//! TREE-BIN variant of tests/hunt_demo.rs (see there / hunt/README.md for the explanation).
//! C04 hunt: a value removed by `clear()` is reclaimed while a guard that was pinned *after* the
//! `clear()` returned, and that nevertheless obtained the value from the map, is still alive.
//!
//! Build/run (the hooks only exist with `--cfg flurry_verif`):
//!
//!   RUSTFLAGS="--cfg flurry_verif" CARGO_TARGET_DIR=target/verif \
//!       cargo test --offline --test hunt_demo_tree -- --nocapture
//!
//! The only thing the hooks are used for is to suspend ONE thread (the resizer "A") immediately
//! before ONE store (`table.store_bin(i, Moved)` in `HashMap::transfer`, src/map.rs:1101), i.e.
//! to pick a particular -- perfectly legal -- interleaving. Nothing in the map is modified by
//! the test other than through the public API.
#![cfg(flurry_verif)]

use flurry::verif::{self, Event, Hooks, Kind};
use flurry::verif_inspect::BinSnap;
use flurry::HashMap;
use std::cell::Cell;
use std::hash::{BuildHasher, Hasher};
use std::sync::atomic::{AtomicBool, AtomicUsize, Ordering};
use std::sync::{Arc, Condvar, Mutex};
use std::time::Duration;

// ---------------------------------------------------------------- identity hasher
#[derive(Clone, Default)]
struct IdBuild;
struct IdHasher(u64);
impl Hasher for IdHasher {
    fn finish(&self) -> u64 {
        self.0
    }
    fn write(&mut self, _: &[u8]) {
        unreachable!()
    }
    fn write_u64(&mut self, v: u64) {
        self.0 = v;
    }
}
impl BuildHasher for IdBuild {
    type Hasher = IdHasher;
    fn build_hasher(&self) -> IdHasher {
        IdHasher(0)
    }
}

// ---------------------------------------------------------------- drop-tracking value
static CREATED: AtomicUsize = AtomicUsize::new(0);
static DROPPED: AtomicUsize = AtomicUsize::new(0);

struct Val {
    id: u64,
    dropped: Arc<AtomicBool>,
}
impl Val {
    fn new(id: u64) -> (Val, Arc<AtomicBool>) {
        CREATED.fetch_add(1, Ordering::SeqCst);
        let f = Arc::new(AtomicBool::new(false));
        (
            Val {
                id,
                dropped: f.clone(),
            },
            f,
        )
    }
}
impl Drop for Val {
    fn drop(&mut self) {
        assert!(
            !self.dropped.swap(true, Ordering::SeqCst),
            "value {} dropped twice",
            self.id
        );
        DROPPED.fetch_add(1, Ordering::SeqCst);
    }
}

// ---------------------------------------------------------------- the hook: park thread A once
/// `table.store_bin(i, table.get_moved(..))` of the tree-bin branch of `HashMap::transfer`.
const WINDOW_LINE: u32 = 1101;

thread_local! { static IS_A: Cell<bool> = const { Cell::new(false) }; }

/// Phases of thread A: 0 = running towards P1, 1 = parked at P1, 2 = running towards P2,
/// 3 = parked at P2, 4 = released for good.
#[derive(Default)]
struct St {
    phase: u8,
    seen_transfer_index_cas: bool,
}
struct Park {
    st: Mutex<St>,
    cv: Condvar,
}
impl Hooks for Park {
    fn event(&self, e: &Event) {
        if !IS_A.with(|a| a.get()) {
            return;
        }
        let mut st = self.st.lock().unwrap();
        match st.phase {
            0 => {
                // P1: A has claimed its stride (CAS on transfer_index) and is about to read
                // size_ctl in the "resize has finished?" block of `transfer`.
                if e.kind == Kind::Cas && e.what == "transfer_index" {
                    st.seen_transfer_index_cas = true;
                } else if st.seen_transfer_index_cas && e.kind == Kind::Load && e.what == "size_ctl"
                {
                    st.phase = 1;
                }
            }
            2 => {
                // P2: A is about to store the forwarding node into an old list bin.
                if e.kind == Kind::Store
                    && e.loc.file().ends_with("map.rs")
                    && e.loc.line() == WINDOW_LINE
                {
                    st.phase = 3;
                }
            }
            _ => {}
        }
        if st.phase == 1 || st.phase == 3 {
            let parked_in = st.phase;
            self.cv.notify_all();
            while st.phase == parked_in {
                st = self.cv.wait(st).unwrap();
            }
        }
    }
}

fn wait_phase(p: &Park, phase: u8) {
    let st = p.st.lock().unwrap();
    let (st, to) = p
        .cv
        .wait_timeout_while(st, Duration::from_secs(20), |s| s.phase != phase)
        .unwrap();
    assert!(
        !to.timed_out() && st.phase == phase,
        "thread A never reached pause point {phase} (1 = size_ctl load after claiming a stride, \
         3 = the store at map.rs:{WINDOW_LINE})"
    );
}
fn set_phase(p: &Park, phase: u8) {
    p.st.lock().unwrap().phase = phase;
    p.cv.notify_all();
}

#[test]
fn cleared_value_is_dropped_under_a_live_guard_that_observed_it() {
    let park: &'static Park = Box::leak(Box::new(Park {
        st: Mutex::new(St::default()),
        cv: Condvar::new(),
    }));
    verif::install(park);

    // 64 bins (trees are allowed), resize threshold 48, four transfer strides of 16 bins.
    let map: Arc<HashMap<u64, Val, IdBuild>> =
        Arc::new(HashMap::with_capacity_and_hasher(32, IdBuild));
    let mut flags = std::collections::HashMap::new();

    // 47 entries: 14 keys in bin 60 (=> a TreeBin; 7 stay in bin 60, 7 go to bin 124 on a
    // split, so both halves stay trees), one key in each of the bins 0..=32.
    let tree_keys: Vec<u64> = (0..14u64).map(|k| 60 + 64 * k).collect();
    for k in tree_keys.iter().copied().chain(0..=32u64) {
        let (v, f) = Val::new(k);
        flags.insert(k, f);
        map.pin().insert(k, v);
    }
    {
        let g = map.guard();
        let s = map.verif_snapshot(&g);
        let t = s.table.as_ref().unwrap();
        assert_eq!(t.len, 64);
        assert_eq!((s.count, s.size_ctl), (47, 48));
        assert!(matches!(&t.bins[60], BinSnap::Tree { nodes, .. } if nodes.len() == 14));
    }

    // ---- A: the 48th insert (key 33, a new key in bin 33) starts the resize 64 -> 128 and claims
    // [48..64). P1: suspended before its first size_ctl load inside `transfer`.
    let (v33, f33) = Val::new(33);
    flags.insert(33, f33);
    let a = {
        let map = map.clone();
        std::thread::spawn(move || {
            IS_A.with(|a| a.set(true));
            map.pin().insert(33, v33);
        })
    };
    wait_phase(park, 1);
    {
        let g = map.guard();
        let s = map.verif_snapshot(&g);
        assert_eq!(s.transfer_index, 48, "A has claimed [48..64)");
        assert!(s.size_ctl < 0 && s.next_table_addr != 0);
    }

    // ---- H: ordinary insert of a new key (66 -> old bin 2); joins the resize, claims the
    // strides [32..48), [16..32), [0..16) one after the other, forwards old bins 48..=0, leaves.
    {
        let map = map.clone();
        let (v, f) = Val::new(66);
        flags.insert(66, f);
        std::thread::spawn(move || {
            map.pin().insert(66, v);
        })
        .join()
        .unwrap();
    }
    {
        let g = map.guard();
        let s = map.verif_snapshot(&g);
        let old = s.table.as_ref().unwrap();
        assert_eq!(old.len, 64);
        for i in 0..=48 {
            assert!(matches!(old.bins[i], BinSnap::Moved), "old bin {i} forwarded by H");
        }
        assert!(matches!(old.bins[60], BinSnap::Tree { .. }));
    }

    // ---- A continues: finisher, sweeps 63, 62, 61 (empty), locks the TreeBin in old bin 60,
    // builds two new TreeBins out of *copies* of the tree nodes (same value pointers), publishes
    // them in new bins 60 and 124, and
    // P2: is suspended right before it stores the forwarding node into old bin 60 (map.rs:1101).
    set_phase(park, 2);
    wait_phase(park, 3);

    {
        let g = map.guard();
        let s = map.verif_snapshot(&g);
        let old = s.table.as_ref().unwrap();
        let BinSnap::Tree { nodes: on, locked, addr: old_addr, .. } = &old.bins[60] else {
            panic!("old bin 60 should still be the tree bin")
        };
        assert!(*locked, "A holds the lock of the old TreeBin");
        assert_eq!(on.len(), 14);
        let new = old.forward.as_ref().expect("next table");
        assert_eq!(new.len, 128);
        let mut shared = 0;
        for (idx, want) in [(60usize, 7usize), (124, 7)] {
            let BinSnap::Tree { nodes, locked, addr, .. } = &new.bins[idx] else {
                panic!("new bin {idx} should be a published TreeBin")
            };
            assert!(!*locked && addr != old_addr, "a new TreeBin with its own (free) lock");
            assert_eq!(nodes.len(), want);
            for n in nodes {
                let o = on.iter().find(|o| o.node.key == n.node.key).unwrap();
                assert_ne!(o.node.addr, n.node.addr, "tree nodes are copies");
                assert_eq!(o.node.value_addr, n.node.value_addr, "values are shared");
                shared += 1;
            }
        }
        println!(
            "[window] old[60] = TreeBin(14 nodes, locked by A); new[60] = TreeBin(7), \
             new[124] = TreeBin(7); {shared} value pointers shared between old and new nodes"
        );
        // this guard is released here, before the clear() below
    }

    // Control experiment (HUNT_CONTROL=1): the reader pins its guard *before* clear() runs. Then
    // the collector protects the values as it should and the test passes.
    let control = std::env::var_os("HUNT_CONTROL").is_some();
    let g_early = if control { Some(map.guard()) } else { None };

    // ---- B: clear(). Old bin 0 is forwarded => clear continues in the NEXT table from index 0
    // and empties, among others, new bins 60 and 124 (retiring the two new TreeBins, whose `Drop` frees all 14 values) -- although
    // both are still reachable through the old TreeBin in old bin 60 of the table that `HashMap::table` points to.
    // Afterwards B does ordinary insert/remove traffic so that its retirement batch fills
    // up and is handed to the collector (equivalently: `guard.flush()`).
    let b_done = Arc::new(AtomicBool::new(false));
    let b = {
        let map = map.clone();
        let b_done = b_done.clone();
        std::thread::spawn(move || {
            {
                let g = map.guard();
                map.clear(&g);
            }
            for j in 1..=200u64 {
                let k = 64 * j + 1024; // old bin 0 / new bin 0
                let (v, _) = Val::new(k);
                map.pin().insert(k, v);
                map.pin().remove(&k);
            }
            b_done.store(true, Ordering::SeqCst);
        })
    };
    // On the unmodified code B finishes within milliseconds although A is still suspended.
    // (A repaired `clear` has to wait for A here; then we go on after 2 s and B ends later.)
    for _ in 0..2000 {
        if b_done.load(Ordering::SeqCst) {
            break;
        }
        std::thread::sleep(Duration::from_millis(1));
    }
    let b_finished_in_window = b_done.load(Ordering::SeqCst);
    println!("[clear] clear() + follow-up traffic completed while A is suspended: {b_finished_in_window}");
    println!(
        "[after clear] clear() has {}; len() = {}",
        if b_finished_in_window { "returned" } else { "NOT returned yet (it waits for A)" },
        map.len()
    );

    // ---- C (this thread): a guard pinned strictly after clear() returned (and after B's
    // retirement batch went to the collector).
    let g_late = if control { None } else { Some(map.guard()) };
    let g = g_early.as_ref().or(g_late.as_ref()).unwrap();
    let got = map.get(&60, g);
    let observed = got.expect("get(20) after clear() still finds the entry through old bin 60");
    let observed_addr = observed as *const Val as usize;
    println!(
        "[reader] get(&60) under a fresh guard returned value id {} @ {:#x} (dropped flag: {})",
        observed.id,
        observed_addr,
        flags[&60].load(Ordering::SeqCst)
    );
    assert_eq!(observed.id, 60);
    assert!(!flags[&60].load(Ordering::SeqCst));
    let also = map.get(&124, g).expect("same for 124");
    assert_eq!(also.id, 124);

    // ---- let A finish the resize and return from insert (its guard is released).
    set_phase(park, 4);
    a.join().unwrap();
    b.join().unwrap();

    // `g` is still alive, and `observed` / `also` are `&'g Val` borrowed from it.
    let d60 = flags[&60].load(Ordering::SeqCst);
    let d124 = flags[&124].load(Ordering::SeqCst);
    println!(
        "[verdict] guard still held; value 60 dropped: {d60}, value 124 dropped: {d124} \
         (created {}, dropped {})",
        CREATED.load(Ordering::SeqCst),
        DROPPED.load(Ordering::SeqCst)
    );
    assert!(
        !d60 && !d124,
        "C04 violated: value(s) removed by clear() were dropped while a guard that obtained \
         them from the map (after clear() had returned) is still alive: 60 dropped={d60}, \
         124 dropped={d124}; `observed` (&Val @ {observed_addr:#x}) now dangles"
    );
    drop((g_early, g_late));
    // (only reached when the values survived) once the guard is gone they are reclaimed
    assert!(flags[&60].load(Ordering::SeqCst) && flags[&124].load(Ordering::SeqCst));
    println!("[control] values 60 and 124 were dropped only after the reader's guard was released");
}
