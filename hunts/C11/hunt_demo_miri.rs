//! C11 demonstration 2 (needs `--cfg flurry_verif`; meaningful under Miri).
//!
//! `TreeBin::contended_lock` (src/node.rs:356-422) publishes the writer's thread handle with a
//! SeqCst swap and then re-checks `lock_state` -- but with an **Acquire** load (node.rs:362).
//! The last reader does `lock_state.fetch_add(-READER, SeqCst)` and then `waiter.load(SeqCst)`
//! (node.rs:493-496).  This is a store-buffering (Dekker) handshake and it is only sound if all
//! four accesses are SeqCst (in the JDK both `lockState` and `waiter` are volatile).  With the
//! Acquire load the Rust/C++ memory model allows:
//!
//!     reader: fetch_add sees READER|WAITER,  loads waiter == null  -> does not unpark
//!     writer: swaps its handle in,           loads lock_state == READER|WAITER (stale) -> park()
//!
//! and the writer sleeps forever while holding the bin mutex: a lost wakeup.
//!
//! The test drives exactly that schedule.  The only thing the hook does is *delay* the writer
//! between its `WAITER` CAS and its `waiter.swap` until the reader has left `find` -- a legal
//! schedule -- and all test-side signalling uses Relaxed atomics so that the harness adds no
//! happens-before edge from the reader's `fetch_add` to the writer's re-check.
//!
//! Run (Miri explores the weak behaviour; ~50% of seeds take the stale value):
//!   RUSTFLAGS="--cfg flurry_verif" MIRIFLAGS="-Zmiri-many-seeds=0..16" \
//!     cargo +nightly miri test --offline --test hunt_demo_miri
//! Natively on x86-64 (TSO + `xchg`) the stale read cannot happen and the test passes:
//!   RUSTFLAGS="--cfg flurry_verif" CARGO_TARGET_DIR=target/verif \
//!     cargo test --offline --test hunt_demo_miri
#![cfg(flurry_verif)]

use flurry::verif::{self, Event, Hooks, Kind};
use flurry::HashMap;
use std::cell::Cell;
use std::hash::{BuildHasher, Hasher};
use std::sync::atomic::{AtomicUsize, Ordering::Relaxed};
use std::sync::Arc;

static R_IN_CMP: AtomicUsize = AtomicUsize::new(0); // reader holds the tree read lock
static W_WAITER_SET: AtomicUsize = AtomicUsize::new(0); // writer has CASed WAITER in, handle not yet stored
static R_DONE: AtomicUsize = AtomicUsize::new(0); // reader's get() has returned
static W_PARKS: AtomicUsize = AtomicUsize::new(0); // writer reached `park()`

thread_local! {
    static ROLE: Cell<u8> = const { Cell::new(0) }; // 1 = reader, 2 = writer
}

fn wait_for(flag: &AtomicUsize) {
    while flag.load(Relaxed) == 0 {
        std::thread::yield_now();
    }
}

#[derive(Clone, Debug, PartialEq, Eq, Hash)]
struct K(u32);
impl PartialOrd for K {
    fn partial_cmp(&self, o: &Self) -> Option<std::cmp::Ordering> {
        Some(self.cmp(o))
    }
}
impl Ord for K {
    fn cmp(&self, o: &Self) -> std::cmp::Ordering {
        // the reader's first comparison happens inside `find_tree_node`, i.e. with the read lock
        // held: stay there until the writer has announced itself (WAITER bit set).
        if ROLE.with(|r| r.get()) == 1 && R_IN_CMP.load(Relaxed) == 0 {
            R_IN_CMP.store(1, Relaxed);
            wait_for(&W_WAITER_SET);
        }
        self.0.cmp(&o.0)
    }
}

#[derive(Clone, Default)]
struct Zero;
struct ZeroH;
impl Hasher for ZeroH {
    fn finish(&self) -> u64 {
        0
    }
    fn write(&mut self, _: &[u8]) {}
}
impl BuildHasher for Zero {
    type Hasher = ZeroH;
    fn build_hasher(&self) -> ZeroH {
        ZeroH
    }
}

struct Sched;
impl Hooks for Sched {
    fn event(&self, e: &Event) {
        if ROLE.with(|r| r.get()) != 2 {
            return;
        }
        match e.kind {
            // `self.waiter.swap(current_thread, ..)` in contended_lock: the WAITER CAS has
            // succeeded, the handle is not published yet.
            Kind::Swap if e.what.ends_with("Thread") && e.a != 0 => {
                W_WAITER_SET.store(1, Relaxed);
                wait_for(&R_DONE);
            }
            Kind::BeforePark => {
                W_PARKS.fetch_add(1, Relaxed);
                eprintln!(
                    "writer: lock_state re-check did not see the reader's release; calling park() \
                     although the last reader is gone and will never unpark us"
                );
            }
            _ => {}
        }
    }
}
static SCHED: Sched = Sched;

#[test]
fn writer_rechecks_lock_state_with_acquire_and_misses_last_reader() {
    verif::install(&SCHED);

    // 128 bins, every key in bin 0, 12 keys => a TreeBin with both subtrees populated
    let map = Arc::new(HashMap::with_capacity_and_hasher(64, Zero));
    {
        let g = map.guard();
        for i in 0..12u32 {
            map.insert(K(i), i, &g);
        }
    }

    let m = map.clone();
    let reader = std::thread::spawn(move || {
        ROLE.with(|r| r.set(1));
        let g = m.guard();
        // key 100 is absent: `eq` fails at the root, both children exist => `cmp` is called
        // while the read lock is held
        let v = m.get(&K(100), &g).copied();
        drop(g);
        R_DONE.store(1, Relaxed);
        v
    });
    let m = map.clone();
    let writer = std::thread::spawn(move || {
        ROLE.with(|r| r.set(2));
        wait_for(&R_IN_CMP);
        // removing an inner node of a 12-node tree needs the tree write lock (`lock_root`)
        let g = m.guard();
        let v = m.remove(&K(5), &g).copied();
        drop(g);
        v
    });

    assert_eq!(reader.join().unwrap(), None);
    // If the writer took the stale value it is parked forever now: natively this join hangs,
    // under Miri it is reported as `error: deadlock: the evaluated program deadlocked`.
    assert_eq!(writer.join().unwrap(), Some(5));
    assert_eq!(W_WAITER_SET.load(Relaxed), 1, "schedule was not reached: writer never contended");
    assert_eq!(
        W_PARKS.load(Relaxed),
        0,
        "writer parked although no reader was left (it was only saved by a spurious wakeup)"
    );
}
