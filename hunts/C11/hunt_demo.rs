//! C11 demonstration 1 (plain build, real hardware, deterministic).
//!
//! A reader that unwinds out of `TreeBin::find` (because the user's `Ord::cmp` / `PartialEq::eq`
//! panics, e.g. the ubiquitous `partial_cmp(..).unwrap()` on a float newtype that meets a NaN)
//! never gives its READER unit of `TreeBin::lock_state` back.  The JDK releases it in a
//! `finally` block; flurry (src/node.rs:478-508) does not.  From then on the state of the map is
//! one in which every later writer that needs the tree write lock of that bin
//! (`lock_root` -> `contended_lock`) sets WAITER and parks forever -- nobody is left to unpark
//! it -- while holding the bin mutex, so every other writer of that bin, and every resize that
//! reaches that bin, blocks forever behind it.
//!
//! Run: cargo test --offline --test hunt_demo -- --test-threads=1 --nocapture
use flurry::HashMap;
use std::hash::{BuildHasher, Hash, Hasher};
use std::panic::{catch_unwind, AssertUnwindSafe};
use std::sync::mpsc;
use std::sync::Arc;
use std::time::Duration;

/// A float key, totally ordered "the usual way": `cmp` is `partial_cmp().unwrap()`.
#[derive(Clone, Copy, Debug)]
struct F {
    bucket: u64,
    x: f64,
}
impl PartialEq for F {
    fn eq(&self, o: &Self) -> bool {
        self.bucket == o.bucket && self.x == o.x
    }
}
impl Eq for F {}
impl PartialOrd for F {
    fn partial_cmp(&self, o: &Self) -> Option<std::cmp::Ordering> {
        Some(self.cmp(o))
    }
}
impl Ord for F {
    fn cmp(&self, o: &Self) -> std::cmp::Ordering {
        self.bucket
            .cmp(&o.bucket)
            .then_with(|| self.x.partial_cmp(&o.x).expect("NaN key"))
    }
}
impl Hash for F {
    fn hash<H: Hasher>(&self, h: &mut H) {
        // all keys of one bucket collide: that is what makes a tree bin
        h.write_u64(self.bucket)
    }
}

#[derive(Clone, Default)]
struct Ident;
struct IdentH(u64);
impl Hasher for IdentH {
    fn finish(&self) -> u64 {
        self.0
    }
    fn write(&mut self, _: &[u8]) {}
    fn write_u64(&mut self, v: u64) {
        self.0 = v
    }
}
impl BuildHasher for Ident {
    type Hasher = IdentH;
    fn build_hasher(&self) -> IdentH {
        IdentH(0)
    }
}

const N: usize = 14;

fn build() -> Arc<HashMap<F, usize, Ident>> {
    // 128 bins (>= MIN_TREEIFY_CAPACITY), N colliding keys in bin 3 => bin 3 is a TreeBin
    let map = HashMap::with_capacity_and_hasher(64, Ident);
    {
        let g = map.guard();
        for i in 0..N {
            map.insert(F { bucket: 3, x: i as f64 }, i, &g);
        }
    }
    Arc::new(map)
}

/// Removes then re-inserts every key of the tree bin (plenty of rebalancing => `lock_root`).
/// Returns `Ok(())` if all of it returned within `limit`, otherwise how far it got.
fn churn(map: &Arc<HashMap<F, usize, Ident>>, limit: Duration) -> Result<(), String> {
    let (tx, rx) = mpsc::channel::<String>();
    let m = map.clone();
    std::thread::spawn(move || {
        for i in 0..N {
            let k = F { bucket: 3, x: i as f64 };
            let _ = tx.send(format!("remove({i}) called"));
            m.pin().remove(&k);
            let _ = tx.send(format!("remove({i}) returned"));
        }
        for i in 0..N {
            let k = F { bucket: 3, x: i as f64 };
            let _ = tx.send(format!("insert({i}) called"));
            m.pin().insert(k, i);
            let _ = tx.send(format!("insert({i}) returned"));
        }
        let _ = tx.send("done".to_string());
    });
    let mut last = String::from("<nothing>");
    loop {
        match rx.recv_timeout(limit) {
            Ok(s) if s == "done" => return Ok(()),
            Ok(s) => last = s,
            Err(_) => return Err(last),
        }
    }
}

/// Control: without the panicking lookup the very same churn terminates.
#[test]
fn a_control_churn_terminates() {
    let map = build();
    assert_eq!(map.pin().get(&F { bucket: 3, x: 5.0 }), Some(&5));
    churn(&map, Duration::from_secs(20)).expect("control churn must terminate");
}

/// The violation: one lookup panics inside the user's `cmp`; afterwards a writer never returns.
#[test]
fn b_writer_blocks_forever_after_reader_unwound() {
    let map = build();

    // a lookup with a NaN: `eq` is false for every node, then `cmp` unwraps a `None`
    let r = catch_unwind(AssertUnwindSafe(|| {
        let g = map.guard();
        map.get(&F { bucket: 3, x: f64::NAN }, &g).copied()
    }));
    assert!(r.is_err(), "the NaN lookup is expected to panic in Ord::cmp");

    // readers are still fine (they fall back to / or keep using the tree)
    assert_eq!(map.pin().get(&F { bucket: 3, x: 5.0 }), Some(&5));

    // ... but writers are not
    match churn(&map, Duration::from_secs(10)) {
        Ok(()) => println!("churn terminated: property held in this run"),
        Err(last) => {
            // second-order effect: a thread that only touches *other* bins gets stuck too as soon
            // as it has to help a resize across the wedged bin
            let (tx, rx) = mpsc::channel::<u64>();
            let m = map.clone();
            std::thread::spawn(move || {
                for b in 1000..2000u64 {
                    m.pin().insert(F { bucket: b, x: 0.0 }, 0);
                    let _ = tx.send(b);
                }
                let _ = tx.send(u64::MAX);
            });
            let mut last_b = 0;
            let other = loop {
                match rx.recv_timeout(Duration::from_secs(10)) {
                    Ok(u64::MAX) => break "inserts into other bins all returned".to_string(),
                    Ok(b) => last_b = b,
                    Err(_) => {
                        break format!(
                        "inserts into OTHER bins also stopped returning (last returned: bucket {last_b})"
                    )
                    }
                }
            };
            panic!(
                "C11 VIOLATED: a writer blocked forever (no progress for 10s) after a reader \
                 unwound out of TreeBin::find; last event from the writer thread: `{last}`; {other}"
            );
        }
    }
}
