//! C08 hunt: small concurrent scenario for Miri (data races / use-after-free around
//! compute_if_present in list bins, tree bins and across a resize).
//!   cargo +nightly miri test --offline --test hunt_miri
//! (MIRIFLAGS="-Zmiri-many-seeds=0..16" explores several thread schedules.)
use flurry::HashMap;
use std::hash::{BuildHasher, Hasher};
use std::sync::Arc;

#[derive(Clone, Copy)]
struct HB(u64);
struct HH(u64, u64);
impl Hasher for HH {
    fn finish(&self) -> u64 {
        self.1 & self.0
    }
    fn write(&mut self, _: &[u8]) {
        unreachable!()
    }
    fn write_u64(&mut self, i: u64) {
        self.1 = i;
    }
}
impl BuildHasher for HB {
    type Hasher = HH;
    fn build_hasher(&self) -> HH {
        HH(self.0, 0)
    }
}

fn scenario(mask: u64, cap: usize, pre: u64, extra: u64, incs: u64) {
    let map = Arc::new(HashMap::<u64, u64, HB>::with_capacity_and_hasher(cap, HB(mask)));
    {
        let g = map.guard();
        for k in 0..pre {
            map.insert(k, 0, &g);
        }
    }
    let mut hs = Vec::new();
    for _ in 0..2 {
        let map = map.clone();
        hs.push(std::thread::spawn(move || {
            for _ in 0..incs {
                let g = map.guard();
                let mut calls = 0;
                let r = map.compute_if_present(
                    &1,
                    |_, v| {
                        calls += 1;
                        Some(*v + 1)
                    },
                    &g,
                );
                assert_eq!(calls, 1);
                assert!(r.is_some());
            }
        }));
    }
    {
        let map = map.clone();
        hs.push(std::thread::spawn(move || {
            for k in pre..pre + extra {
                let g = map.guard();
                map.insert(k, 0, &g);
            }
            for k in (2..pre + extra).rev() {
                let g = map.guard();
                map.compute_if_present(&k, |_, _| None, &g);
            }
        }));
    }
    for h in hs {
        h.join().unwrap();
    }
    let g = map.guard();
    assert_eq!(map.get(&1, &g).copied(), Some(2 * incs));
}

#[test]
fn list_bins_with_resize() {
    scenario(u64::MAX, 0, 4, 24, 12);
}

#[test]
fn tree_bin_treeify_untreeify_resize() {
    // one hash class: bin 0 of a 64-table becomes a tree, is transferred (reused) and shrinks
    scenario(0, 42, 6, 50, 12);
}
