//! C08 hunt: controlled-schedule exploration of compute_if_present against every other per-key
//! operation, resizes (reserve), treeification and untreeification.
//!
//! Needs the hook build:
//!   RUSTFLAGS="--cfg flurry_verif" CARGO_TARGET_DIR=target/verif \
//!       cargo test --offline --release --test hunt_sched -- --nocapture
//!
//! All worker threads are serialized: exactly one runs at a time, and at every atomic access /
//! lock acquisition of the library (the `flurry::verif` pre-access hooks) a scheduler decides
//! which thread runs next (PCT-style random priorities with a few priority change points, or a
//! uniform random walk).  A thread that is about to take a bin lock is only scheduled when that
//! lock is free, so nothing ever blocks inside the library.
//!
//! Oracle: every key holds a counter.
//!   inc   compute_if_present(k, v -> v+1)   applied += 1 if the closure ran
//!   take  compute_if_present(k, v -> None)  taken += v   if the closure ran
//!   rm    remove(k)                         taken += v
//!   put   insert(k, 0) -> old               taken += old
//!   tput  try_insert(k, 0)
//!   reserve(n), plain neighbour inserts/removes (same accounting)
//! At the end  applied == taken + sum(values in map).  In the runs without removal the closure
//! must also run exactly once in every call.
#![cfg(flurry_verif)]

use flurry::verif::{self, Event, Hooks, Kind};
use flurry::HashMap;
use std::cell::Cell;
use std::hash::{BuildHasher, Hasher};
use std::sync::atomic::{AtomicU64, Ordering};
use std::sync::{Arc, Condvar, Mutex};

// ---------------------------------------------------------------- hashers
#[derive(Clone, Copy)]
enum HashKind {
    Identity,
    /// hash = (k & 1) * 64  (two hash classes, one bin in a 64-table, two bins from 128 on)
    TwoClass,
    /// hash = 0 for all keys (a single bin forever; tree transfers reuse the bin)
    Zero,
}
#[derive(Clone, Copy)]
struct HB(HashKind);
struct HH(HashKind, u64);
impl Hasher for HH {
    fn finish(&self) -> u64 {
        match self.0 {
            HashKind::Identity => self.1,
            HashKind::TwoClass => (self.1 & 1) * 64,
            HashKind::Zero => 0,
        }
    }
    fn write(&mut self, _: &[u8]) {
        unreachable!()
    }
    fn write_u64(&mut self, i: u64) {
        self.1 = i;
    }
}
impl BuildHasher for HB {
    type Hasher = HH;
    fn build_hasher(&self) -> HH {
        HH(self.0, 0)
    }
}

struct Rng(u64);
impl Rng {
    fn new(seed: u64) -> Self {
        let mut r = Rng(seed.wrapping_mul(0x9E3779B97F4A7C15) ^ 0xD1B54A32D192ED03);
        for _ in 0..4 {
            r.next();
        }
        r
    }
    fn next(&mut self) -> u64 {
        let mut x = self.0;
        x ^= x << 13;
        x ^= x >> 7;
        x ^= x << 17;
        self.0 = x;
        x
    }
    fn below(&mut self, n: u64) -> u64 {
        self.next() % n
    }
}

// ---------------------------------------------------------------- scheduler
#[derive(Clone, Copy, PartialEq, Debug)]
enum Pending {
    Any,
    Lock(usize),
    Park,
    Spin,
}
#[derive(Clone, Copy, PartialEq, Debug)]
enum TS {
    NotArrived,
    Waiting(Pending),
    Running,
    Done,
}
struct T {
    state: TS,
    prio: i64,
    token: bool,
    key: usize,
    deferred_unpark: Option<usize>,
}
struct St {
    threads: Vec<T>,
    current: usize,
    abort: bool,
    rng: Rng,
    step: u64,
    change_points: Vec<u64>,
    uniform: bool,
    low: i64,
    anomalies: u64,
    max_steps: u64,
}
const NONE: usize = usize::MAX;

struct Sched {
    m: Mutex<Option<St>>,
    cv: Condvar,
}
static SCHED: Sched = Sched {
    m: Mutex::new(None),
    cv: Condvar::new(),
};
thread_local! {
    static WID: Cell<usize> = const { Cell::new(NONE) };
}

fn enabled(t: &T) -> bool {
    match t.state {
        TS::Waiting(Pending::Any) | TS::Waiting(Pending::Spin) => true,
        TS::Waiting(Pending::Lock(a)) => !unsafe { verif::mutex_is_locked(a) },
        TS::Waiting(Pending::Park) => t.token,
        _ => false,
    }
}

impl St {
    /// choose the next thread to run; called with nobody running
    fn pick(&mut self) {
        if self.threads.iter().any(|t| t.state == TS::NotArrived) {
            self.current = NONE;
            return;
        }
        let cands: Vec<usize> = (0..self.threads.len())
            .filter(|&i| enabled(&self.threads[i]))
            .collect();
        if cands.is_empty() {
            if self.threads.iter().all(|t| t.state == TS::Done) {
                self.current = NONE;
                return;
            }
            // every live thread is blocked: let everything run freely and record it
            self.abort = true;
            self.anomalies += 1;
            return;
        }
        let chosen = if self.uniform {
            // prefer non-spinning threads
            let ns: Vec<usize> = cands
                .iter()
                .copied()
                .filter(|&i| self.threads[i].state != TS::Waiting(Pending::Spin))
                .collect();
            let pool = if ns.is_empty() { &cands } else { &ns };
            pool[self.rng.below(pool.len() as u64) as usize]
        } else {
            *cands
                .iter()
                .max_by_key(|&&i| self.threads[i].prio)
                .unwrap()
        };
        let t = &mut self.threads[chosen];
        if t.state == TS::Waiting(Pending::Park) {
            t.token = false;
        }
        t.state = TS::Running;
        self.current = chosen;
    }
    fn deliver(&mut self, id: usize) {
        if let Some(k) = self.threads[id].deferred_unpark.take() {
            for t in self.threads.iter_mut() {
                if t.key == k {
                    t.token = true;
                }
            }
        }
    }
}

fn yield_point(id: usize, p: Pending, unpark: Option<usize>) {
    let mut g = SCHED.m.lock().unwrap();
    {
        let st = match g.as_mut() {
            Some(s) => s,
            None => return,
        };
        if st.abort {
            return;
        }
        st.deliver(id);
        st.threads[id].deferred_unpark = unpark;
        st.threads[id].state = TS::Waiting(p);
        st.step += 1;
        if st.step > st.max_steps {
            st.abort = true;
            st.anomalies += 1;
            SCHED.cv.notify_all();
            return;
        }
        if !st.uniform {
            if p == Pending::Spin || st.change_points.contains(&st.step) {
                st.low -= 1;
                st.threads[id].prio = st.low;
            }
        }
        st.pick();
        SCHED.cv.notify_all();
    }
    loop {
        let st = g.as_mut().unwrap();
        if st.abort || st.current == id {
            return;
        }
        g = SCHED.cv.wait(g).unwrap();
    }
}

fn finish(id: usize) {
    let mut g = SCHED.m.lock().unwrap();
    if let Some(st) = g.as_mut() {
        st.deliver(id);
        st.threads[id].state = TS::Done;
        if !st.abort {
            st.pick();
        }
        SCHED.cv.notify_all();
    }
}

struct H;
impl Hooks for H {
    fn event(&self, e: &Event) {
        let id = WID.with(|w| w.get());
        if id == NONE {
            return;
        }
        match e.kind {
            Kind::Alloc | Kind::Deref | Kind::IntoBox | Kind::Retire | Kind::Unlock => {}
            Kind::BeforeLock => yield_point(id, Pending::Lock(e.addr), None),
            Kind::BeforePark => yield_point(id, Pending::Park, None),
            Kind::Spin => yield_point(id, Pending::Spin, None),
            Kind::Unpark => yield_point(id, Pending::Any, Some(e.a)),
            _ => yield_point(id, Pending::Any, None),
        }
    }
}
static HOOK: H = H;

// ---------------------------------------------------------------- scenarios
#[derive(Clone, Copy, Debug)]
enum Op {
    Inc(u64),
    Take(u64),
    Rm(u64),
    Put(u64),
    TPut(u64),
    Reserve(usize),
    Get(u64),
    /// lossy operations (families 6 and 7): the removed counters are unknown, so those
    /// families only check  applied >= taken + remaining  and the per-call conditions
    Clear,
    RetainOdd,
}

#[derive(Debug)]
struct Scenario {
    hash: u8,
    capacity: usize,
    prefill: Vec<u64>,
    threads: Vec<Vec<Op>>,
    removal: bool,
    lossy: bool,
}

fn gen(seed: u64, family: u64) -> Scenario {
    if family >= 6 {
        // families 0 / 2 plus clear and retain
        let mut sc = gen(seed ^ 0x77, if family == 6 { 0 } else { 2 });
        let mut r = Rng::new(seed ^ 0x1234567);
        sc.lossy = true;
        let nt = sc.threads.len() as u64;
        let t = r.below(nt) as usize;
        let pos = r.below(sc.threads[t].len() as u64 + 1) as usize;
        sc.threads[t].insert(pos, if r.below(3) == 0 { Op::RetainOdd } else { Op::Clear });
        if r.below(2) == 0 {
            let t = r.below(nt) as usize;
            sc.threads[t].push(Op::Clear);
        }
        return sc;
    }
    let mut r = Rng::new(seed ^ (family << 56));
    let nthreads = 2 + r.below(3) as usize;
    match family {
        // 0: list bins, lazily initialised 16-table, identity hash, keys collide mod 16
        // 1: same but hot keys are never removed (exactly-once check)
        0 | 1 => {
            let removal = family == 0;
            let bins = [3u64, 3 + 16, 3 + 32, 3 + 48, 3 + 64, 4, 20];
            let npre = 1 + r.below(5) as usize;
            let prefill: Vec<u64> = bins[..npre].to_vec();
            let mut threads = Vec::new();
            for _ in 0..nthreads {
                let nops = 1 + r.below(4);
                let mut ops = Vec::new();
                for _ in 0..nops {
                    let k = bins[r.below(bins.len() as u64) as usize];
                    let hot = prefill[r.below(prefill.len() as u64) as usize];
                    ops.push(match r.below(if removal { 12 } else { 8 }) {
                        0..=3 => Op::Inc(hot),
                        4 => Op::Reserve(12),
                        5 => Op::Reserve(30),
                        6 => Op::Get(hot),
                        7 => {
                            // insert of a non-hot neighbour
                            let n = bins[npre..].get(r.below(8) as usize).copied();
                            match n {
                                Some(n) => Op::TPut(n),
                                None => Op::Inc(hot),
                            }
                        }
                        8 => Op::Take(k),
                        9 => Op::Rm(k),
                        10 => Op::Put(k),
                        _ => Op::TPut(k),
                    });
                }
                threads.push(ops);
            }
            Scenario {
                hash: 0,
                capacity: 0,
                prefill,
                threads,
                removal,
                lossy: false,
            }
        }
        // 2/3: tree bins: 64-table, two hash classes in one bin (split on resize to 128),
        //      around the treeify / untreeify thresholds
        // 4/5: tree bins, single hash class (bin reused by transfer)
        _ => {
            let removal = family % 2 == 0;
            let npre = 5 + r.below(8);
            let prefill: Vec<u64> = (0..npre).collect();
            let mut threads = Vec::new();
            for _ in 0..nthreads {
                let nops = 1 + r.below(3);
                let mut ops = Vec::new();
                for _ in 0..nops {
                    let k = r.below(npre + 3);
                    let hot = r.below(npre.min(4));
                    ops.push(match r.below(if removal { 12 } else { 7 }) {
                        0..=3 => Op::Inc(if removal { k } else { hot }),
                        4 => Op::Reserve(60),
                        5 => Op::TPut(npre + r.below(4)),
                        6 => Op::Get(hot),
                        7 | 8 => Op::Take(k),
                        9 => Op::Rm(k),
                        10 => Op::Put(k),
                        _ => Op::TPut(k),
                    });
                }
                threads.push(ops);
            }
            Scenario {
                hash: if family < 4 { 1 } else { 2 },
                capacity: 42,
                prefill,
                threads,
                removal,
                lossy: false,
            }
        }
    }
}

fn run_one(seed: u64, family: u64, verbose: bool) -> Result<(), String> {
    let sc = gen(seed, family);
    if verbose {
        eprintln!("{sc:?}");
    }
    let hk = match sc.hash {
        0 => HashKind::Identity,
        1 => HashKind::TwoClass,
        _ => HashKind::Zero,
    };
    let map = if sc.capacity == 0 {
        HashMap::<u64, u64, HB>::with_hasher(HB(hk))
    } else {
        HashMap::<u64, u64, HB>::with_capacity_and_hasher(sc.capacity, HB(hk))
    };
    let map = Arc::new(map);
    {
        let g = map.guard();
        for &k in &sc.prefill {
            map.insert(k, 0, &g);
        }
    }
    let n = sc.threads.len();
    let mut srng = Rng::new(seed ^ 0xABCDEF);
    let uniform = srng.below(4) == 0;
    let est = 150 + 80 * n as u64;
    let ncp = srng.below(4);
    let change_points = (0..ncp).map(|_| 1 + srng.below(est)).collect();
    let mut prios: Vec<i64> = (0..n as i64).map(|i| 1000 + i).collect();
    for i in (1..n).rev() {
        let j = srng.below(i as u64 + 1) as usize;
        prios.swap(i, j);
    }
    *SCHED.m.lock().unwrap() = Some(St {
        threads: (0..n)
            .map(|i| T {
                state: TS::NotArrived,
                prio: prios[i],
                token: false,
                key: 0,
                deferred_unpark: None,
            })
            .collect(),
        current: NONE,
        abort: false,
        rng: Rng::new(seed ^ 0x5555),
        step: 0,
        change_points,
        uniform,
        low: 0,
        anomalies: 0,
        max_steps: 200_000,
    });
    let applied = Arc::new(AtomicU64::new(0));
    let taken = Arc::new(AtomicU64::new(0));
    let errs = Arc::new(Mutex::new(Vec::<String>::new()));
    let mut hs = Vec::new();
    for (id, ops) in sc.threads.iter().cloned().enumerate() {
        let (map, applied, taken, errs) = (map.clone(), applied.clone(), taken.clone(), errs.clone());
        let removal = sc.removal;
        let bad = env("HUNT_BAD", 0) != 0;
        hs.push(std::thread::spawn(move || {
            {
                let mut g = SCHED.m.lock().unwrap();
                g.as_mut().unwrap().threads[id].key = verif::thread_key(&std::thread::current());
            }
            WID.with(|w| w.set(id));
            yield_point(id, Pending::Any, None);
            for op in ops {
                let g = map.guard();
                match op {
                    Op::Inc(k) if bad => {
                        // self-test of the oracle: a deliberately non-atomic increment
                        if let Some(v) = map.get(&k, &g).copied() {
                            if map.compute_if_present(&k, |_, _| Some(v + 1), &g).is_some() {
                                applied.fetch_add(1, Ordering::SeqCst);
                            }
                        }
                    }
                    Op::Inc(k) => {
                        let mut calls = 0;
                        let mut seen = 0;
                        let res = map.compute_if_present(
                            &k,
                            |_, v| {
                                calls += 1;
                                seen = *v;
                                Some(*v + 1)
                            },
                            &g,
                        );
                        if calls == 1 {
                            applied.fetch_add(1, Ordering::SeqCst);
                            if res.copied() != Some(seen + 1) {
                                errs.lock().unwrap().push(format!("inc({k}) returned {res:?}, saw {seen}"));
                            }
                        } else if !removal || calls > 1 {
                            errs.lock()
                                .unwrap()
                                .push(format!("inc({k}): closure ran {calls} times, result {res:?}"));
                        }
                    }
                    Op::Take(k) => {
                        let mut got = None;
                        let res = map.compute_if_present(
                            &k,
                            |_, v| {
                                got = Some(*v);
                                None
                            },
                            &g,
                        );
                        if res.is_some() {
                            errs.lock().unwrap().push(format!("take({k}) returned {res:?}"));
                        }
                        if let Some(v) = got {
                            taken.fetch_add(v, Ordering::SeqCst);
                        }
                    }
                    Op::Rm(k) => {
                        if let Some(v) = map.remove(&k, &g) {
                            taken.fetch_add(*v, Ordering::SeqCst);
                        }
                    }
                    Op::Put(k) => {
                        if let Some(v) = map.insert(k, 0, &g) {
                            taken.fetch_add(*v, Ordering::SeqCst);
                        }
                    }
                    Op::TPut(k) => {
                        let _ = map.try_insert(k, 0, &g);
                    }
                    Op::Reserve(n) => map.reserve(n, &g),
                    Op::Get(k) => {
                        let _ = map.get(&k, &g);
                    }
                    Op::Clear => map.clear(&g),
                    Op::RetainOdd => map.retain(|k, _| k % 2 == 1, &g),
                }
                drop(g);
            }
            WID.with(|w| w.set(NONE));
            finish(id);
        }));
    }
    for h in hs {
        h.join().map_err(|_| "worker panicked".to_string())?;
    }
    let (anomalies, steps) = {
        let mut g = SCHED.m.lock().unwrap();
        let st = g.take().unwrap();
        (st.anomalies, st.step)
    };
    let mut remaining = 0;
    {
        let g = map.guard();
        for (_, v) in map.iter(&g) {
            remaining += *v;
        }
        if !sc.removal {
            for &k in &sc.prefill {
                if map.get(&k, &g).is_none() {
                    errs.lock().unwrap().push(format!("key {k} vanished"));
                }
            }
        }
    }
    let a = applied.load(Ordering::SeqCst);
    let t = taken.load(Ordering::SeqCst);
    let mut e = errs.lock().unwrap().clone();
    if sc.lossy {
        if a < t + remaining {
            e.push(format!("lossy conservation: applied={a} < taken={t} + remaining={remaining}"));
        }
    } else if a != t + remaining {
        e.push(format!("conservation: applied={a} taken={t} remaining={remaining}"));
    }
    if anomalies > 0 {
        STAT_ANOM.fetch_add(1, Ordering::Relaxed);
        if verbose {
            eprintln!("scheduler anomaly (free-run fallback), steps={steps}");
        }
    }
    STAT_STEPS.fetch_add(steps, Ordering::Relaxed);
    if e.is_empty() {
        Ok(())
    } else {
        Err(format!("seed {seed} family {family}: {e:?}\n{sc:?}"))
    }
}

static STAT_ANOM: AtomicU64 = AtomicU64::new(0);
static STAT_STEPS: AtomicU64 = AtomicU64::new(0);

fn env(name: &str, d: u64) -> u64 {
    std::env::var(name).ok().and_then(|s| s.parse().ok()).unwrap_or(d)
}

#[test]
fn explore() {
    verif::install(&HOOK);
    let runs = env("HUNT_RUNS", 3000);
    let start = env("HUNT_SEED", 1);
    let only = std::env::var("HUNT_FAMILY").ok().and_then(|s| s.parse::<u64>().ok());
    let verbose = env("HUNT_VERBOSE", 0) != 0;
    let mut failures = Vec::new();
    for family in 0..8u64 {
        if only.map_or(false, |f| f != family) {
            continue;
        }
        for seed in start..start + runs {
            if let Err(e) = run_one(seed, family, verbose) {
                eprintln!("FAIL {e}");
                failures.push(e);
                if failures.len() > 5 {
                    break;
                }
            }
        }
        eprintln!(
            "family {family}: done, anomalies so far {}, avg steps {}",
            STAT_ANOM.load(Ordering::Relaxed),
            STAT_STEPS.load(Ordering::Relaxed) / ((family + 1) * runs).max(1)
        );
    }
    assert!(failures.is_empty(), "{} failing schedules", failures.len());
}
