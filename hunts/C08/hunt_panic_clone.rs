//! C08 hunt, side observation (NOT counted as a C08 violation, see hunt/README.md):
//! `compute_if_present(.., |_, _| None)` on a tree bin that has to be untreeified clones the
//! remaining keys *after* the node was unlinked from the bin's `first`/`next` list but *before*
//! the bin is replaced.  If `K::clone` panics there, the call unwinds and leaves the removed node
//! half-removed: reachable through the red-black tree (get / compute_if_present / insert find
//! it), unreachable through the linear list (iterators, transfer), `len()` unchanged.
use flurry::HashMap;
use std::hash::{BuildHasher, Hash, Hasher};
use std::panic::{catch_unwind, AssertUnwindSafe};
use std::sync::atomic::{AtomicBool, Ordering};

static ARMED: AtomicBool = AtomicBool::new(false);
/// the tests share `ARMED`, so they must not overlap
static SERIAL: std::sync::Mutex<()> = std::sync::Mutex::new(());
fn serial() -> std::sync::MutexGuard<'static, ()> {
    SERIAL.lock().unwrap_or_else(|e| e.into_inner())
}

#[derive(PartialEq, Eq, PartialOrd, Ord, Debug)]
struct Key(u64);
impl Clone for Key {
    fn clone(&self) -> Self {
        if ARMED.load(Ordering::SeqCst) {
            panic!("Key::clone panics");
        }
        Key(self.0)
    }
}
impl Hash for Key {
    fn hash<H: Hasher>(&self, h: &mut H) {
        h.write_u64(self.0)
    }
}
#[derive(Clone, Copy)]
struct Zero;
struct ZeroH;
impl Hasher for ZeroH {
    fn finish(&self) -> u64 {
        0
    }
    fn write(&mut self, _: &[u8]) {}
}
impl BuildHasher for Zero {
    type Hasher = ZeroH;
    fn build_hasher(&self) -> ZeroH {
        ZeroH
    }
}

#[test]
fn clone_panic_during_untreeify_leaves_half_removed_entry() {
    let _s = serial();
    let map = HashMap::<Key, u64, Zero>::with_capacity_and_hasher(42, Zero);
    let g = map.guard();
    for k in 0..9 {
        map.insert(Key(k), 100 + k, &g);
    }
    // remove keys one at a time; the removal that makes the tree "too small" untreeifies
    let mut hit = None;
    for k in 0..9u64 {
        ARMED.store(true, Ordering::SeqCst);
        let mut calls = 0;
        let r = catch_unwind(AssertUnwindSafe(|| {
            map.compute_if_present(
                &Key(k),
                |_, _| {
                    calls += 1;
                    None
                },
                &g,
            )
            .copied()
        }));
        ARMED.store(false, Ordering::SeqCst);
        if r.is_err() {
            assert_eq!(calls, 1);
            hit = Some(k);
            break;
        }
    }
    let k = hit.expect("some removal untreeified");
    let via_get = map.get(&Key(k), &g).copied();
    let via_iter = map.iter(&g).any(|(kk, _)| kk.0 == k);
    let mut calls2 = 0;
    let again = map
        .compute_if_present(
            &Key(k),
            |_, v| {
                calls2 += 1;
                Some(*v)
            },
            &g,
        )
        .copied();
    eprintln!(
        "after the unwound removal of key {k}: get={via_get:?} iter-sees-it={via_iter} len={} second-call-ran={calls2} -> {again:?}",
        map.len()
    );
    // a consistent map would agree between get and iteration
    assert_eq!(via_get.is_some(), via_iter, "get and iteration disagree about key {k}");
}

/// A panicking remapping function leaves the entry untouched and the bin usable (the bin lock
/// is released by unwinding; nothing was modified before the call).  PASSES.
#[test]
fn closure_panic_leaves_value_and_lock_intact() {
    let _s = serial();
    for tree in [false, true] {
        let map = HashMap::<Key, u64, Zero>::with_capacity_and_hasher(42, Zero);
        let g = map.guard();
        for k in 0..(if tree { 12 } else { 3 }) {
            map.insert(Key(k), 100 + k, &g);
        }
        let r = catch_unwind(AssertUnwindSafe(|| {
            map.compute_if_present(&Key(2), |_, _| -> Option<u64> { panic!("boom") }, &g)
                .copied()
        }));
        assert!(r.is_err());
        assert_eq!(map.get(&Key(2), &g), Some(&102));
        let mut calls = 0;
        let r = map.compute_if_present(
            &Key(2),
            |_, v| {
                calls += 1;
                Some(*v + 1)
            },
            &g,
        );
        assert_eq!((calls, r.copied()), (1, Some(103)));
    }
}

static ORD_ARMED: AtomicBool = AtomicBool::new(false);
#[derive(PartialEq, Eq, Clone, Debug)]
struct OKey(u64);
impl PartialOrd for OKey {
    fn partial_cmp(&self, o: &Self) -> Option<std::cmp::Ordering> {
        Some(self.cmp(o))
    }
}
impl Ord for OKey {
    fn cmp(&self, o: &Self) -> std::cmp::Ordering {
        if ORD_ARMED.load(Ordering::SeqCst) {
            panic!("Ord::cmp panics");
        }
        self.0.cmp(&o.0)
    }
}
impl Hash for OKey {
    fn hash<H: Hasher>(&self, h: &mut H) {
        h.write_u64(self.0)
    }
}

/// Side observation (not C08): a reader whose `Ord::cmp` panics inside `TreeBin::find` never
/// gives its READER count back, so a later structural removal from that bin (here through
/// compute_if_present) waits for the phantom reader forever.
#[test]
fn reader_panic_in_tree_bin_blocks_later_removal() {
    let map = std::sync::Arc::new(HashMap::<OKey, u64, Zero>::with_capacity_and_hasher(42, Zero));
    {
        let g = map.guard();
        for k in 0..32 {
            map.insert(OKey(k), k, &g);
        }
        ORD_ARMED.store(true, Ordering::SeqCst);
        let r = catch_unwind(AssertUnwindSafe(|| map.get(&OKey(1000), &g).copied()));
        ORD_ARMED.store(false, Ordering::SeqCst);
        assert!(r.is_err(), "the lookup was expected to hit Ord::cmp");
    }
    let (tx, rx) = std::sync::mpsc::channel();
    let m2 = map.clone();
    std::thread::spawn(move || {
        let g = m2.guard();
        for k in 0..20 {
            m2.compute_if_present(&OKey(k), |_, _| None, &g);
        }
        let _ = tx.send(());
    });
    assert!(
        rx.recv_timeout(std::time::Duration::from_secs(5)).is_ok(),
        "compute_if_present(remove) hangs behind a reader that panicked"
    );
}
