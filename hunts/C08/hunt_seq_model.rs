//! C08 hunt: single-threaded differential test of compute_if_present against a BTreeMap model,
//! with degenerate hashers so that everything lives in tree bins / long list bins and keeps
//! crossing the treeify / untreeify / resize thresholds.  Checks that the closure runs exactly
//! once iff the model has the key, sees the model's value, and that the result is the model's.
use flurry::HashMap;
use std::collections::BTreeMap;
use std::hash::{BuildHasher, Hasher};

#[derive(Clone, Copy)]
struct HB(u64, u32);
struct HH(u64, u32, u64);
impl Hasher for HH {
    fn finish(&self) -> u64 {
        (self.2 & self.0) << self.1
    }
    fn write(&mut self, _: &[u8]) {
        unreachable!()
    }
    fn write_u64(&mut self, i: u64) {
        self.2 = i;
    }
}
impl BuildHasher for HB {
    type Hasher = HH;
    fn build_hasher(&self) -> HH {
        HH(self.0, self.1, 0)
    }
}

struct Rng(u64);
impl Rng {
    fn next(&mut self) -> u64 {
        let mut x = self.0;
        x ^= x << 13;
        x ^= x >> 7;
        x ^= x << 17;
        self.0 = x;
        x
    }
}

fn run(mask: u64, shift: u32, keyspace: u64, cap: usize, steps: u64, seed: u64) {
    let map = if cap == 0 {
        HashMap::<u64, u64, HB>::with_hasher(HB(mask, shift))
    } else {
        HashMap::<u64, u64, HB>::with_capacity_and_hasher(cap, HB(mask, shift))
    };
    let mut model = BTreeMap::<u64, u64>::new();
    let mut rng = Rng(seed | 1);
    // phases: grow, shrink, churn
    for step in 0..steps {
        let phase = (step * 6 / steps) % 3;
        let r = rng.next();
        let k = (r >> 16) % keyspace;
        let op = match phase {
            0 => [0, 0, 0, 1, 2, 3][(r % 6) as usize],
            1 => [1, 1, 3, 3, 0, 2][(r % 6) as usize],
            _ => (r % 4) as usize,
        };
        let g = map.guard();
        match op {
            0 => {
                assert_eq!(map.insert(k, step, &g).copied(), model.insert(k, step));
            }
            1 => {
                assert_eq!(map.remove(&k, &g).copied(), model.remove(&k));
            }
            2 => {
                let mut calls = 0;
                let mut seen = None;
                let res = map
                    .compute_if_present(
                        &k,
                        |kk, v| {
                            assert_eq!(*kk, k);
                            calls += 1;
                            seen = Some(*v);
                            Some(*v + 1)
                        },
                        &g,
                    )
                    .copied();
                match model.get_mut(&k) {
                    Some(mv) => {
                        assert_eq!(calls, 1, "closure not run for present key {k}");
                        assert_eq!(seen, Some(*mv));
                        *mv += 1;
                        assert_eq!(res, Some(*mv));
                    }
                    None => {
                        assert_eq!(calls, 0);
                        assert_eq!(res, None);
                    }
                }
            }
            _ => {
                let mut calls = 0;
                let mut seen = None;
                let res = map.compute_if_present(
                    &k,
                    |_, v| {
                        calls += 1;
                        seen = Some(*v);
                        None
                    },
                    &g,
                );
                assert!(res.is_none());
                let m = model.remove(&k);
                assert_eq!(calls, m.is_some() as u32);
                assert_eq!(seen, m);
            }
        }
        assert_eq!(map.len(), model.len());
        if step % 64 == 0 {
            let mut got: Vec<(u64, u64)> = map.iter(&g).map(|(a, b)| (*a, *b)).collect();
            got.sort();
            let want: Vec<(u64, u64)> = model.iter().map(|(a, b)| (*a, *b)).collect();
            assert_eq!(got, want);
            for (k, v) in &model {
                assert_eq!(map.get(k, &g), Some(v));
            }
        }
    }
}

#[test]
fn zero_hash_single_tree() {
    for seed in 1..40 {
        run(0, 0, 40, 0, 4000, seed);
        run(0, 0, 20, 42, 4000, seed * 77);
    }
}

#[test]
fn few_hashes_splitting_trees() {
    for seed in 1..40 {
        // hash = (k & 3) << 6 : 4 classes in one bin of a 64-table, split on later resizes
        run(3, 6, 64, 42, 6000, seed);
        // hash = (k & 1) << 4 : splits on the first resize already
        run(1, 4, 48, 0, 6000, seed * 31);
    }
}

#[test]
fn identity_hash_lists() {
    for seed in 1..20 {
        run(u64::MAX, 0, 300, 0, 8000, seed);
    }
}

/// compile verdict for the `FnOnce` anchor: a closure that consumes a captured non-Copy value
/// (and therefore can be called at most once) is accepted.
#[test]
fn fnonce_closure_is_accepted() {
    let map = HashMap::<u64, String>::new();
    let g = map.guard();
    map.insert(1, "a".to_string(), &g);
    let owned = String::from("moved-in");
    let r = map.compute_if_present(&1, move |_, _| Some(owned), &g);
    assert_eq!(r.map(|s| s.as_str()), Some("moved-in"));
    let owned2 = String::from("never used");
    let r = map.compute_if_present(&2, move |_, _| Some(owned2), &g);
    assert!(r.is_none());
}
