//! C08 hunt: randomized conservation stress for compute_if_present.
//!
//! Every "hot" key holds a counter. Threads apply these operations at random:
//!   inc   compute_if_present(k, v -> v+1)              applied += 1 (if the closure ran)
//!   take  compute_if_present(k, v -> None)             taken   += v (if the closure ran)
//!   rm    remove(k)                                    taken   += v
//!   put   insert(k, 0) -> old                          taken   += old
//!   tput  try_insert(k, 0)                             (no effect on the sum)
//! while churn threads insert/remove neighbouring keys to force resizes, treeification and
//! untreeification.  At the end  sum(applied) == sum(taken) + sum(final values)  must hold; any
//! lost update, doubly-applied update or update applied to a stale value breaks it.
use flurry::HashMap;
use std::hash::{BuildHasher, Hasher};
use std::sync::atomic::{AtomicBool, AtomicU64, Ordering};
use std::sync::{Arc, Barrier};

#[derive(Clone, Copy, Default)]
struct MaskBuild(u64);
struct MaskHasher(u64, u64);
impl Hasher for MaskHasher {
    fn finish(&self) -> u64 {
        self.1 & self.0
    }
    fn write(&mut self, _: &[u8]) {
        unreachable!()
    }
    fn write_u64(&mut self, i: u64) {
        self.1 = i;
    }
}
impl BuildHasher for MaskBuild {
    type Hasher = MaskHasher;
    fn build_hasher(&self) -> MaskHasher {
        MaskHasher(self.0, 0)
    }
}

struct Rng(u64);
impl Rng {
    fn next(&mut self) -> u64 {
        let mut x = self.0;
        x ^= x << 13;
        x ^= x >> 7;
        x ^= x << 17;
        self.0 = x;
        x
    }
}

fn env(name: &str, d: u64) -> u64 {
    std::env::var(name).ok().and_then(|s| s.parse().ok()).unwrap_or(d)
}

fn run(mask: u64, rounds: u64, churn_keys: u64, with_removal: bool) {
    let workers = env("HUNT_WORKERS", 12) as usize;
    let churners = env("HUNT_CHURNERS", 6) as usize;
    let hot: Vec<u64> = (0..8u64).collect();
    for round in 0..rounds {
        let map = Arc::new(HashMap::<u64, u64, MaskBuild>::with_hasher(MaskBuild(mask)));
        {
            let g = map.guard();
            for &k in &hot {
                map.insert(k, 0, &g);
            }
        }
        let applied = Arc::new(AtomicU64::new(0));
        let taken = Arc::new(AtomicU64::new(0));
        let stop = Arc::new(AtomicBool::new(false));
        let barrier = Arc::new(Barrier::new(workers + churners));
        let mut hs = Vec::new();
        for w in 0..workers {
            let (map, applied, taken, stop, barrier, hot) = (
                map.clone(),
                applied.clone(),
                taken.clone(),
                stop.clone(),
                barrier.clone(),
                hot.clone(),
            );
            hs.push(std::thread::spawn(move || {
                let mut rng = Rng(0x9E3779B97F4A7C15 ^ ((round + 1) * 1000 + w as u64));
                let (mut a, mut t) = (0u64, 0u64);
                barrier.wait();
                while !stop.load(Ordering::Relaxed) {
                    let r = rng.next();
                    let k = hot[(r % hot.len() as u64) as usize];
                    let op = if with_removal { (r >> 8) % 10 } else { 0 };
                    let g = map.guard();
                    match op {
                        0..=5 => {
                            let mut calls = 0;
                            let mut seen = 0;
                            let res = map.compute_if_present(
                                &k,
                                |_, v| {
                                    calls += 1;
                                    seen = *v;
                                    Some(*v + 1)
                                },
                                &g,
                            );
                            assert!(calls <= 1);
                            if calls == 1 {
                                a += 1;
                                assert_eq!(res.copied(), Some(seen + 1));
                            } else {
                                assert!(res.is_none());
                                assert!(with_removal, "hot key vanished");
                            }
                        }
                        6 => {
                            let mut got = None;
                            let res = map.compute_if_present(
                                &k,
                                |_, v| {
                                    got = Some(*v);
                                    None
                                },
                                &g,
                            );
                            assert!(res.is_none());
                            if let Some(v) = got {
                                t += v;
                            }
                        }
                        7 => {
                            if let Some(v) = map.remove(&k, &g) {
                                t += *v;
                            }
                        }
                        8 => {
                            if let Some(v) = map.insert(k, 0, &g) {
                                t += *v;
                            }
                        }
                        _ => {
                            let _ = map.try_insert(k, 0, &g);
                        }
                    }
                }
                applied.fetch_add(a, Ordering::SeqCst);
                taken.fetch_add(t, Ordering::SeqCst);
            }));
        }
        let per = churn_keys / churners as u64;
        for c in 0..churners {
            let (map, barrier) = (map.clone(), barrier.clone());
            hs.push(std::thread::spawn(move || {
                let mut rng = Rng(0xD1B54A32D192ED03 ^ ((round + 1) * 77 + c as u64));
                barrier.wait();
                let base = 1000 + c as u64 * per;
                for i in 0..per {
                    let g = map.guard();
                    map.insert(base + i, 1, &g);
                    // remove some earlier neighbour again, to shrink tree bins
                    if i > 16 && rng.next() % 3 == 0 {
                        let victim = base + rng.next() % i;
                        map.remove(&victim, &g);
                    }
                    if rng.next() % 64 == 0 {
                        let victim = base + rng.next() % (i + 1);
                        map.compute_if_present(&victim, |_, _| None, &g);
                    }
                }
                // drain everything again (untreeify)
                for i in 0..per {
                    let g = map.guard();
                    map.remove(&(base + i), &g);
                }
            }));
        }
        let nw = hs.len();
        for (i, h) in hs.into_iter().enumerate().rev() {
            // join the churners first, then stop the workers
            if i >= workers {
                h.join().unwrap();
                if i == workers {
                    stop.store(true, Ordering::SeqCst);
                }
            } else {
                h.join().unwrap();
            }
        }
        let _ = nw;
        let g = map.guard();
        let mut remaining = 0;
        for &k in &hot {
            if let Some(v) = map.get(&k, &g) {
                remaining += *v;
            } else {
                assert!(with_removal, "hot key {k} missing at the end");
            }
        }
        let a = applied.load(Ordering::SeqCst);
        let t = taken.load(Ordering::SeqCst);
        assert_eq!(
            a,
            t + remaining,
            "round {round}: applied={a} taken={t} remaining={remaining} (mask {mask:#x})"
        );
    }
}

#[test]
fn inc_only_list_bins() {
    run(u64::MAX, env("HUNT_ROUNDS", 40), 40_000, false);
}

#[test]
fn inc_only_tree_bins() {
    // 256 distinct hashes: deep collision chains -> tree bins, tree transfers incl. bin reuse
    run(0xff, env("HUNT_ROUNDS", 40), 6_000, false);
}

#[test]
fn mixed_list_bins() {
    run(u64::MAX, env("HUNT_ROUNDS", 40), 40_000, true);
}

#[test]
fn mixed_tree_bins() {
    run(0xff, env("HUNT_ROUNDS", 40), 6_000, true);
}

#[test]
fn mixed_tree_bins_few_hashes() {
    // 8 distinct hashes: all hot keys are tree roots/nodes of huge bins
    run(0x7, env("HUNT_ROUNDS", 20), 3_000, true);
}
