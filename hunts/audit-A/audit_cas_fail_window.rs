//! Directed check of pair P3 of audit/README.md (`put`: failed `cas_bin` -> `bin = changed.current`
//! -> `bin.deref()`): the head node `N` obtained from the *failure value of the CAS* is the only
//! bin pointer in the per-key paths that is dereferenced without having been loaded through
//! `Guard::protect`.
//!
//! Schedule (deterministic, driven by the `flurry::verif` pre-access hooks):
//!   A: insert(k0) -- loads the empty bin 0, parks right before its `cas_bin(null -> node)`
//!   M: 600 allocations (several seize epochs later), insert(k1) into bin 0 (node N, born late)
//!   A: the CAS fails and returns N; A parks right before `Shared::deref(N)`
//!   M: remove(k1) (retires N and its value), then retires > 1000 more objects and leaves
//!   check: N's key has NOT been dropped while A is parked in front of the deref
//!   A: resumes, derefs N, locks N.lock, re-checks the bin, retries, inserts.
//!
//! This PASSES on the code as it is: with seize 0.3.3 every thread that is active when a batch
//! is retired is counted, whatever its recorded epoch (`LocalBatch::new` starts `min_epoch` at 0,
//! so the birth-epoch filter `reservation.epoch < batch.min_epoch` never fires). The test pins
//! that dependency down: it would fail with a collector that does filter by birth epoch.
//!
//!   RUSTFLAGS="--cfg flurry_verif" CARGO_TARGET_DIR=target/verif \
//!     cargo test --offline --test audit_cas_fail_window -- --nocapture
#![cfg(flurry_verif)]

use flurry::verif::{self, Event, Hooks, Kind};
use flurry::verif_inspect::BinSnap;
use flurry::HashMap;
use std::cell::Cell;
use std::hash::{BuildHasher, Hash, Hasher};
use std::sync::atomic::{AtomicIsize, AtomicUsize, Ordering};
use std::sync::{Arc, Condvar, Mutex};

#[derive(Clone, Default)]
struct IdBuild;
struct IdHasher(u64);
impl Hasher for IdHasher {
    fn finish(&self) -> u64 {
        self.0
    }
    fn write(&mut self, b: &[u8]) {
        for &x in b {
            self.0 = (self.0 << 8) | x as u64;
        }
    }
    fn write_u64(&mut self, v: u64) {
        self.0 = v;
    }
}
impl BuildHasher for IdBuild {
    type Hasher = IdHasher;
    fn build_hasher(&self) -> IdHasher {
        IdHasher(0)
    }
}

/// number of dropped instances of the key with id `K1`
static K1_DROPS: AtomicIsize = AtomicIsize::new(0);
const K0: u64 = 0;
const K1: u64 = 2048; // same bin as K0 in a table of 2048 bins

/// `counted`: this instance lives in the map (only those are counted when dropped)
#[derive(Debug)]
struct DK {
    id: u64,
    counted: bool,
}
#[allow(non_snake_case)]
fn DK(id: u64) -> DK {
    DK { id, counted: false }
}
fn stored(id: u64) -> DK {
    DK { id, counted: true }
}
impl PartialEq for DK {
    fn eq(&self, o: &Self) -> bool {
        self.id == o.id
    }
}
impl Eq for DK {}
impl PartialOrd for DK {
    fn partial_cmp(&self, o: &Self) -> Option<std::cmp::Ordering> {
        Some(self.cmp(o))
    }
}
impl Ord for DK {
    fn cmp(&self, o: &Self) -> std::cmp::Ordering {
        self.id.cmp(&o.id)
    }
}
impl Clone for DK {
    fn clone(&self) -> Self {
        DK { id: self.id, counted: self.counted }
    }
}
impl Hash for DK {
    fn hash<H: Hasher>(&self, h: &mut H) {
        h.write_u64(self.id)
    }
}
impl Drop for DK {
    fn drop(&mut self) {
        if self.id == K1 && self.counted {
            K1_DROPS.fetch_add(1, Ordering::SeqCst);
        }
    }
}

// ----- a gate: thread A parks at chosen events until the main thread opens the gate
struct Gate {
    /// 0: run to the bin CAS; 1: parked at the CAS; 2: run to Deref(N); 3: parked at Deref(N); 4: free
    stage: Mutex<u32>,
    cv: Condvar,
    n_addr: AtomicUsize,
    events_between: AtomicUsize,
}
static GATE: Gate = Gate {
    stage: Mutex::new(0),
    cv: Condvar::new(),
    n_addr: AtomicUsize::new(0),
    events_between: AtomicUsize::new(0),
};
thread_local! {
    static IS_A: Cell<bool> = const { Cell::new(false) };
}

impl Gate {
    fn park_until(&self, reached: u32, go: u32) {
        let mut st = self.stage.lock().unwrap();
        *st = reached;
        self.cv.notify_all();
        while *st < go {
            st = self.cv.wait(st).unwrap();
        }
    }
    fn wait_for(&self, s: u32) {
        let mut st = self.stage.lock().unwrap();
        while *st < s {
            st = self.cv.wait(st).unwrap();
        }
    }
    fn set(&self, s: u32) {
        *self.stage.lock().unwrap() = s;
        self.cv.notify_all();
    }
}

struct H;
impl Hooks for H {
    fn event(&self, e: &Event) {
        if !IS_A.with(|c| c.get()) {
            return;
        }
        let stage = *GATE.stage.lock().unwrap();
        match stage {
            0 => {
                // the lock-free insertion into the empty bin: CAS(expected = null) on a bin word
                if e.kind == Kind::Cas && e.what.contains("BinEntry") && e.a == 0 {
                    GATE.park_until(1, 2);
                }
            }
            2 => {
                // loads of shared words between the failed CAS and the deref of N would be
                // `protect`ed loads; there are none
                if matches!(e.kind, Kind::Load) {
                    GATE.events_between.fetch_add(1, Ordering::SeqCst);
                }
                if e.kind == Kind::Deref && e.addr == GATE.n_addr.load(Ordering::SeqCst) {
                    GATE.park_until(3, 4);
                }
            }
            _ => {}
        }
    }
}
static HOOK: H = H;

#[test]
fn cas_failure_pointer_is_still_protected_by_the_guard() {
    verif::install(&HOOK);
    let map: Arc<HashMap<DK, u64, IdBuild>> =
        Arc::new(HashMap::with_capacity_and_hasher(1024, IdBuild)); // 2048 bins, resize at 1536

    let a = {
        let map = map.clone();
        std::thread::spawn(move || {
            IS_A.with(|c| c.set(true));
            let g = map.guard();
            let r = map.insert(DK(K0), 1, &g).copied();
            IS_A.with(|c| c.set(false));
            r
        })
    };
    GATE.wait_for(1);

    // several epochs later (seize advances the epoch every 110 allocations of a thread) ...
    for k in 1..=300u64 {
        map.pin().insert(DK(k), k);
    }
    // ... N is born and wins the bin
    map.pin().insert(stored(K1), 5);
    {
        let g = map.guard();
        let snap = map.verif_snapshot(&g);
        let t = snap.table.as_ref().unwrap();
        assert_eq!(t.len, 2048);
        match &t.bins[0] {
            BinSnap::List(v) => {
                assert_eq!(v.len(), 1);
                GATE.n_addr.store(v[0].addr, Ordering::SeqCst);
            }
            _ => panic!("bin 0 should be a list with N"),
        }
    }
    // A: the CAS fails, A takes `changed.current` (= N) and parks in front of `deref(N)`
    GATE.set(2);
    GATE.wait_for(3);
    assert_eq!(
        GATE.events_between.load(Ordering::SeqCst),
        0,
        "no protected load between the failed CAS and the deref of its failure value"
    );

    // N is unlinked and retired; then enough garbage to push many batches through `try_retire`
    assert_eq!(map.pin().remove(&DK(K1)), Some(&5));
    for round in 0..4u64 {
        for k in 301..=700u64 {
            map.pin().insert(DK(10_000 * (round + 1) + k), k);
        }
        for k in 301..=700u64 {
            map.pin().remove(&DK(10_000 * (round + 1) + k));
        }
    }
    {
        let g = map.guard();
        g.flush();
    }
    let dropped_while_parked = K1_DROPS.load(Ordering::SeqCst);
    eprintln!("drops of N's key while A is parked in front of deref(N): {}", dropped_while_parked);

    GATE.set(4);
    assert_eq!(a.join().unwrap(), None);
    assert_eq!(
        dropped_while_parked, 0,
        "N was reclaimed while thread A (guard held since before N was retired) was about to dereference it"
    );
    assert_eq!(map.pin().get(&DK(K0)), Some(&1));
    assert_eq!(map.pin().get(&DK(K1)), None);
    assert_eq!(map.len(), 301);
    // after A has left, the garbage is reclaimed
    for k in 0..400u64 {
        map.pin().insert(DK(90_000 + k), k);
        map.pin().remove(&DK(90_000 + k));
    }
    eprintln!("drops of N's key at the end: {}", K1_DROPS.load(Ordering::SeqCst));
}
