//! Audit harness (AREA: per-key paths of src/map.rs + raw/mod.rs).
//!
//! A cooperative scheduler built on the `flurry::verif` pre-access hooks: exactly one worker
//! thread runs at a time, every hooked shared access is a scheduling point, the next thread is
//! chosen by a seeded PCT strategy (random priorities, `d` priority-change points) or uniformly.
//! Every schedule runs a small random program of per-key operations on keys that collide in one
//! bin (empty bin / list bin / tree bin, with or without a resize or a resize cascade running at
//! the same time), records the invocation/response order with a logical clock and checks
//!   * per-key linearizability (Wing-Gong search against an `Option<u64>` register),
//!   * `len()`, `get` of every key and the structural snapshot at quiescence,
//!   * no hang (no runnable thread while some thread is unfinished).
//!
//! Build/run:
//!   RUSTFLAGS="--cfg flurry_verif" CARGO_TARGET_DIR=target/verif \
//!     cargo test --offline --test audit_sched -- --nocapture
//! Environment: AUDIT_RUNS (default 3000), AUDIT_SEED (default 1), AUDIT_CFG (restrict to one
//! configuration), AUDIT_ONE=<seed> (replay a single schedule verbosely).
#![cfg(flurry_verif)]

use flurry::verif::{self, Event, Hooks, Kind};
use flurry::verif_inspect::BinSnap;
use flurry::HashMap;
use std::cell::Cell;
use std::collections::HashSet as StdHashSet;
use std::hash::{BuildHasher, Hasher};
use std::sync::atomic::{AtomicU64, Ordering};
use std::sync::{Arc, Condvar, Mutex, OnceLock};

// ---------------------------------------------------------------------------------------------
// identity hasher: hash(key) == key, so the test chooses bins and split bits directly
// ---------------------------------------------------------------------------------------------
#[derive(Clone, Default)]
struct IdBuild;
struct IdHasher(u64);
impl Hasher for IdHasher {
    fn finish(&self) -> u64 {
        self.0
    }
    fn write(&mut self, b: &[u8]) {
        for &x in b {
            self.0 = (self.0 << 8) | x as u64;
        }
    }
    fn write_u64(&mut self, v: u64) {
        self.0 = v;
    }
}
impl BuildHasher for IdBuild {
    type Hasher = IdHasher;
    fn build_hasher(&self) -> IdHasher {
        IdHasher(0)
    }
}

// ---------------------------------------------------------------------------------------------
// rng
// ---------------------------------------------------------------------------------------------
#[derive(Clone)]
struct Rng(u64);
impl Rng {
    fn next(&mut self) -> u64 {
        self.0 = self.0.wrapping_add(0x9E3779B97F4A7C15);
        let mut z = self.0;
        z = (z ^ (z >> 30)).wrapping_mul(0xBF58476D1CE4E5B9);
        z = (z ^ (z >> 27)).wrapping_mul(0x94D049BB133111EB);
        z ^ (z >> 31)
    }
    fn below(&mut self, n: u64) -> u64 {
        if n == 0 {
            0
        } else {
            self.next() % n
        }
    }
}

// ---------------------------------------------------------------------------------------------
// scheduler
// ---------------------------------------------------------------------------------------------
#[derive(Clone, Copy, PartialEq, Debug)]
enum Wait {
    None,
    Lock(usize),
    Park,
}

#[derive(Debug)]
struct Th {
    prio: i64,
    wait: Wait,
    done: bool,
    started: bool,
    token: bool,
    key: usize,
    last: String,
}

#[derive(Clone, Copy, PartialEq, Debug)]
enum Mode {
    Pct,
    Uniform,
}

struct St {
    active: bool,
    threads: Vec<Th>,
    current: usize,
    rng: Rng,
    steps: u64,
    change_points: Vec<u64>,
    low: i64,
    mode: Mode,
    verbose: bool,
    max_steps: u64,
}

struct Sched {
    st: Mutex<St>,
    cv: Condvar,
}

static SCHED: OnceLock<Sched> = OnceLock::new();
thread_local! {
    static TID: Cell<usize> = const { Cell::new(usize::MAX) };
}

fn sched() -> &'static Sched {
    SCHED.get_or_init(|| Sched {
        st: Mutex::new(St {
            active: false,
            threads: Vec::new(),
            current: usize::MAX,
            rng: Rng(0),
            steps: 0,
            change_points: Vec::new(),
            low: 0,
            mode: Mode::Pct,
            verbose: false,
            max_steps: 2_000_000,
        }),
        cv: Condvar::new(),
    })
}

impl St {
    fn runnable(&self, i: usize) -> bool {
        let t = &self.threads[i];
        if t.done || !t.started {
            return false;
        }
        match t.wait {
            Wait::None => true,
            Wait::Lock(a) => !unsafe { verif::mutex_is_locked(a) },
            Wait::Park => t.token,
        }
    }
    fn pick(&mut self) -> Option<usize> {
        let cand: Vec<usize> = (0..self.threads.len()).filter(|&i| self.runnable(i)).collect();
        if cand.is_empty() {
            return None;
        }
        Some(match self.mode {
            Mode::Pct => *cand.iter().max_by_key(|&&i| self.threads[i].prio).unwrap(),
            Mode::Uniform => cand[self.rng.below(cand.len() as u64) as usize],
        })
    }
    fn all_done(&self) -> bool {
        self.threads.iter().all(|t| t.done)
    }
    fn dump(&self) -> String {
        let mut s = String::new();
        for (i, t) in self.threads.iter().enumerate() {
            s.push_str(&format!(
                "  T{}: done={} wait={:?} token={} prio={} last={}\n",
                i, t.done, t.wait, t.token, t.prio, t.last
            ));
        }
        s
    }
}

impl Sched {
    /// hand the processor to the best runnable thread and wait until it is `me`'s turn again
    fn reschedule(&self, mut st: std::sync::MutexGuard<'_, St>, me: usize) {
        match st.pick() {
            Some(n) => st.current = n,
            None => {
                eprintln!("HANG: no runnable thread at step {}\n{}", st.steps, st.dump());
                std::process::exit(3);
            }
        }
        self.cv.notify_all();
        while st.current != me {
            st = self.cv.wait(st).unwrap();
        }
        if st.threads[me].wait == Wait::Park {
            st.threads[me].token = false;
        }
        st.threads[me].wait = Wait::None;
    }

    fn on_event(&self, me: usize, e: &Event) {
        match e.kind {
            Kind::Unpark => {
                let mut st = self.st.lock().unwrap();
                for t in st.threads.iter_mut() {
                    if t.key == e.a {
                        t.token = true;
                    }
                }
                return;
            }
            Kind::Unlock | Kind::Alloc | Kind::Deref | Kind::IntoBox | Kind::Retire => return,
            _ => {}
        }
        let mut st = self.st.lock().unwrap();
        if !st.active {
            return;
        }
        st.steps += 1;
        if st.steps > st.max_steps {
            eprintln!("LIVELOCK? more than {} steps\n{}", st.max_steps, st.dump());
            std::process::exit(4);
        }
        let steps = st.steps;
        let low = st.low;
        let verbose = st.verbose;
        let is_change = st.change_points.contains(&steps);
        {
            let th = &mut st.threads[me];
            th.wait = match e.kind {
                Kind::BeforeLock => Wait::Lock(e.addr),
                Kind::BeforePark => Wait::Park,
                _ => Wait::None,
            };
            th.last = format!(
                "{:?} {} @{:#x} a={:#x} b={:#x} {}:{}",
                e.kind,
                short(e.what),
                e.addr,
                e.a,
                e.b,
                e.loc.file().rsplit('/').next().unwrap_or(""),
                e.loc.line()
            );
            if verbose {
                eprintln!("[{:5}] T{} {}", steps, me, th.last);
            }
            if e.kind == Kind::Spin || is_change {
                th.prio = low;
            }
        }
        if e.kind == Kind::Spin || is_change {
            st.low -= 1;
        }
        self.reschedule(st, me);
    }

    fn thread_start(&self, me: usize) {
        TID.with(|t| t.set(me));
        let mut st = self.st.lock().unwrap();
        st.threads[me].key = verif::thread_key(&std::thread::current());
        st.threads[me].started = true;
        self.cv.notify_all();
        while st.current != me {
            st = self.cv.wait(st).unwrap();
        }
    }

    fn thread_done(&self, me: usize) {
        let mut st = self.st.lock().unwrap();
        st.threads[me].done = true;
        TID.with(|t| t.set(usize::MAX));
        if st.all_done() {
            st.current = usize::MAX;
        } else {
            match st.pick() {
                Some(n) => st.current = n,
                None => {
                    eprintln!("HANG: no runnable thread after T{} finished\n{}", me, st.dump());
                    std::process::exit(3);
                }
            }
        }
        self.cv.notify_all();
    }
}

fn short(s: &'static str) -> &'static str {
    if s.contains("BinEntry") {
        "BinEntry"
    } else if s.contains("Table") {
        "Table"
    } else if s.contains("Thread") {
        "Thread"
    } else if s == "u64" {
        "V"
    } else {
        s
    }
}

struct H;
impl Hooks for H {
    fn event(&self, e: &Event) {
        let me = TID.with(|t| t.get());
        if me == usize::MAX {
            return;
        }
        sched().on_event(me, e);
    }
}
static HOOK: H = H;

// ---------------------------------------------------------------------------------------------
// operations, history, model
// ---------------------------------------------------------------------------------------------
#[derive(Clone, Copy, Debug, PartialEq)]
enum Op {
    Get,
    Contains,
    GetKv,
    Insert(u64),
    TryInsert(u64),
    Remove,
    RemoveEntry,
    CipAdd,
    CipRemove,
}

#[derive(Clone, Copy, Debug, PartialEq)]
enum Ret {
    Opt(Option<u64>),
    Bool(bool),
    Try(Result<u64, u64>),
}

#[derive(Clone, Debug)]
struct Rec {
    th: usize,
    key: u64,
    op: Op,
    inv: u64,
    res: u64,
    ret: Ret,
}

const ADD: u64 = 1_000_000;

/// sequential specification for one key: returns the new state if `ret` is what the model gives
fn apply(state: Option<u64>, op: Op, ret: Ret) -> Option<Option<u64>> {
    match op {
        Op::Get | Op::GetKv => (ret == Ret::Opt(state)).then_some(state),
        Op::Contains => (ret == Ret::Bool(state.is_some())).then_some(state),
        Op::Insert(v) => (ret == Ret::Opt(state)).then_some(Some(v)),
        Op::TryInsert(v) => match state {
            None => (ret == Ret::Try(Ok(v))).then_some(Some(v)),
            Some(c) => (ret == Ret::Try(Err(c))).then_some(state),
        },
        Op::Remove | Op::RemoveEntry => (ret == Ret::Opt(state)).then_some(None),
        Op::CipAdd => match state {
            None => (ret == Ret::Opt(None)).then_some(None),
            Some(c) => (ret == Ret::Opt(Some(c + ADD))).then_some(Some(c + ADD)),
        },
        Op::CipRemove => (ret == Ret::Opt(None)).then_some(None),
    }
}

/// Wing-Gong linearizability search for the operations of one key
fn linearizable(ops: &[Rec], init: Option<u64>) -> bool {
    let n = ops.len();
    assert!(n <= 30);
    let mut seen: StdHashSet<(u32, Option<u64>)> = StdHashSet::new();
    fn go(
        ops: &[Rec],
        done: u32,
        state: Option<u64>,
        seen: &mut StdHashSet<(u32, Option<u64>)>,
    ) -> bool {
        let n = ops.len();
        if done == (1u32 << n) - 1 {
            return true;
        }
        if !seen.insert((done, state)) {
            return false;
        }
        // the earliest response among the pending operations bounds which ones may go first
        let mut min_res = u64::MAX;
        for i in 0..n {
            if done & (1 << i) == 0 {
                min_res = min_res.min(ops[i].res);
            }
        }
        for i in 0..n {
            if done & (1 << i) != 0 || ops[i].inv > min_res {
                continue;
            }
            if let Some(ns) = apply(state, ops[i].op, ops[i].ret) {
                if go(ops, done | (1 << i), ns, seen) {
                    return true;
                }
            }
        }
        false
    }
    go(ops, 0, init, &mut seen)
}

// ---------------------------------------------------------------------------------------------
// one schedule
// ---------------------------------------------------------------------------------------------
#[derive(Clone, Copy, Debug)]
struct Cfg {
    name: &'static str,
    /// `with_capacity` argument (8 -> 16 bins, 32 -> 64 bins)
    cap: usize,
    /// family keys are multiples of `stride` (all in bin 0 of the initial table)
    stride: u64,
    nfam: u64,
    /// range of the number of family keys present at the start
    pre_lo: u64,
    pre_hi: u64,
    /// fill the other bins until `count` is this far below the resize threshold (None: no filler)
    slack: Option<(u64, u64)>,
    threads: usize,
    ops_lo: u64,
    ops_hi: u64,
    /// number of family keys the programs concentrate on (chosen at random per schedule)
    hot: u64,
}

const CFGS: &[Cfg] = &[
    // 64 bins, bin 0 between empty and list, no resize
    Cfg { name: "list64", cap: 32, stride: 64, nfam: 6, pre_lo: 0, pre_hi: 4, slack: None, threads: 3, ops_lo: 2, ops_hi: 4, hot: 2 },
    // 64 bins, around the treeify threshold (7..9 keys), no resize
    Cfg { name: "treeify64", cap: 32, stride: 64, nfam: 10, pre_lo: 6, pre_hi: 9, slack: None, threads: 3, ops_lo: 2, ops_hi: 4, hot: 2 },
    // 64 bins, tree bin shrinking (untreeify), no resize
    Cfg { name: "untreeify64", cap: 32, stride: 64, nfam: 10, pre_lo: 7, pre_hi: 10, slack: None, threads: 3, ops_lo: 2, ops_hi: 4, hot: 2 },
    // 64 bins, list bin, resize 64 -> 128 triggered by one of the first inserts
    Cfg { name: "list64_resize", cap: 32, stride: 64, nfam: 6, pre_lo: 0, pre_hi: 5, slack: Some((0, 2)), threads: 3, ops_lo: 2, ops_hi: 4, hot: 2 },
    // 64 bins, tree bin, resize 64 -> 128
    Cfg { name: "tree64_resize", cap: 32, stride: 64, nfam: 12, pre_lo: 7, pre_hi: 12, slack: Some((0, 2)), threads: 3, ops_lo: 2, ops_hi: 4, hot: 2 },
    // 16 bins, 7 keys in bin 0: the 8th starts the try_presize cascade 16 -> 32 -> 64 -> 128
    Cfg { name: "cascade16", cap: 8, stride: 64, nfam: 10, pre_lo: 6, pre_hi: 7, slack: None, threads: 3, ops_lo: 2, ops_hi: 4, hot: 2 },
    // tree bin whose keys all stay in the low bin on 64 -> 128: the TreeBin object is reused
    Cfg { name: "tree64_reuse", cap: 32, stride: 128, nfam: 12, pre_lo: 8, pre_hi: 12, slack: Some((0, 1)), threads: 3, ops_lo: 2, ops_hi: 4, hot: 2 },
    // big tree bin: both halves stay trees after the split (two new TreeBins)
    Cfg { name: "tree64_big", cap: 32, stride: 64, nfam: 20, pre_lo: 15, pre_hi: 20, slack: Some((0, 1)), threads: 3, ops_lo: 2, ops_hi: 3, hot: 2 },
    // 4 threads on a list bin with a resize
    Cfg { name: "list64_resize4", cap: 32, stride: 64, nfam: 4, pre_lo: 0, pre_hi: 3, slack: Some((0, 1)), threads: 4, ops_lo: 2, ops_hi: 3, hot: 2 },
];

struct Outcome {
    steps: u64,
    err: Option<String>,
    /// the table grew during the schedule
    resized: bool,
    /// bin 0 of the final table (or of the initial one) is / was a tree bin
    tree: bool,
}

fn gen_op(r: &mut Rng, th: usize, i: usize, insert_heavy: bool) -> Op {
    let v = 1000 * (th as u64 + 1) + i as u64;
    let x = r.below(if insert_heavy { 14 } else { 12 });
    match x {
        0 | 1 => Op::Get,
        2 => Op::Contains,
        3 => Op::GetKv,
        4 | 5 => Op::Insert(v),
        6 => Op::TryInsert(v),
        7 | 8 => Op::Remove,
        9 => Op::RemoveEntry,
        10 => Op::CipAdd,
        11 => Op::CipRemove,
        _ => Op::Insert(v),
    }
}

fn run_one(cfg: &Cfg, seed: u64, verbose: bool, est_steps: u64) -> Outcome {
    let mut r = Rng(seed.wrapping_mul(0x2545F4914F6CDD1D) ^ 0xA5A5);
    let map: Arc<HashMap<u64, u64, IdBuild>> =
        Arc::new(HashMap::with_capacity_and_hasher(cfg.cap, IdBuild));
    let fam: Vec<u64> = (0..cfg.nfam).map(|i| i * cfg.stride).collect();
    let nbins: u64 = if cfg.cap == 8 { 16 } else { 64 };

    // ----- prefill (unscheduled, on this thread)
    let mut init: std::collections::HashMap<u64, u64> = Default::default();
    {
        let g = map.guard();
        let npre = cfg.pre_lo + r.below(cfg.pre_hi - cfg.pre_lo + 1);
        // a random subset of the family, in random order
        let mut order = fam.clone();
        for i in (1..order.len()).rev() {
            let j = r.below(i as u64 + 1) as usize;
            order.swap(i, j);
        }
        for &k in order.iter().take(npre as usize) {
            map.insert(k, 10 + k, &g);
            init.insert(k, 10 + k);
        }
        if let Some((lo, hi)) = cfg.slack {
            let threshold = nbins - nbins / 4; // 0.75 n
            let slack = lo + r.below(hi - lo + 1);
            let mut k = 1u64;
            while (map.len() as u64) + slack + 1 < threshold {
                // never a multiple of the stride, never in bin 0
                if k % nbins != 0 {
                    map.insert(k, 10 + k, &g);
                    init.insert(k, 10 + k);
                }
                k += 1;
            }
        }
    }
    let filler: Vec<u64> = init.keys().copied().filter(|k| !fam.contains(k)).collect();

    // ----- programs
    let insert_heavy = cfg.slack.is_some() || cfg.name == "cascade16";
    let mut hot: Vec<u64> = Vec::new();
    while (hot.len() as u64) < cfg.hot.min(cfg.nfam) {
        let k = fam[r.below(fam.len() as u64) as usize];
        if !hot.contains(&k) {
            hot.push(k);
        }
    }
    let mut progs: Vec<Vec<(u64, Op)>> = Vec::new();
    for t in 0..cfg.threads {
        let n = cfg.ops_lo + r.below(cfg.ops_hi - cfg.ops_lo + 1);
        let mut p = Vec::new();
        for i in 0..n as usize {
            // mostly the family; sometimes a filler key (another bin, same table)
            let k = if !filler.is_empty() && r.below(10) == 0 {
                filler[r.below(filler.len() as u64) as usize]
            } else if r.below(8) != 0 {
                hot[r.below(hot.len() as u64) as usize]
            } else {
                fam[r.below(fam.len() as u64) as usize]
            };
            p.push((k, gen_op(&mut r, t, i, insert_heavy)));
        }
        progs.push(p);
    }
    if cfg.slack.is_some() {
        // make sure the resize happens: `slack + 1` inserts of brand-new keys (other bins),
        // at random positions of random programs
        for j in 0..3u64 {
            let t = r.below(cfg.threads as u64) as usize;
            let pos = r.below(progs[t].len() as u64 + 1) as usize;
            let k = 1_000_000 * nbins + 1 + j; // bin 1 + j of every table size used here
            progs[t].insert(pos, (k, Op::Insert(777 + j)));
        }
    }
    if cfg.name == "cascade16" {
        // make sure the bin reaches 8 nodes: inserts of absent family keys
        let absent: Vec<u64> = fam.iter().copied().filter(|k| !init.contains_key(k)).collect();
        for j in 0..2usize {
            let t = r.below(cfg.threads as u64) as usize;
            let pos = r.below(progs[t].len() as u64 + 1) as usize;
            progs[t].insert(pos, (absent[j % absent.len()], Op::Insert(888 + j as u64)));
        }
    }
    let hold_guard: Vec<bool> = (0..cfg.threads).map(|_| r.below(3) == 0).collect();

    // ----- scheduler set-up
    let s = sched();
    {
        let mut st = s.st.lock().unwrap();
        st.threads = (0..cfg.threads)
            .map(|_| Th { prio: 0, wait: Wait::None, done: false, started: false, token: false, key: 0, last: String::new() })
            .collect();
        // distinct random priorities
        let mut pr: Vec<i64> = (1..=cfg.threads as i64).collect();
        for i in (1..pr.len()).rev() {
            let j = r.below(i as u64 + 1) as usize;
            pr.swap(i, j);
        }
        for (t, p) in st.threads.iter_mut().zip(pr) {
            t.prio = p;
        }
        st.mode = if r.below(5) == 0 { Mode::Uniform } else { Mode::Pct };
        let d = r.below(4);
        st.change_points = (0..d).map(|_| 1 + r.below(est_steps.max(10))).collect();
        st.low = 0;
        st.steps = 0;
        st.rng = Rng(r.next());
        st.current = usize::MAX;
        st.verbose = verbose;
        st.active = true;
    }
    if verbose {
        let st = s.st.lock().unwrap();
        eprintln!("cfg={} seed={} mode={:?} change_points={:?}", cfg.name, seed, st.mode, st.change_points);
        eprintln!("init family: {:?}", fam.iter().filter(|k| init.contains_key(k)).collect::<Vec<_>>());
        for (t, p) in progs.iter().enumerate() {
            eprintln!("T{} (hold_guard={}): {:?}", t, hold_guard[t], p);
        }
    }

    let clock = Arc::new(AtomicU64::new(1));
    let hist: Arc<Mutex<Vec<Rec>>> = Arc::new(Mutex::new(Vec::new()));
    let mut handles = Vec::new();
    for t in 0..cfg.threads {
        let map = map.clone();
        let prog = progs[t].clone();
        let clock = clock.clone();
        let hist = hist.clone();
        let hold = hold_guard[t];
        handles.push(std::thread::spawn(move || {
            let s = sched();
            s.thread_start(t);
            let outer = if hold { Some(map.guard()) } else { None };
            for (k, op) in prog {
                let own;
                let g = match &outer {
                    Some(g) => g,
                    None => {
                        own = map.guard();
                        &own
                    }
                };
                let inv = clock.fetch_add(1, Ordering::SeqCst);
                let ret = match op {
                    Op::Get => Ret::Opt(map.get(&k, g).copied()),
                    Op::Contains => Ret::Bool(map.contains_key(&k, g)),
                    Op::GetKv => Ret::Opt(map.get_key_value(&k, g).map(|(kk, v)| {
                        assert_eq!(*kk, k);
                        *v
                    })),
                    Op::Insert(v) => Ret::Opt(map.insert(k, v, g).copied()),
                    Op::TryInsert(v) => Ret::Try(match map.try_insert(k, v, g) {
                        Ok(v) => Ok(*v),
                        Err(e) => {
                            assert_eq!(e.not_inserted, v);
                            Err(*e.current)
                        }
                    }),
                    Op::Remove => Ret::Opt(map.remove(&k, g).copied()),
                    Op::RemoveEntry => Ret::Opt(map.remove_entry(&k, g).map(|(kk, v)| {
                        assert_eq!(*kk, k);
                        *v
                    })),
                    Op::CipAdd => Ret::Opt(map.compute_if_present(&k, |_, v| Some(*v + ADD), g).copied()),
                    Op::CipRemove => Ret::Opt(map.compute_if_present(&k, |_, _| None, g).copied()),
                };
                let res = clock.fetch_add(1, Ordering::SeqCst);
                hist.lock().unwrap().push(Rec { th: t, key: k, op, inv, res, ret });
            }
            drop(outer);
            s.thread_done(t);
        }));
    }
    // start: wait until every thread is registered, then pick the first one
    {
        let mut st = s.st.lock().unwrap();
        while !st.threads.iter().all(|t| t.started) {
            st = s.cv.wait(st).unwrap();
        }
        st.current = st.pick().unwrap();
        s.cv.notify_all();
        while !st.all_done() {
            st = s.cv.wait(st).unwrap();
        }
        st.active = false;
    }
    let mut panicked = false;
    for h in handles {
        if h.join().is_err() {
            panicked = true;
        }
    }
    let steps = s.st.lock().unwrap().steps;
    if panicked {
        return Outcome { steps, err: Some("a worker panicked".into()), resized: false, tree: false };
    }

    // ----- checks
    let mut hist = hist.lock().unwrap().clone();
    let g = map.guard();
    // final reads, after everything
    let mut keys: Vec<u64> = fam.clone();
    keys.extend(filler.iter().copied());
    for p in &progs {
        for (k, _) in p {
            if !keys.contains(k) {
                keys.push(*k);
            }
        }
    }
    let mut present = 0usize;
    for &k in &keys {
        let inv = clock.fetch_add(1, Ordering::SeqCst);
        let v = map.get(&k, &g).copied();
        let res = clock.fetch_add(1, Ordering::SeqCst);
        if v.is_some() {
            present += 1;
        }
        hist.push(Rec { th: 99, key: k, op: Op::Get, inv, res, ret: Ret::Opt(v) });
    }
    let mut err = None;
    let mut resized = false;
    let mut tree = false;
    for &k in &keys {
        let mut ops: Vec<Rec> = hist.iter().filter(|r| r.key == k).cloned().collect();
        ops.sort_by_key(|r| r.inv);
        if !linearizable(&ops, init.get(&k).copied()) {
            err = Some(format!("key {} not linearizable (init {:?}):\n{}", k, init.get(&k), fmt_ops(&ops)));
            break;
        }
    }
    if err.is_none() && map.len() != present {
        err = Some(format!("len() = {} but {} keys are present at quiescence", map.len(), present));
    }
    if err.is_none() {
        // structure: every key once, in its bin, table a power of two, no forwarding left
        let snap = map.verif_snapshot(&g);
        let t = snap.table.as_ref().unwrap();
        resized = t.len as u64 > nbins;
        tree = t.bins.iter().any(|b| matches!(b, BinSnap::Tree { .. }));
        if !t.len.is_power_of_two() || (t.len as u64) < nbins {
            err = Some(format!("table length {}", t.len));
        }
        let mut seen = StdHashSet::new();
        let mut total = 0;
        for (i, b) in t.bins.iter().enumerate() {
            let ks: Vec<u64> = match b {
                BinSnap::Empty => vec![],
                BinSnap::Moved => {
                    err = Some(format!("bin {} still Moved at quiescence", i));
                    vec![]
                }
                BinSnap::List(v) => v.iter().map(|n| *n.key).collect(),
                BinSnap::Tree { nodes, lock_state, .. } => {
                    if *lock_state != 0 {
                        err = Some(format!("tree bin {} has lock_state {} at quiescence", i, lock_state));
                    }
                    nodes.iter().map(|n| *n.node.key).collect()
                }
            };
            for k in ks {
                total += 1;
                if (k as usize) & (t.len - 1) != i {
                    err = Some(format!("key {} in bin {} of {}", k, i, t.len));
                }
                if !seen.insert(k) {
                    err = Some(format!("key {} twice in the table", k));
                }
            }
        }
        if err.is_none() && total != present {
            err = Some(format!("{} nodes in the table, {} keys found by get", total, present));
        }
        if err.is_none() && snap.next_table_addr != 0 {
            err = Some("next_table not null at quiescence".into());
        }
        if err.is_none() && snap.size_ctl < 0 {
            err = Some(format!("size_ctl {} at quiescence", snap.size_ctl));
        }
    }
    if let Some(e) = &mut err {
        e.push_str(&format!("\nprograms: {:?}\n", progs));
    }
    Outcome { steps, err, resized, tree }
}

fn fmt_ops(ops: &[Rec]) -> String {
    let mut s = String::new();
    for o in ops {
        s.push_str(&format!("   T{:<2} [{:>4},{:>4}] {:?} -> {:?}\n", o.th, o.inv, o.res, o.op, o.ret));
    }
    s
}

#[test]
fn audit_sched() {
    verif::install(&HOOK);
    let runs: u64 = std::env::var("AUDIT_RUNS").ok().and_then(|s| s.parse().ok()).unwrap_or(3000);
    let seed0: u64 = std::env::var("AUDIT_SEED").ok().and_then(|s| s.parse().ok()).unwrap_or(1);
    let only = std::env::var("AUDIT_CFG").ok();
    if let Ok(one) = std::env::var("AUDIT_ONE") {
        let seed: u64 = one.parse().unwrap();
        let cfg = CFGS.iter().find(|c| Some(c.name.to_string()) == only).expect("AUDIT_CFG");
        let est: u64 = std::env::var("AUDIT_EST").ok().and_then(|s| s.parse().ok()).unwrap_or(300);
        let o = run_one(cfg, seed, true, est);
        eprintln!("steps={} err={:?}", o.steps, o.err);
        assert!(o.err.is_none());
        return;
    }
    let mut failures = 0;
    for cfg in CFGS {
        if let Some(o) = &only {
            if o != cfg.name {
                continue;
            }
        }
        let mut est = 300u64;
        let mut total_steps = 0u64;
        let (mut n_resized, mut n_tree) = (0u64, 0u64);
        let t0 = std::time::Instant::now();
        for i in 0..runs {
            let seed = seed0.wrapping_mul(1_000_003).wrapping_add(i);
            let est_used = est;
            let o = run_one(cfg, seed, false, est_used);
            total_steps += o.steps;
            n_resized += o.resized as u64;
            n_tree += o.tree as u64;
            // keep the change points inside the typical length of a schedule
            est = (est * 7 + o.steps) / 8;
            if let Some(e) = o.err {
                failures += 1;
                eprintln!("FAIL cfg={} seed={} est={} steps={}: {}", cfg.name, seed, est_used, o.steps, e);
                if failures > 5 {
                    panic!("too many failures");
                }
            }
        }
        eprintln!(
            "cfg {:<16} {} schedules, {} steps, {} with a resize, {} ending with a tree bin, {:?}",
            cfg.name,
            runs,
            total_steps,
            n_resized,
            n_tree,
            t0.elapsed()
        );
    }
    assert_eq!(failures, 0);
}
