//! C10 hunt: brute-force search for a resize-protocol failure that needs no panicking callback.
//! (Found nothing; kept as evidence of what was tried.)
//!
//! HUNT_SECS=60 cargo test --offline --release --test hunt_stress -- --nocapture
//! HUNT_SECS=60 RUSTFLAGS="--cfg flurry_verif" CARGO_TARGET_DIR=target/verif cargo test --offline --test hunt_stress -- --nocapture

use flurry::HashMap;
use std::sync::{Arc, Barrier};
use std::time::{Duration, Instant};

/// Perturbation: before accesses to the resize control words (and table pointers), sometimes
/// yield or sleep, to widen the windows between the steps of the resize protocol.
#[cfg(flurry_verif)]
mod perturb {
    use flurry::verif::{Event, Hooks, Kind};
    use std::cell::Cell;
    pub struct P;
    thread_local!(static RNG: Cell<u64> = Cell::new(0));
    fn next() -> u64 {
        RNG.with(|r| {
            let mut x = r.get();
            if x == 0 {
                let t = std::thread::current().id();
                x = flurry::verif::thread_key(&std::thread::current()) as u64 | 1;
                let _ = t;
            }
            x ^= x << 13;
            x ^= x >> 7;
            x ^= x << 17;
            r.set(x);
            x
        })
    }
    impl Hooks for P {
        fn event(&self, e: &Event) {
            let ctl = matches!(e.what, "size_ctl" | "transfer_index") || e.what.contains("Table<");
            if !ctl || !matches!(e.kind, Kind::Load | Kind::Store | Kind::Cas | Kind::Swap | Kind::Yield) {
                return;
            }
            let r = next();
            if r % 64 == 0 {
                std::thread::sleep(std::time::Duration::from_micros(r >> 58));
            } else if r % 4 == 0 {
                std::thread::yield_now();
            }
        }
    }
    pub fn install() {
        static P_: P = P;
        flurry::verif::install(&P_);
    }
}
#[cfg(not(flurry_verif))]
mod perturb {
    pub fn install() {}
}

fn secs() -> u64 {
    std::env::var("HUNT_SECS")
        .ok()
        .and_then(|s| s.parse().ok())
        .unwrap_or(5)
}

#[cfg(flurry_verif)]
fn check_quiescent<S>(map: &HashMap<u64, u64, S>, round: usize) {
    let g = map.guard();
    let s = map.verif_snapshot(&g);
    let t = s.table.as_ref().expect("table");
    assert!(t.len.is_power_of_two());
    assert_eq!(s.next_table_addr, 0, "round {round}: next_table not null");
    assert_eq!(
        s.size_ctl,
        (t.len - (t.len >> 2)) as isize,
        "round {round}: size_ctl is not 3/4 of {}",
        t.len
    );
    assert!(t.forward.is_none(), "round {round}: forwarding node in the current table");
    let mut n = 0;
    for (i, b) in t.bins.iter().enumerate() {
        match b {
            flurry::verif_inspect::BinSnap::Empty => {}
            flurry::verif_inspect::BinSnap::Moved => panic!("round {round}: Moved in bin {i}"),
            flurry::verif_inspect::BinSnap::List(v) => {
                for e in v {
                    assert_eq!(e.hash as usize & (t.len - 1), i);
                    n += 1;
                }
            }
            flurry::verif_inspect::BinSnap::Tree { nodes, .. } => {
                for e in nodes {
                    assert_eq!(e.node.hash as usize & (t.len - 1), i);
                    n += 1;
                }
            }
        }
    }
    assert_eq!(n as isize, s.count, "round {round}: count");
    // growth only as far as needed (+ the documented overshoot of try_presize)
}
#[cfg(not(flurry_verif))]
fn check_quiescent<S>(_map: &HashMap<u64, u64, S>, _round: usize) {}

fn run(threads: usize, per_thread: u64, initial: usize, with_reserve: bool, with_remove: bool) {
    perturb::install();
    let deadline = Instant::now() + Duration::from_secs(secs());
    let mut round = 0usize;
    while Instant::now() < deadline {
        round += 1;
        let map: Arc<HashMap<u64, u64>> = Arc::new(if initial == 0 {
            HashMap::new()
        } else {
            HashMap::with_capacity(initial)
        });
        let barrier = Arc::new(Barrier::new(threads));
        let hs: Vec<_> = (0..threads as u64)
            .map(|t| {
                let map = map.clone();
                let barrier = barrier.clone();
                std::thread::spawn(move || {
                    barrier.wait();
                    for i in 0..per_thread {
                        let k = t * per_thread + i;
                        {
                            let g = map.guard();
                            assert!(map.insert(k, k, &g).is_none());
                        }
                        if with_reserve && i % 7 == t % 7 {
                            let g = map.guard();
                            map.reserve((i as usize % 5) * 3, &g);
                        }
                        if with_remove && i % 3 == 0 {
                            let g = map.guard();
                            assert_eq!(map.remove(&k, &g), Some(&k));
                            assert!(map.insert(k, k, &g).is_none());
                        }
                    }
                })
            })
            .collect();
        for h in hs {
            h.join().unwrap();
        }
        let total = threads as u64 * per_thread;
        assert_eq!(map.len() as u64, total, "round {round}");
        {
            let g = map.guard();
            for k in 0..total {
                assert_eq!(map.get(&k, &g), Some(&k), "round {round}: key {k} lost");
            }
            assert_eq!(map.iter(&g).count() as u64, total);
        }
        check_quiescent(&map, round);
        // later growth still works
        {
            let g = map.guard();
            for k in total..total * 4 {
                map.insert(k, k, &g);
            }
            assert_eq!(map.len() as u64, total * 4);
        }
        check_quiescent(&map, round);
        let map = Arc::try_unwrap(map).ok().unwrap();
        drop(map); // must not panic (also runs the debug check in Table::drop for retired tables)
    }
    eprintln!("threads={threads} per_thread={per_thread} initial={initial}: {round} rounds ok");
}

#[test]
fn tiny_tables_many_threads() {
    run(4 * num_threads(), 8, 1, false, false);
}
#[test]
fn default_tables_many_threads() {
    run(4 * num_threads(), 40, 0, false, false);
}
#[test]
fn reserve_and_remove_mixed() {
    run(2 * num_threads(), 64, 1, true, true);
}
#[test]
fn larger_tables_few_threads() {
    run(num_threads(), 3000, 0, true, false);
}

fn num_threads() -> usize {
    std::thread::available_parallelism().map(|n| n.get()).unwrap_or(4)
}
