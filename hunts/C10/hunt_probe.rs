#![cfg(flurry_verif)]
//! C10 hunt probes (observations, not violations): what the control words look like after
//! single-threaded growth, and who actually migrates the bins.
use flurry::HashMap;

#[test]
fn control_words_after_each_growth() {
    let map: HashMap<u64, u64> = HashMap::with_capacity(1);
    let g = map.guard();
    let mut last_len = 0;
    for k in 0..5000u64 {
        map.insert(k, k, &g);
        let s = map.verif_snapshot(&g);
        let len = s.table.as_ref().unwrap().len;
        if len != last_len {
            eprintln!(
                "after {} inserts: len={} size_ctl={} transfer_index={} next_table={:#x}",
                k + 1,
                len,
                s.size_ctl,
                s.transfer_index,
                s.next_table_addr
            );
            if last_len != 0 {
                assert_eq!(len, 2 * last_len);
            }
            assert_eq!(s.size_ctl as usize, len - (len >> 2));
            assert_eq!(s.next_table_addr, 0);
            last_len = len;
        }
    }
}

#[test]
fn reserve_zero_on_a_fresh_map_makes_a_one_bin_table() {
    let map: HashMap<u64, u64> = HashMap::new();
    let g = map.guard();
    map.reserve(0, &g);
    let s = map.verif_snapshot(&g);
    eprintln!("len={} size_ctl={}", s.table.as_ref().unwrap().len, s.size_ctl);
    drop(s);
    map.insert(1, 1, &g);
    let s = map.verif_snapshot(&g);
    eprintln!("after 1 insert: len={} size_ctl={}", s.table.as_ref().unwrap().len, s.size_ctl);
}
