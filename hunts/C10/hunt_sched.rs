#![cfg(flurry_verif)]
//! C10 hunt: the oddest schedule found by reading, forced with the hooks.  Outcome is BENIGN
//! (kept as evidence).
//!
//! 1. Because `transfer` sets `i = next_index` (the JDK sets `nextIndex - 1`), the first claim of
//!    every resize lands in the "finished" branch; a lone initiator therefore elects itself the
//!    finishing thread right away and migrates the whole table in the "recheck" sweep, leaving
//!    `transfer_index == n - stride` behind (not 0).
//! 2. The next initiator stores `next_table` *before* it stores `transfer_index = n`.  In between,
//!    a helper sees next_table != null and the stale `transfer_index > 0`, joins, and claims a
//!    stride of the *new* resize through the stale counter.
//! Everything is still migrated exactly once (bin lock + forwarding check) and exactly one
//! thread publishes.
use flurry::verif::{Event, Hooks, Kind};
use flurry::HashMap;
use std::sync::atomic::{AtomicBool, AtomicUsize, Ordering};
use std::sync::Arc;

static GATE_ARMED: AtomicBool = AtomicBool::new(false);
static AT_GATE: AtomicBool = AtomicBool::new(false);
static RELEASE: AtomicBool = AtomicBool::new(false);
static TI_STORES: AtomicUsize = AtomicUsize::new(0);

struct H;
impl Hooks for H {
    fn event(&self, e: &Event) {
        if e.kind == Kind::Store
            && e.what == "transfer_index"
            && GATE_ARMED.load(Ordering::SeqCst)
            && std::thread::current().name() == Some("initiator")
        {
            TI_STORES.fetch_add(1, Ordering::SeqCst);
            AT_GATE.store(true, Ordering::SeqCst);
            while !RELEASE.load(Ordering::SeqCst) {
                std::thread::yield_now();
            }
        }
    }
}
static HOOKS: H = H;

#[test]
fn helper_joins_through_stale_transfer_index() {
    flurry::verif::install(&HOOKS);
    let map: Arc<HashMap<u64, u64>> = Arc::new(HashMap::new());
    {
        let g = map.guard();
        for k in 0..47 {
            map.insert(k, k, &g);
        }
        let s = map.verif_snapshot(&g);
        assert_eq!(s.table.as_ref().unwrap().len, 64);
        assert_eq!(s.size_ctl, 48);
        assert_eq!(s.transfer_index, 16, "left over from the 32 -> 64 resize");
    }
    GATE_ARMED.store(true, Ordering::SeqCst);
    let m2 = map.clone();
    let init = std::thread::Builder::new()
        .name("initiator".into())
        .spawn(move || {
            let g = m2.guard();
            m2.insert(47, 47, &g); // 48th entry -> initiates 64 -> 128, parks before `transfer_index = 64`
        })
        .unwrap();
    while !AT_GATE.load(Ordering::SeqCst) {
        std::thread::yield_now();
    }
    // the initiator has set size_ctl = rs+2 and next_table, but not transfer_index
    let rs = HashMap::<u64, u64>::verif_resize_stamp(64) << 32;
    {
        let g = map.guard();
        let s = map.verif_snapshot(&g);
        assert_eq!(s.size_ctl, rs + 2);
        assert_ne!(s.next_table_addr, 0);
        assert_eq!(s.transfer_index, 16);
    }
    // helper: a plain insert
    {
        let g = map.guard();
        map.insert(1000, 1000, &g);
        let s = map.verif_snapshot(&g);
        let t = s.table.as_ref().unwrap();
        let moved = t
            .bins
            .iter()
            .filter(|b| matches!(b, flurry::verif_inspect::BinSnap::Moved))
            .count();
        eprintln!(
            "helper returned: size_ctl-rs={} transfer_index={} forwarded bins={}",
            s.size_ctl - rs,
            s.transfer_index,
            moved
        );
        assert_eq!(moved, 17, "bins 0..=16 migrated by the helper through the stale counter");
        assert_eq!(s.size_ctl, rs + 2, "helper joined and left");
    }
    RELEASE.store(true, Ordering::SeqCst);
    init.join().unwrap();
    GATE_ARMED.store(false, Ordering::SeqCst);
    let g = map.guard();
    let s = map.verif_snapshot(&g);
    assert_eq!(s.table.as_ref().unwrap().len, 128);
    assert_eq!(s.size_ctl, 96);
    assert_eq!(s.next_table_addr, 0);
    assert_eq!(s.count, 49);
    drop(s);
    for k in (0..48).chain([1000]) {
        assert_eq!(map.get(&k, &g), Some(&k));
    }
    assert_eq!(map.iter(&g).count(), 49);
    assert_eq!(TI_STORES.load(Ordering::SeqCst), 1);
}
