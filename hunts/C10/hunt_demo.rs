//! C10 hunt demonstrations.
//!
//! `transfer` runs user code (`K::clone`, and `K::cmp` through `TreeBin::new`) while the calling
//! thread is counted as a resize participant in `size_ctl`.  If that user code unwinds, the
//! participant leaves `transfer` without the `size_ctl` decrement, without finishing its stride
//! and - if it was the elected finishing thread - without ever publishing.  The map is then stuck
//! in the resizing state for the rest of its life, and `Drop for HashMap` asserts
//! `next_table.is_null()`.
//!
//! Run:  cargo test --offline --test hunt_demo
//! and:  RUSTFLAGS="--cfg flurry_verif" CARGO_TARGET_DIR=target/verif cargo test --offline --test hunt_demo

use flurry::HashMap;
use std::hash::{BuildHasher, Hasher};
use std::panic::{catch_unwind, AssertUnwindSafe};
use std::sync::atomic::{AtomicBool, AtomicUsize, Ordering};

/// hash(k) == k, so bins are under the test's control.
#[derive(Default, Clone)]
struct IdBuild;
struct IdHasher(u64);
impl Hasher for IdHasher {
    fn finish(&self) -> u64 {
        self.0
    }
    fn write(&mut self, bytes: &[u8]) {
        for &b in bytes {
            self.0 = (self.0 << 8) | u64::from(b);
        }
    }
    fn write_u64(&mut self, v: u64) {
        self.0 = v;
    }
}
impl BuildHasher for IdBuild {
    type Hasher = IdHasher;
    fn build_hasher(&self) -> IdHasher {
        IdHasher(0)
    }
}

macro_rules! fragile_key {
    ($name:ident, $armed:ident, $clones:ident) => {
        static $armed: AtomicBool = AtomicBool::new(false);
        static $clones: AtomicUsize = AtomicUsize::new(0);

        #[derive(PartialEq, Eq, PartialOrd, Ord, Hash, Debug)]
        struct $name(u64);
        impl Clone for $name {
            fn clone(&self) -> Self {
                $clones.fetch_add(1, Ordering::SeqCst);
                if $armed.load(Ordering::SeqCst) {
                    panic!("Key::clone failed (think: allocation limit, poisoned lock, ...)");
                }
                $name(self.0)
            }
        }
    };
}

/// Fill a default (16 bin) map with 11 entries so that the 12th insert reaches the threshold
/// (12) and starts the 16 -> 32 resize.  Keys 0 and 16 share bin 0 and go to different halves,
/// so `transfer` has to clone key 0.
fn fill<K: Clone + Ord + std::hash::Hash + Send + Sync + 'static>(
    map: &HashMap<K, u64, IdBuild>,
    mk: impl Fn(u64) -> K,
) {
    let g = map.guard();
    map.insert(mk(0), 0, &g);
    map.insert(mk(16), 16, &g);
    for k in 1..=9 {
        map.insert(mk(k), k, &g);
    }
    assert_eq!(map.len(), 11);
}

fragile_key!(KeyA, ARMED_A, CLONES_A);

/// PROPERTY: "After the last participant leaves, the map is no longer in a resizing state -
/// later growth still works, dropping the map does not panic".
#[test]
fn drop_after_participant_unwound_out_of_transfer() {
    let map: HashMap<KeyA, u64, IdBuild> = HashMap::with_hasher(IdBuild);
    fill(&map, KeyA);

    ARMED_A.store(true, Ordering::SeqCst);
    let r = catch_unwind(AssertUnwindSafe(|| {
        let g = map.guard();
        map.insert(KeyA(10), 10, &g); // 12th entry: count == size_ctl == 12 -> resize
    }));
    ARMED_A.store(false, Ordering::SeqCst);
    assert!(r.is_err(), "the resize was expected to call Key::clone");
    assert!(CLONES_A.load(Ordering::SeqCst) >= 1);

    // The only participant has left.  The map is still perfectly usable ...
    {
        let g = map.guard();
        assert_eq!(map.len(), 12);
        for k in (0..=10).chain([16]) {
            assert_eq!(map.get(&KeyA(k), &g), Some(&k), "key {k} lost");
        }
        for k in 100..200 {
            map.insert(KeyA(k), k, &g);
        }
        assert_eq!(map.len(), 112);
    }

    // ... but dropping it panics.
    let dropped = catch_unwind(AssertUnwindSafe(move || drop(map)));
    assert!(
        dropped.is_ok(),
        "dropping the map panicked although no thread is inside the map any more"
    );
}

#[cfg(flurry_verif)]
fragile_key!(KeyB, ARMED_B, CLONES_B);

/// Same schedule, looking at the control words: the map stays in the resizing state for ever
/// and never grows again.
#[cfg(flurry_verif)]
#[test]
fn stuck_in_resizing_state_and_never_grows_again() {
    let map: HashMap<KeyB, u64, IdBuild> = HashMap::with_hasher(IdBuild);
    fill(&map, KeyB);
    {
        let g = map.guard();
        let s = map.verif_snapshot(&g);
        assert_eq!(s.table.as_ref().unwrap().len, 16);
        assert_eq!(s.size_ctl, 12);
        assert_eq!(s.next_table_addr, 0);
    }

    ARMED_B.store(true, Ordering::SeqCst);
    let r = catch_unwind(AssertUnwindSafe(|| {
        let g = map.guard();
        map.insert(KeyB(10), 10, &g);
    }));
    ARMED_B.store(false, Ordering::SeqCst);
    assert!(r.is_err());
    assert!(CLONES_B.load(Ordering::SeqCst) >= 1);

    // 10_000 more entries; a healthy map would be at 16384 bins by now.
    {
        let g = map.guard();
        for k in 1000..11_000 {
            map.insert(KeyB(k), k, &g);
        }
    }
    let g = map.guard();
    let s = map.verif_snapshot(&g);
    let len = s.table.as_ref().unwrap().len;
    eprintln!(
        "len(table)={len} size_ctl={:#x} next_table={:#x} transfer_index={} count={}",
        s.size_ctl, s.next_table_addr, s.transfer_index, s.count
    );
    let report = (len, s.size_ctl >= 0, s.next_table_addr == 0);
    drop(s);
    drop(g);
    // do not let the Drop assertion hide the result of this test
    std::mem::forget(map);
    assert_eq!(
        report,
        (16384, true, true),
        "(table length, size_ctl is a threshold, next_table is null) after 10_012 inserts"
    );
}

fragile_key!(KeyC, ARMED_C, CLONES_C);

/// The common shape in real programs: nobody catches the panic, the map is a local and is dropped
/// by the very unwind that started inside `transfer`.  The Drop assertion then panics during a
/// panic and the whole process aborts (SIGABRT), so this one is `#[ignore]`d:
///   cargo test --offline --test hunt_demo -- --ignored abort
#[test]
#[ignore]
fn abort_when_map_is_dropped_by_the_same_unwind() {
    let h = std::thread::spawn(|| {
        let map: HashMap<KeyC, u64, IdBuild> = HashMap::with_hasher(IdBuild);
        fill(&map, KeyC);
        ARMED_C.store(true, Ordering::SeqCst);
        let g = map.guard();
        map.insert(KeyC(10), 10, &g);
        let _ = CLONES_C.load(Ordering::SeqCst);
    });
    // a panicking thread should just give Err here
    assert!(h.join().is_err());
}
