//! C10 hunt: small concurrent resize for Miri (data races / UB in transfer). Found nothing.
//! MIRIFLAGS="-Zmiri-many-seeds=0..16" cargo +nightly miri test --offline --test hunt_miri
use flurry::HashMap;
use std::sync::Arc;

#[test]
fn small_concurrent_resize() {
    let map: Arc<HashMap<u64, u64>> = Arc::new(HashMap::with_capacity(1));
    let hs: Vec<_> = (0..3u64)
        .map(|t| {
            let map = map.clone();
            std::thread::spawn(move || {
                for i in 0..14 {
                    let g = map.guard();
                    map.insert(t * 100 + i, i, &g);
                    if i == 5 {
                        map.reserve(3, &g);
                    }
                }
            })
        })
        .collect();
    for h in hs {
        h.join().unwrap();
    }
    assert_eq!(map.len(), 42);
    let g = map.guard();
    for t in 0..3u64 {
        for i in 0..14 {
            assert_eq!(map.get(&(t * 100 + i), &g), Some(&i));
        }
    }
}
