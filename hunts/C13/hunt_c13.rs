//! C13 hunt: retain removes only what its predicate rejected (for exactly the value still
//! stored at the moment of removal); retain_force always removes; without concurrent writers
//! both equal std's retain.
//!
//! These tests are *attempts to break* the property on the unmodified code. They all pass on
//! HEAD, i.e. no violation was found. See hunt/README.md.

use flurry::HashMap;
use rand::rngs::StdRng;
use rand::{Rng, SeedableRng};
use std::collections::HashMap as StdMap;
use std::hash::{BuildHasher, Hash, Hasher};
use std::sync::atomic::{AtomicBool, AtomicU64, AtomicUsize, Ordering};
use std::sync::mpsc;
use std::sync::{Arc, Barrier, Mutex};
use std::time::{Duration, Instant};

// ---------------------------------------------------------------------------------------------
// key / hasher with full control over the bin
// ---------------------------------------------------------------------------------------------

#[derive(Clone, Debug, PartialEq, Eq, PartialOrd, Ord)]
struct K {
    h: u64,
    id: u64,
}
impl Hash for K {
    fn hash<H: Hasher>(&self, s: &mut H) {
        s.write_u64(self.h)
    }
}
#[derive(Clone, Default)]
struct IdBuild;
struct IdHasher(u64);
impl BuildHasher for IdBuild {
    type Hasher = IdHasher;
    fn build_hasher(&self) -> IdHasher {
        IdHasher(0)
    }
}
impl Hasher for IdHasher {
    fn write(&mut self, b: &[u8]) {
        for &x in b {
            self.0 = (self.0 << 8) | x as u64;
        }
    }
    fn write_u64(&mut self, v: u64) {
        self.0 = v
    }
    fn finish(&self) -> u64 {
        self.0
    }
}

#[derive(Debug, Clone, PartialEq, Eq)]
struct V {
    /// what the predicate looks at
    keep: bool,
    /// unique per allocation made by the test
    serial: u64,
}

static SERIAL: AtomicU64 = AtomicU64::new(1);
fn val(keep: bool) -> V {
    V {
        keep,
        serial: SERIAL.fetch_add(1, Ordering::Relaxed),
    }
}

#[derive(Clone, Copy, Debug)]
enum HashMode {
    /// every key in one bin (tree bin once the table has >= 64 bins)
    OneBin,
    /// 4 distinct hashes
    FewBins,
    /// id is the hash
    Identity,
    /// hash = id * 64: same low bits, differ in high bits (split on every resize)
    HighBits,
}
fn key(mode: HashMode, id: u64) -> K {
    let h = match mode {
        HashMode::OneBin => 5,
        HashMode::FewBins => id % 4,
        HashMode::Identity => id,
        HashMode::HighBits => id << 6 | 3,
    };
    K { h, id }
}

// ---------------------------------------------------------------------------------------------
// 1. no concurrent writers: both equal std retain, predicate is called exactly once per entry
// ---------------------------------------------------------------------------------------------

#[test]
#[cfg_attr(miri, ignore)]
fn seq_equals_std_retain() {
    let mut rng = StdRng::seed_from_u64(0xC13);
    let modes = [
        HashMode::OneBin,
        HashMode::FewBins,
        HashMode::Identity,
        HashMode::HighBits,
    ];
    let mut cases = 0;
    for &mode in &modes {
        for &cap in &[0usize, 1, 64, 256] {
            for &n in &[0u64, 1, 2, 5, 6, 7, 8, 9, 12, 13, 16, 17, 40, 100, 300] {
                for force in [false, true] {
                    for pct in [0u32, 10, 50, 90, 100] {
                        let map: HashMap<K, V, IdBuild> =
                            HashMap::with_capacity_and_hasher(cap, IdBuild);
                        let mut model: StdMap<K, V> = StdMap::new();
                        {
                            let g = map.guard();
                            for id in 0..n {
                                let v = val(rng.gen_ratio(pct.min(100), 100));
                                map.insert(key(mode, id), v.clone(), &g);
                                model.insert(key(mode, id), v);
                            }
                            // a few removals / re-insertions so that bins have been through
                            // treeify / untreeify / head changes before retain runs
                            for _ in 0..(n / 3) {
                                let id = rng.gen_range(0..n.max(1));
                                if rng.gen_bool(0.5) {
                                    map.remove(&key(mode, id), &g);
                                    model.remove(&key(mode, id));
                                } else {
                                    let v = val(rng.gen_ratio(pct.min(100), 100));
                                    map.insert(key(mode, id), v.clone(), &g);
                                    model.insert(key(mode, id), v);
                                }
                            }
                        }
                        let mut seen: StdMap<K, u32> = StdMap::new();
                        {
                            let g = map.guard();
                            let f = |k: &K, v: &V| {
                                *seen.entry(k.clone()).or_default() += 1;
                                v.keep
                            };
                            if force {
                                map.retain_force(f, &g);
                            } else {
                                map.retain(f, &g);
                            }
                        }
                        let before = model.clone();
                        model.retain(|_, v| v.keep);
                        // predicate called exactly once for every entry that was there
                        for k in before.keys() {
                            assert_eq!(
                                seen.get(k).copied(),
                                Some(1),
                                "predicate calls for {:?} mode={:?} cap={} n={} force={}",
                                k,
                                mode,
                                cap,
                                n,
                                force
                            );
                        }
                        assert_eq!(seen.len(), before.len());
                        let g = map.guard();
                        let got: StdMap<K, V> =
                            map.iter(&g).map(|(k, v)| (k.clone(), v.clone())).collect();
                        assert_eq!(
                            got, model,
                            "mode={:?} cap={} n={} force={} pct={}",
                            mode, cap, n, force, pct
                        );
                        assert_eq!(map.len(), model.len());
                        for (k, v) in &model {
                            assert_eq!(map.get(k, &g), Some(v));
                        }
                        for k in before.keys() {
                            if !model.contains_key(k) {
                                assert!(map.get(k, &g).is_none());
                            }
                        }
                        cases += 1;
                    }
                }
            }
        }
    }
    eprintln!("seq_equals_std_retain: {} cases", cases);
}

// ---------------------------------------------------------------------------------------------
// 2. deterministic interleavings: the predicate blocks on the target key, the main thread
//    completes one or several whole operations, then the predicate returns `false`.
// ---------------------------------------------------------------------------------------------

#[derive(Clone, Copy, Debug, PartialEq)]
enum Mutation {
    /// insert(k, new)
    Replace,
    /// insert(k, new) where new == old by PartialEq (different allocation)
    ReplaceEqual,
    /// compute_if_present(k, |_| Some(new))
    Compute,
    /// remove(k); insert(k, new)
    RemoveInsert,
    /// insert(k,new) ; then add enough fresh keys to force at least one resize
    ReplaceThenResize,
    /// add enough fresh keys to force a resize ; then insert(k,new)
    ResizeThenReplace,
    /// insert(k,new) ; remove other keys of the bin so a tree bin is untreeified
    ReplaceThenShrinkBin,
    /// remove other keys of the bin so that a tree bin is untreeified ; insert(k,new)
    ShrinkBinThenReplace,
    /// insert(k,new), then grow the bin beyond the treeify threshold
    ReplaceThenGrowBin,
    /// clear(); insert(k,new)
    ClearInsert,
    /// replace 200 times, churning the allocator in between (tries to get the old address back)
    ReplaceChurn,
    /// nothing (control): the entry must be removed
    Nothing,
}

struct Outcome {
    present: Option<V>,
    addr_reused: bool,
}

fn run_blocking(
    mode: HashMode,
    cap: usize,
    n: u64,
    target: u64,
    force: bool,
    m: Mutation,
) -> Outcome {
    let map: Arc<HashMap<K, V, IdBuild>> =
        Arc::new(HashMap::with_capacity_and_hasher(cap, IdBuild));
    {
        let g = map.guard();
        for id in 0..n {
            // everything is "keep" except the target, so the only removal attempt is the target
            map.insert(key(mode, id), val(id != target), &g);
        }
    }
    let (at_target_tx, at_target_rx) = mpsc::channel::<usize>();
    let (resume_tx, resume_rx) = mpsc::channel::<()>();
    let tk = key(mode, target);

    let r = {
        let map = map.clone();
        let tk = tk.clone();
        std::thread::spawn(move || {
            let g = map.guard();
            let mut first = true;
            let f = |k: &K, v: &V| {
                if *k == tk && first {
                    first = false;
                    at_target_tx.send(v as *const V as usize).unwrap();
                    resume_rx.recv().unwrap();
                }
                v.keep
            };
            if force {
                map.retain_force(f, &g);
            } else {
                map.retain(f, &g);
            }
        })
    };

    let observed_addr = at_target_rx
        .recv_timeout(Duration::from_secs(20))
        .expect("retain never reached the target key");
    let mut addr_reused = false;
    let last: Option<V>;
    {
        let g = map.guard();
        let fresh = |i: u64| key(mode, 1_000_000 + i);
        // keep=true: if the traversal meets the new value later (it does after remove+insert,
        // the new node is appended to the bin) the predicate accepts it, so whatever removes it
        // can only be the removal that followed `f(old) == false`
        let new = val(true);
        match m {
            Mutation::Nothing => {
                last = None;
            }
            Mutation::Replace => {
                map.insert(tk.clone(), new.clone(), &g);
                last = Some(new);
            }
            Mutation::ReplaceEqual => {
                let old = map.get(&tk, &g).unwrap().clone();
                map.insert(tk.clone(), old.clone(), &g);
                last = Some(old);
            }
            Mutation::Compute => {
                let nn = new.clone();
                map.compute_if_present(&tk, move |_, _| Some(nn), &g);
                last = Some(new);
            }
            Mutation::RemoveInsert => {
                assert!(map.remove(&tk, &g).is_some());
                map.insert(tk.clone(), new.clone(), &g);
                last = Some(new);
            }
            Mutation::ReplaceThenResize => {
                map.insert(tk.clone(), new.clone(), &g);
                for i in 0..(4 * cap.max(16) as u64) {
                    map.insert(K { h: i, id: 2_000_000 + i }, val(true), &g);
                }
                last = Some(new);
            }
            Mutation::ResizeThenReplace => {
                for i in 0..(4 * cap.max(16) as u64) {
                    map.insert(K { h: i, id: 2_000_000 + i }, val(true), &g);
                }
                map.insert(tk.clone(), new.clone(), &g);
                last = Some(new);
            }
            Mutation::ReplaceThenShrinkBin => {
                map.insert(tk.clone(), new.clone(), &g);
                for id in 0..n {
                    if id != target && id % 8 != 0 {
                        map.remove(&key(mode, id), &g);
                    }
                }
                last = Some(new);
            }
            Mutation::ShrinkBinThenReplace => {
                for id in 0..n {
                    if id != target && id % 8 != 0 {
                        map.remove(&key(mode, id), &g);
                    }
                }
                map.insert(tk.clone(), new.clone(), &g);
                last = Some(new);
            }
            Mutation::ReplaceThenGrowBin => {
                map.insert(tk.clone(), new.clone(), &g);
                for i in 0..24 {
                    map.insert(fresh(i), val(true), &g);
                }
                last = Some(new);
            }
            Mutation::ClearInsert => {
                map.clear(&g);
                map.insert(tk.clone(), new.clone(), &g);
                last = Some(new);
            }
            Mutation::ReplaceChurn => {
                let mut l = None;
                drop(g);
                for _ in 0..200 {
                    // a fresh guard each time so that this thread's retirements can be
                    // reclaimed as far as the collector allows
                    let g = map.guard();
                    let nv = val(true);
                    map.insert(tk.clone(), nv.clone(), &g);
                    let a = map.get(&tk, &g).unwrap() as *const V as usize;
                    if a == observed_addr {
                        addr_reused = true;
                    }
                    l = Some(nv);
                    g.flush();
                    drop(g);
                    // churn same-sized allocations
                    let junk: Vec<Box<[u64; 4]>> = (0..64).map(|_| Box::new([0u64; 4])).collect();
                    drop(junk);
                }
                last = l;
                resume_tx.send(()).unwrap();
                r.join().unwrap();
                let g = map.guard();
                return Outcome {
                    present: map.get(&tk, &g).cloned().and_then(|v| {
                        assert_eq!(Some(&v), last.as_ref());
                        Some(v)
                    }),
                    addr_reused,
                };
            }
        }
    }
    resume_tx.send(()).unwrap();
    r.join().unwrap();
    let g = map.guard();
    let present = map.get(&tk, &g).cloned();
    if let (Some(p), Some(l)) = (&present, &last) {
        assert_eq!(p, l, "a value nobody wrote last is stored");
    }
    // nothing but the target may ever be removed by the retain call: all others are keep=true
    for id in 0..n {
        if id == target {
            continue;
        }
        let still = map.get(&key(mode, id), &g).is_some();
        let removed_by_test = matches!(m, Mutation::ClearInsert)
            || (matches!(
                m,
                Mutation::ReplaceThenShrinkBin | Mutation::ShrinkBinThenReplace
            ) && id % 8 != 0);
        assert_eq!(
            still, !removed_by_test,
            "key {} mode={:?} m={:?} force={}",
            id, mode, m, force
        );
    }
    Outcome {
        present,
        addr_reused,
    }
}

#[test]
fn blocked_predicate_interleavings() {
    use Mutation::*;
    let muts = [
        Nothing,
        Replace,
        ReplaceEqual,
        Compute,
        RemoveInsert,
        ReplaceThenResize,
        ResizeThenReplace,
        ReplaceThenShrinkBin,
        ShrinkBinThenReplace,
        ReplaceThenGrowBin,
        ClearInsert,
        ReplaceChurn,
    ];
    // (mode, capacity, number of keys): linear bins, tree bins (>= 64 bins and > 8 keys in a
    // bin), bins at the treeify / untreeify boundary, tables right below a resize threshold
    let shapes: &[(HashMode, usize, u64)] = &[
        (HashMode::OneBin, 0, 3),
        (HashMode::OneBin, 0, 7),
        (HashMode::OneBin, 64, 7),
        (HashMode::OneBin, 64, 8),
        (HashMode::OneBin, 64, 9),
        (HashMode::OneBin, 64, 20),
        (HashMode::FewBins, 64, 40),
        (HashMode::HighBits, 64, 20),
        (HashMode::HighBits, 0, 11),
        (HashMode::Identity, 0, 11),
        (HashMode::Identity, 0, 12),
        (HashMode::Identity, 16, 23),
    ];
    // under Miri: one linear, one tree, one resizing shape
    let miri_shapes: &[(HashMode, usize, u64)] = &[
        (HashMode::OneBin, 0, 3),
        (HashMode::OneBin, 64, 9),
        (HashMode::Identity, 0, 12),
    ];
    let shapes = if cfg!(miri) { miri_shapes } else { shapes };
    let mut runs = 0;
    for &(mode, cap, n) in shapes {
        let mut targets = vec![0, n / 2, n - 1];
        targets.dedup();
        if cfg!(miri) {
            targets.truncate(2);
        }
        for &target in &targets {
            for force in [false, true] {
                for &m in &muts {
                    let o = run_blocking(mode, cap, n, target, force, m);
                    runs += 1;
                    let ctx = format!(
                        "mode={:?} cap={} n={} target={} force={} m={:?}",
                        mode, cap, n, target, force, m
                    );
                    assert!(!o.addr_reused, "address of a guarded value was reused: {}", ctx);
                    match (force, m) {
                        (_, Nothing) => assert!(o.present.is_none(), "not removed: {}", ctx),
                        (false, _) => assert!(
                            o.present.is_some(),
                            "retain removed a value its predicate never saw: {}",
                            ctx
                        ),
                        (true, _) => assert!(
                            o.present.is_none(),
                            "retain_force left a rejected key: {}",
                            ctx
                        ),
                    }
                }
            }
        }
    }
    eprintln!("blocked_predicate_interleavings: {} runs", runs);
}

// ---------------------------------------------------------------------------------------------
// 3. the same, but the *mutator* is suspended in the middle of its operation (inside Hash::hash,
//    i.e. after `put` allocated the value, before it looked at the table) while retain runs to
//    completion, and vice versa through Clone (runs inside transfer under the bin lock).
// ---------------------------------------------------------------------------------------------

// (covered more systematically by tests/hunt_c13_sched.rs under --cfg flurry_verif)

// ---------------------------------------------------------------------------------------------
// 4. stress with an oracle
//
//    * all initial values are keep=false; writers only ever write keep=true values
//    * retainers run retain(|_, v| v.keep)
//    => once a writer's insert for key k has returned, k has a keep=true value forever (writers
//       never remove), and retain may never remove it: f only ever returns false for the
//       initial value, which is no longer stored. So at the end *every key a writer wrote* must
//       be present, holding the value of the last writer (checked by serial).
// ---------------------------------------------------------------------------------------------

fn stress_retain_once(seed: u64, mode: HashMode, nkeys: u64, writers: usize, retainers: usize) {
    let map: Arc<HashMap<K, V, IdBuild>> = Arc::new(HashMap::with_hasher(IdBuild));
    {
        let g = map.guard();
        for id in 0..nkeys {
            map.insert(key(mode, id), val(false), &g);
        }
    }
    let written: Arc<Vec<AtomicU64>> = Arc::new((0..nkeys).map(|_| AtomicU64::new(0)).collect());
    let rejected_calls = Arc::new(AtomicUsize::new(0));
    let barrier = Arc::new(Barrier::new(writers + retainers));
    let mut hs = vec![];
    for w in 0..writers {
        let map = map.clone();
        let written = written.clone();
        let barrier = barrier.clone();
        hs.push(std::thread::spawn(move || {
            let mut rng = StdRng::seed_from_u64(seed * 1000 + w as u64);
            barrier.wait();
            // each writer owns the keys with id % writers == w, so "last write" is well defined
            let mine: Vec<u64> = (0..nkeys).filter(|id| *id as usize % writers == w).collect();
            if mine.is_empty() {
                return;
            }
            for _ in 0..(mine.len() * 3) {
                let id = mine[rng.gen_range(0..mine.len())];
                let v = val(true);
                let g = map.guard();
                match rng.gen_range(0..3) {
                    0 => {
                        map.insert(key(mode, id), v.clone(), &g);
                        written[id as usize].store(v.serial, Ordering::SeqCst);
                    }
                    1 => {
                        let vv = v.clone();
                        if map
                            .compute_if_present(&key(mode, id), move |_, _| Some(vv), &g)
                            .is_some()
                        {
                            written[id as usize].store(v.serial, Ordering::SeqCst);
                        }
                    }
                    _ => {
                        // try_insert only succeeds if retain already removed the initial value
                        if map.try_insert(key(mode, id), v.clone(), &g).is_ok() {
                            written[id as usize].store(v.serial, Ordering::SeqCst);
                        }
                    }
                }
            }
        }));
    }
    for _ in 0..retainers {
        let map = map.clone();
        let barrier = barrier.clone();
        let rejected_calls = rejected_calls.clone();
        hs.push(std::thread::spawn(move || {
            barrier.wait();
            for _ in 0..3 {
                let g = map.guard();
                map.retain(
                    |_, v| {
                        if !v.keep {
                            rejected_calls.fetch_add(1, Ordering::Relaxed);
                            std::thread::yield_now();
                        }
                        v.keep
                    },
                    &g,
                );
            }
        }));
    }
    for h in hs {
        h.join().unwrap();
    }
    let g = map.guard();
    for id in 0..nkeys {
        let s = written[id as usize].load(Ordering::SeqCst);
        let got = map.get(&key(mode, id), &g);
        if s != 0 {
            let got = got.unwrap_or_else(|| {
                panic!(
                    "key {} was written (serial {}) with a keep=true value but retain removed it \
                     (seed {} mode {:?})",
                    id, s, seed, mode
                )
            });
            assert!(got.keep);
            assert_eq!(got.serial, s, "key {} holds a value that is not the last written", id);
        } else if let Some(v) = got {
            // never written: only the initial keep=false value can be here
            assert!(!v.keep);
        }
    }
    // a final quiescent retain must remove every remaining keep=false entry and nothing else
    map.retain(|_, v| v.keep, &g);
    for id in 0..nkeys {
        let s = written[id as usize].load(Ordering::SeqCst);
        assert_eq!(map.get(&key(mode, id), &g).is_some(), s != 0);
    }
    assert_eq!(
        map.len(),
        (0..nkeys)
            .filter(|id| written[*id as usize].load(Ordering::SeqCst) != 0)
            .count()
    );
}

#[test]
#[cfg_attr(miri, ignore)]
fn stress_retain_never_removes_replaced_values() {
    let deadline = Instant::now() + Duration::from_secs(stress_secs());
    let cores = std::thread::available_parallelism().map(|x| x.get()).unwrap_or(4);
    let mut seed = 0;
    while Instant::now() < deadline {
        for &(mode, nkeys) in &[
            (HashMode::OneBin, 24u64),
            (HashMode::OneBin, 7),
            (HashMode::FewBins, 60),
            (HashMode::Identity, 13),
            (HashMode::Identity, 200),
            (HashMode::HighBits, 100),
        ] {
            seed += 1;
            // oversubscribe: several maps at once, each with its own threads
            let hs: Vec<_> = (0..cores.max(2))
                .map(|i| {
                    let s = seed * 100 + i as u64;
                    std::thread::spawn(move || stress_retain_once(s, mode, nkeys, 3, 2))
                })
                .collect();
            for h in hs {
                h.join().unwrap();
            }
        }
    }
    eprintln!("stress_retain: {} rounds", seed);
}

// retain_force: writers only *replace* (compute_if_present never creates a key), so every key
// for which the predicate returned false must be gone when retain_force returns -- unless it was
// not there any more anyway. Keys for which it returned true only (and never false) must stay.
fn stress_force_once(seed: u64, mode: HashMode, nkeys: u64, writers: usize) {
    let map: Arc<HashMap<K, V, IdBuild>> = Arc::new(HashMap::with_hasher(IdBuild));
    let mut rng = StdRng::seed_from_u64(seed);
    {
        let g = map.guard();
        for id in 0..nkeys {
            map.insert(key(mode, id), val(rng.gen_bool(0.5)), &g);
        }
    }
    let stop = Arc::new(AtomicBool::new(false));
    let barrier = Arc::new(Barrier::new(writers + 1));
    let mut hs = vec![];
    for w in 0..writers {
        let map = map.clone();
        let stop = stop.clone();
        let barrier = barrier.clone();
        hs.push(std::thread::spawn(move || {
            let mut rng = StdRng::seed_from_u64(seed * 77 + w as u64);
            barrier.wait();
            while !stop.load(Ordering::Relaxed) {
                let id = rng.gen_range(0..nkeys);
                let keep = rng.gen_bool(0.5);
                let g = map.guard();
                map.compute_if_present(&key(mode, id), move |_, _| Some(val(keep)), &g);
            }
        }));
    }
    let rejected: Mutex<Vec<K>> = Mutex::new(vec![]);
    let accepted: Mutex<Vec<K>> = Mutex::new(vec![]);
    barrier.wait();
    {
        let g = map.guard();
        map.retain_force(
            |k, v| {
                if v.keep {
                    accepted.lock().unwrap().push(k.clone());
                } else {
                    rejected.lock().unwrap().push(k.clone());
                }
                v.keep
            },
            &g,
        );
        // writers are still running here: they cannot bring a key back
        let rej = rejected.lock().unwrap();
        for k in rej.iter() {
            assert!(
                map.get(k, &g).is_none(),
                "retain_force left {:?} although its predicate returned false (seed {} {:?})",
                k,
                seed,
                mode
            );
        }
        let acc = accepted.lock().unwrap();
        for k in acc.iter() {
            assert!(!rej.contains(k), "predicate called twice for {:?}", k);
            assert!(
                map.get(k, &g).is_some(),
                "retain_force removed {:?} although its predicate returned true (seed {} {:?})",
                k,
                seed,
                mode
            );
        }
        // nobody inserts or removes but retain_force: every key was visited exactly once
        assert_eq!(rej.len() + acc.len(), nkeys as usize);
    }
    stop.store(true, Ordering::Relaxed);
    for h in hs {
        h.join().unwrap();
    }
}

#[test]
#[cfg_attr(miri, ignore)]
fn stress_retain_force_always_removes() {
    let deadline = Instant::now() + Duration::from_secs(stress_secs());
    let cores = std::thread::available_parallelism().map(|x| x.get()).unwrap_or(4);
    let mut seed = 0;
    while Instant::now() < deadline {
        for &(mode, nkeys) in &[
            (HashMode::OneBin, 24u64),
            (HashMode::OneBin, 9),
            (HashMode::FewBins, 60),
            (HashMode::Identity, 200),
            (HashMode::HighBits, 100),
        ] {
            seed += 1;
            let hs: Vec<_> = (0..cores.max(2))
                .map(|i| {
                    let s = seed * 100 + i as u64;
                    std::thread::spawn(move || stress_force_once(s, mode, nkeys, 3))
                })
                .collect();
            for h in hs {
                h.join().unwrap();
            }
        }
    }
    eprintln!("stress_force: {} rounds", seed);
}

// retain with concurrent resizes and removals+reinsertions of the very keys retain rejects.
// Oracle by serial numbers: the predicate records the serial of every value it rejected; a
// "tombstone log" written by the only other removers tells which serials *they* removed. At the
// end, every serial that is neither stored nor removed by a writer must have been rejected by
// the predicate -- i.e. retain removed nothing its predicate did not reject *for that very value*.
fn stress_serial_once(seed: u64, mode: HashMode, nkeys: u64) {
    let map: Arc<HashMap<K, V, IdBuild>> = Arc::new(HashMap::with_hasher(IdBuild));
    // serial -> key id, for everything ever put into the map
    let put_log: Arc<Mutex<Vec<(u64, u64)>>> = Arc::new(Mutex::new(vec![]));
    // serials whose removal / replacement is accounted for by a writer
    let gone_log: Arc<Mutex<Vec<u64>>> = Arc::new(Mutex::new(vec![]));
    let rejected: Arc<Mutex<Vec<u64>>> = Arc::new(Mutex::new(vec![]));
    {
        let g = map.guard();
        let mut pl = put_log.lock().unwrap();
        for id in 0..nkeys {
            let v = val(id % 2 == 0);
            pl.push((v.serial, id));
            map.insert(key(mode, id), v, &g);
        }
    }
    let writers = 3usize;
    let barrier = Arc::new(Barrier::new(writers + 2));
    let mut hs = vec![];
    for w in 0..writers {
        let map = map.clone();
        let put_log = put_log.clone();
        let gone_log = gone_log.clone();
        let barrier = barrier.clone();
        hs.push(std::thread::spawn(move || {
            let mut rng = StdRng::seed_from_u64(seed * 31 + w as u64);
            let mut puts = vec![];
            let mut gone = vec![];
            barrier.wait();
            for i in 0..(nkeys * 4) {
                let id = rng.gen_range(0..nkeys);
                let g = map.guard();
                match rng.gen_range(0..4) {
                    0 => {
                        if let Some(old) = map.remove(&key(mode, id), &g) {
                            gone.push(old.serial);
                        }
                    }
                    1 => {
                        let v = val(rng.gen_bool(0.5));
                        puts.push((v.serial, id));
                        if let Some(old) = map.insert(key(mode, id), v, &g) {
                            gone.push(old.serial);
                        }
                    }
                    2 => {
                        let v = val(rng.gen_bool(0.5));
                        let s = v.serial;
                        let mut old_s = None;
                        let r = map.compute_if_present(
                            &key(mode, id),
                            |_, old| {
                                old_s = Some(old.serial);
                                Some(v)
                            },
                            &g,
                        );
                        if r.is_some() {
                            puts.push((s, id));
                            gone.push(old_s.unwrap());
                        }
                    }
                    _ => {
                        // growth: fresh keys (never rejected: keep=true), forces resizes
                        let v = val(true);
                        let fid = 10_000_000 + (w as u64) * 1_000_000 + i;
                        puts.push((v.serial, fid));
                        map.insert(key(mode, fid), v, &g);
                    }
                }
            }
            put_log.lock().unwrap().extend(puts);
            gone_log.lock().unwrap().extend(gone);
        }));
    }
    for _ in 0..2 {
        let map = map.clone();
        let rejected = rejected.clone();
        let barrier = barrier.clone();
        hs.push(std::thread::spawn(move || {
            let mut mine = vec![];
            barrier.wait();
            for _ in 0..4 {
                let g = map.guard();
                map.retain(
                    |_, v| {
                        if !v.keep {
                            mine.push(v.serial);
                        }
                        v.keep
                    },
                    &g,
                );
            }
            rejected.lock().unwrap().extend(mine);
        }));
    }
    for h in hs {
        h.join().unwrap();
    }
    let g = map.guard();
    let stored: std::collections::HashSet<u64> = map.iter(&g).map(|(_, v)| v.serial).collect();
    let gone: std::collections::HashSet<u64> = gone_log.lock().unwrap().iter().copied().collect();
    let rej: std::collections::HashSet<u64> = rejected.lock().unwrap().iter().copied().collect();
    for &(s, id) in put_log.lock().unwrap().iter() {
        let n = stored.contains(&s) as u32 + gone.contains(&s) as u32;
        if n == 0 {
            // only retain can have removed it
            assert!(
                rej.contains(&s),
                "value serial {} of key {} vanished: not stored, not removed/replaced by a \
                 writer, and the predicate never rejected it (seed {} {:?})",
                s,
                id,
                seed,
                mode
            );
        } else {
            assert_eq!(n, 1, "serial {} both stored and reported removed", s);
        }
    }
    // count is consistent too
    assert_eq!(map.len(), stored.len());
}

#[test]
#[cfg_attr(miri, ignore)]
fn stress_retain_serial_accounting() {
    let deadline = Instant::now() + Duration::from_secs(stress_secs());
    let cores = std::thread::available_parallelism().map(|x| x.get()).unwrap_or(4);
    let mut seed = 0;
    while Instant::now() < deadline {
        for &(mode, nkeys) in &[
            (HashMode::OneBin, 12u64),
            (HashMode::FewBins, 40),
            (HashMode::Identity, 64),
            (HashMode::HighBits, 48),
        ] {
            seed += 1;
            let hs: Vec<_> = (0..cores.max(2))
                .map(|i| {
                    let s = seed * 100 + i as u64;
                    std::thread::spawn(move || stress_serial_once(s, mode, nkeys))
                })
                .collect();
            for h in hs {
                h.join().unwrap();
            }
        }
    }
    eprintln!("stress_serial: {} rounds", seed);
}

fn stress_secs() -> u64 {
    std::env::var("HUNT_SECS")
        .ok()
        .and_then(|s| s.parse().ok())
        .unwrap_or(10)
}

// ---------------------------------------------------------------------------------------------
// 5. predicates that re-enter the map on the same thread ("all predicates"): the value is
//    replaced by the predicate itself after it has inspected it, then it returns false.
// ---------------------------------------------------------------------------------------------

#[derive(Clone, Copy, Debug)]
enum Reenter {
    Insert,
    RemoveInsert,
    InsertAndGrow,
    ShrinkBinAndInsert,
    ClearInsert,
    /// insert, then try hard to have the old allocation reclaimed and reused from inside the
    /// predicate: nested guard + refresh + flush + allocator churn, repeated
    InsertRefreshChurn,
}

#[test]
#[cfg_attr(miri, ignore)]
fn reentrant_predicate() {
    use Reenter::*;
    let shapes: &[(HashMode, usize, u64)] = &[
        (HashMode::OneBin, 0, 3),
        (HashMode::OneBin, 64, 9),
        (HashMode::OneBin, 64, 20),
        (HashMode::Identity, 0, 12),
        (HashMode::HighBits, 0, 11),
    ];
    let mut runs = 0;
    for &(mode, cap, n) in shapes {
        for target in [0, n / 2, n - 1] {
            for force in [false, true] {
                for how in [
                    Insert,
                    RemoveInsert,
                    InsertAndGrow,
                    ShrinkBinAndInsert,
                    ClearInsert,
                    InsertRefreshChurn,
                ] {
                    let map: HashMap<K, V, IdBuild> = HashMap::with_capacity_and_hasher(cap, IdBuild);
                    {
                        let g = map.guard();
                        for id in 0..n {
                            map.insert(key(mode, id), val(id != target), &g);
                        }
                    }
                    let tk = key(mode, target);
                    let mut last: Option<V> = None;
                    let mut reused = false;
                    let mut first = true;
                    {
                        let g = map.guard();
                        let f = |k: &K, v: &V| {
                            if *k == tk && first {
                                first = false;
                                let observed = v as *const V as usize;
                                let mut g2 = map.guard();
                                let new = val(true);
                                match how {
                                    Insert => {
                                        map.insert(tk.clone(), new.clone(), &g2);
                                    }
                                    RemoveInsert => {
                                        map.remove(&tk, &g2);
                                        map.insert(tk.clone(), new.clone(), &g2);
                                    }
                                    InsertAndGrow => {
                                        map.insert(tk.clone(), new.clone(), &g2);
                                        for i in 0..300u64 {
                                            map.insert(K { h: i, id: 5_000_000 + i }, val(true), &g2);
                                        }
                                    }
                                    ShrinkBinAndInsert => {
                                        for id in 0..n {
                                            if id != target && id % 8 != 0 {
                                                map.remove(&key(mode, id), &g2);
                                            }
                                        }
                                        map.insert(tk.clone(), new.clone(), &g2);
                                    }
                                    ClearInsert => {
                                        map.clear(&g2);
                                        map.insert(tk.clone(), new.clone(), &g2);
                                    }
                                    InsertRefreshChurn => {
                                        map.insert(tk.clone(), new.clone(), &g2);
                                        for _ in 0..300 {
                                            g2.refresh();
                                            g2.flush();
                                            drop(g2);
                                            let junk: Vec<Box<[u64; 4]>> =
                                                (0..32).map(|_| Box::new([0u64; 4])).collect();
                                            drop(junk);
                                            g2 = map.guard();
                                            let nv = val(true);
                                            map.insert(tk.clone(), nv.clone(), &g2);
                                            if map.get(&tk, &g2).unwrap() as *const V as usize == observed {
                                                reused = true;
                                            }
                                            last = Some(nv);
                                        }
                                    }
                                }
                                if last.is_none() {
                                    last = Some(new);
                                }
                                // still the value we were shown (it must not have been freed)
                                assert!(!v.keep);
                                return false;
                            }
                            v.keep
                        };
                        if force {
                            map.retain_force(f, &g);
                        } else {
                            map.retain(f, &g);
                        }
                    }
                    let g = map.guard();
                    let ctx = format!(
                        "mode={:?} cap={} n={} target={} force={} how={:?}",
                        mode, cap, n, target, force, how
                    );
                    assert!(!reused, "address of the guarded value was handed out again: {}", ctx);
                    if force {
                        assert!(map.get(&tk, &g).is_none(), "retain_force left the key: {}", ctx);
                    } else {
                        assert_eq!(
                            map.get(&tk, &g),
                            last.as_ref(),
                            "retain removed a value stored after the predicate looked: {}",
                            ctx
                        );
                    }
                    runs += 1;
                }
            }
        }
    }
    eprintln!("reentrant_predicate: {} runs", runs);
}

// HashSet::retain goes through the same path with V = () (a zero-sized value: the allocation is
// still distinct per insertion because of the reclamation header).
#[test]
#[cfg_attr(miri, ignore)]
fn set_retain_remove_reinsert() {
    use flurry::HashSet;
    for n in [3u64, 9, 20] {
        let set: Arc<HashSet<K, IdBuild>> = Arc::new(HashSet::with_capacity_and_hasher(64, IdBuild));
        {
            let g = set.guard();
            for id in 0..n {
                set.insert(key(HashMode::OneBin, id), &g);
            }
        }
        let tk = key(HashMode::OneBin, n / 2);
        let (at_tx, at_rx) = mpsc::channel::<()>();
        let (go_tx, go_rx) = mpsc::channel::<()>();
        let r = {
            let set = set.clone();
            let tk = tk.clone();
            std::thread::spawn(move || {
                let g = set.guard();
                let mut calls = 0;
                set.retain(
                    |k| {
                        if *k == tk {
                            calls += 1;
                            if calls == 1 {
                                at_tx.send(()).unwrap();
                                go_rx.recv().unwrap();
                                return false;
                            }
                        }
                        true
                    },
                    &g,
                );
            })
        };
        at_rx.recv().unwrap();
        {
            let g = set.guard();
            assert!(set.remove(&tk, &g));
            assert!(set.insert(tk.clone(), &g));
        }
        go_tx.send(()).unwrap();
        r.join().unwrap();
        let g = set.guard();
        // the element was removed and inserted again after the predicate looked at it: that is a
        // replaced value, the predicate accepted the new one (second call returns true)
        assert!(set.contains(&tk, &g), "n={}", n);
        assert_eq!(set.len(), n as usize);
    }
}

// ---------------------------------------------------------------------------------------------
// 6. retain while a resize is *stuck half way*: the resizing thread is suspended inside
//    `K::clone` (called by `transfer` under a bin lock), so some bins of the old table are
//    forwarded and some are not, and stays suspended during the whole retain call. On top of that
//    the predicate blocks on one key while the main thread replaces values in the new table.
// ---------------------------------------------------------------------------------------------

static GATE_ARMED: AtomicU64 = AtomicU64::new(u64::MAX);
static GATE_REACHED: AtomicBool = AtomicBool::new(false);
static GATE_OPEN: AtomicBool = AtomicBool::new(false);

#[derive(Debug, PartialEq, Eq, PartialOrd, Ord)]
struct GK {
    id: u64,
}
impl Hash for GK {
    fn hash<H: Hasher>(&self, s: &mut H) {
        s.write_u64(self.id)
    }
}
impl Clone for GK {
    fn clone(&self) -> Self {
        if GATE_ARMED.load(Ordering::SeqCst) == self.id {
            GATE_ARMED.store(u64::MAX, Ordering::SeqCst);
            GATE_REACHED.store(true, Ordering::SeqCst);
            while !GATE_OPEN.load(Ordering::SeqCst) {
                std::thread::yield_now();
            }
        }
        GK { id: self.id }
    }
}

#[test]
#[cfg_attr(miri, ignore)]
fn retain_during_half_done_resize() {
    for force in [false, true] {
        GATE_REACHED.store(false, Ordering::SeqCst);
        GATE_OPEN.store(false, Ordering::SeqCst);
        let map: Arc<HashMap<GK, V, IdBuild>> = Arc::new(HashMap::with_hasher(IdBuild));
        // 16 bins, resize threshold 12. bin 1 = {1, 17, 33}: 33 is the reused "last run", 1 and
        // 17 are cloned by transfer. transfer walks from bin 15 down to bin 0.
        let ids = [1u64, 17, 33, 2, 18, 3, 4, 5, 0, 16, 6];
        let keep = |id: u64| matches!(id, 1 | 17 | 33 | 3 | 5);
        {
            let g = map.guard();
            for &id in &ids {
                map.insert(GK { id }, val(keep(id)), &g);
            }
        }
        // W: the 12th insert starts the resize and gets stuck cloning key 1 under bin 1's lock:
        // bins 15..2 are forwarded, bins 1 and 0 are not
        GATE_ARMED.store(1, Ordering::SeqCst);
        let w = {
            let map = map.clone();
            std::thread::spawn(move || {
                let g = map.guard();
                map.insert(GK { id: 7 }, val(true), &g);
            })
        };
        while !GATE_REACHED.load(Ordering::SeqCst) {
            std::thread::yield_now();
        }
        let (at_tx, at_rx) = mpsc::channel::<u64>();
        let (go_tx, go_rx) = mpsc::channel::<()>();
        let log: Arc<Mutex<Vec<(u64, u64, bool)>>> = Arc::new(Mutex::new(vec![]));
        let r = {
            let map = map.clone();
            let log = log.clone();
            std::thread::spawn(move || {
                let g = map.guard();
                let mut blocked = false;
                let f = |k: &GK, v: &V| {
                    log.lock().unwrap().push((k.id, v.serial, v.keep));
                    if (k.id == 2 || k.id == 18) && !blocked {
                        blocked = true;
                        at_tx.send(k.id).unwrap();
                        go_rx.recv().unwrap();
                    }
                    v.keep
                };
                if force {
                    map.retain_force(f, &g);
                } else {
                    map.retain(f, &g);
                }
            })
        };
        let first = at_rx
            .recv_timeout(Duration::from_secs(20))
            .expect("retain did not get to bin 2 while the resize is stuck");
        let other = if first == 2 { 18 } else { 2 };
        let (n_first, n_other) = (val(true), val(true));
        {
            let g = map.guard();
            // both keys live in already forwarded bins: these writes go to the new table
            assert!(map.insert(GK { id: first }, n_first.clone(), &g).is_some());
            assert!(map.insert(GK { id: other }, n_other.clone(), &g).is_some());
        }
        go_tx.send(()).unwrap();
        r.join().unwrap();
        // the resize is still stuck; look at the result now, then let it finish and look again
        for round in 0..2 {
            let g = map.guard();
            let ctx = format!("force={} round={} log={:?}", force, round, log.lock().unwrap());
            let calls = |id: u64| log.lock().unwrap().iter().filter(|x| x.0 == id).count();
            for &id in &ids {
                assert_eq!(calls(id), 1, "key {} shown {} times: {}", id, calls(id), ctx);
                let got = map.get(&GK { id }, &g);
                if id == first {
                    // inspected (old value, rejected), then replaced
                    if force {
                        assert!(got.is_none(), "retain_force left {}: {}", id, ctx);
                    } else {
                        assert_eq!(got, Some(&n_first), "retain removed replaced {}: {}", id, ctx);
                    }
                } else if id == other {
                    // replaced before it was inspected: the predicate saw the new value
                    assert_eq!(got, Some(&n_other), "{}", ctx);
                } else {
                    assert_eq!(got.is_some(), keep(id), "key {}: {}", id, ctx);
                }
            }
            if round == 0 {
                drop(g);
                GATE_OPEN.store(true, Ordering::SeqCst);
                w.thread().unpark();
                while !w.is_finished() {
                    std::thread::yield_now();
                }
            }
        }
        w.join().unwrap();
        let g = map.guard();
        assert!(map.get(&GK { id: 7 }, &g).is_some());
    }
}

// ---------------------------------------------------------------------------------------------
// 7. observation (not a violation of C13 as written): after a transfer copied the node the
//    traversal is standing in front of, the predicate is shown the value the *old copy* holds,
//    i.e. a value that had already been replaced before the predicate was called.
//    retain then refuses the removal (pointer differs) -- fine; retain_force removes the key.
// ---------------------------------------------------------------------------------------------
#[test]
#[cfg_attr(miri, ignore)]
fn stale_value_shown_after_transfer() {
    for force in [false, true] {
        let map: Arc<HashMap<K, V, IdBuild>> = Arc::new(HashMap::with_hasher(IdBuild));
        let ids = [1u64, 17, 33, 2, 18, 3, 4, 5, 0, 16, 6];
        let k = |id: u64| K { h: id, id };
        let mut old17 = 0;
        {
            let g = map.guard();
            for &id in &ids {
                let v = val(id != 17 && id != 1);
                if id == 17 {
                    old17 = v.serial;
                }
                map.insert(k(id), v, &g);
            }
        }
        let (at_tx, at_rx) = mpsc::channel::<()>();
        let (go_tx, go_rx) = mpsc::channel::<()>();
        let seen17: Arc<Mutex<Vec<u64>>> = Arc::new(Mutex::new(vec![]));
        let r = {
            let map = map.clone();
            let seen17 = seen17.clone();
            std::thread::spawn(move || {
                let g = map.guard();
                let f = |kk: &K, v: &V| {
                    if kk.id == 1 {
                        at_tx.send(()).unwrap();
                        go_rx.recv().unwrap();
                        return true;
                    }
                    if kk.id == 17 {
                        seen17.lock().unwrap().push(v.serial);
                    }
                    v.keep
                };
                if force {
                    map.retain_force(f, &g);
                } else {
                    map.retain(f, &g);
                }
            })
        };
        at_rx.recv().unwrap();
        let new17 = val(true);
        {
            let g = map.guard();
            map.insert(k(7), val(true), &g); // 12th entry: resize 16 -> 32, nodes 1 and 17 are copied
            map.insert(k(8), val(true), &g);
            assert_eq!(map.insert(k(17), new17.clone(), &g).map(|v| v.serial), Some(old17));
        }
        go_tx.send(()).unwrap();
        r.join().unwrap();
        let g = map.guard();
        let seen = seen17.lock().unwrap().clone();
        eprintln!(
            "stale_value_shown_after_transfer: force={} predicate saw serial(s) {:?} for key 17; \
             old={} new={}; key 17 present afterwards: {}",
            force,
            seen,
            old17,
            new17.serial,
            map.get(&k(17), &g).is_some()
        );
        assert_eq!(seen, vec![old17], "expected the stale value to be shown exactly once");
        if force {
            assert!(map.get(&k(17), &g).is_none());
        } else {
            // C13: the stored value is not the one the predicate rejected => stays
            assert_eq!(map.get(&k(17), &g), Some(&new17));
        }
    }
}
