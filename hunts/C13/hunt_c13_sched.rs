//! C13 hunt, systematic part. Needs the hook build:
//!
//!   RUSTFLAGS="--cfg flurry_verif" CARGO_TARGET_DIR=target/verif \
//!       cargo test --offline --release --test hunt_c13_sched -- --nocapture
//!
//! A thread R runs `retain` / `retain_force` on a small map of known shape. R is suspended
//! immediately before its k-th hook event (every atomic load/store/swap/CAS of the map, every
//! bin-lock acquisition, every allocation/retire) for every k, and while it is suspended a second
//! thread W completes one or several whole operations on the keys R is inspecting (replace,
//! remove + insert, compute, growth that forces a resize, shrinking a tree bin until it is
//! untreeified, clear). If W needs a bin lock R is holding, R is resumed and W finishes as soon
//! as R lets go. Also every *pair* of suspension points k1 <= k2 with W's operations split in two
//! groups (for the smaller scenarios).
//!
//! After each run the oracle checks, with per-allocation serial numbers:
//!   * every value ever stored is now either still stored, or was taken out by W (W got it back
//!     as the old value of its own remove/insert/compute), or was *rejected by R's predicate*;
//!   * a key whose last write (by W) is a value the predicate accepts, and that W did not remove
//!     afterwards, is present with exactly that value (retain);
//!   * with a replace-only W: every key for which the predicate returned false is absent when
//!     retain_force returns and every other initial key is present; every initial key was shown
//!     to the predicate exactly once (both).
#![cfg(flurry_verif)]

use flurry::verif::{self, Event, Hooks, Kind};
use flurry::HashMap;
use std::cell::RefCell;
use std::collections::{HashMap as StdMap, HashSet};
use std::hash::{BuildHasher, Hash, Hasher};
use std::sync::atomic::{AtomicBool, AtomicU64, AtomicUsize, Ordering};
use std::sync::{mpsc, Arc, Mutex};
use std::time::{Duration, Instant};

// ------------------------------------------------------------------------------------------------
// keys, values
// ------------------------------------------------------------------------------------------------

#[derive(Clone, Debug, PartialEq, Eq, PartialOrd, Ord, Hash)]
struct K {
    h: u64,
    id: u64,
}
#[derive(Clone, Default)]
struct IdBuild;
struct IdHasher(u64);
impl BuildHasher for IdBuild {
    type Hasher = IdHasher;
    fn build_hasher(&self) -> IdHasher {
        IdHasher(0)
    }
}
impl Hasher for IdHasher {
    fn write(&mut self, _b: &[u8]) {}
    fn write_u64(&mut self, v: u64) {
        // derive(Hash) on K writes h then id; keep only the first
        if self.0 == 0 {
            self.0 = v | (1 << 63);
        }
    }
    fn finish(&self) -> u64 {
        self.0 & !(1 << 63)
    }
}

#[derive(Debug, Clone, PartialEq, Eq)]
struct V {
    keep: bool,
    serial: u64,
}
static SERIAL: AtomicU64 = AtomicU64::new(1);
fn val(keep: bool) -> V {
    V {
        keep,
        serial: SERIAL.fetch_add(1, Ordering::Relaxed),
    }
}

type Map = HashMap<K, V, IdBuild>;

// ------------------------------------------------------------------------------------------------
// hook plumbing
// ------------------------------------------------------------------------------------------------

struct RCtl {
    count: AtomicUsize,
    /// (event index, step group to release there)
    points: Vec<(usize, usize)>,
    next_point: AtomicUsize,
    go: Mutex<mpsc::Sender<usize>>,
    done: Arc<Vec<AtomicBool>>,
    w_blocked: Arc<AtomicBool>,
    resumed_early: AtomicUsize,
    /// number of bin-lock scopes R is inside (conservative: the scope ends after the unlock)
    depth: AtomicUsize,
    resumed_timeout: AtomicUsize,
    trace: Mutex<Vec<(Kind, u32)>>,
    record: bool,
}
struct WCtl {
    w_blocked: Arc<AtomicBool>,
}
enum Role {
    R(Arc<RCtl>),
    W(Arc<WCtl>),
}
thread_local! {
    static ROLE: RefCell<Option<Role>> = const { RefCell::new(None) };
}

struct H;
impl Hooks for H {
    fn event(&self, e: &Event) {
        ROLE.with(|r| {
            let r = r.borrow();
            match &*r {
                None => {}
                Some(Role::W(w)) => {
                    if e.kind == Kind::BeforeLock && unsafe { verif::mutex_is_locked(e.addr) } {
                        // only R can hold it, and R is suspended: we are going to block
                        w.w_blocked.store(true, Ordering::SeqCst);
                    } else {
                        w.w_blocked.store(false, Ordering::SeqCst);
                    }
                }
                Some(Role::R(c)) => {
                    let idx = c.count.fetch_add(1, Ordering::SeqCst);
                    if c.record {
                        c.trace.lock().unwrap().push((e.kind, e.loc.line()));
                    }
                    loop {
                        let np = c.next_point.load(Ordering::SeqCst);
                        if np >= c.points.len() || c.points[np].0 != idx {
                            break;
                        }
                        c.next_point.store(np + 1, Ordering::SeqCst);
                        let group = c.points[np].1;
                        c.go.lock().unwrap().send(group).unwrap();
                        let start = Instant::now();
                        loop {
                            if c.done[group].load(Ordering::SeqCst) {
                                break;
                            }
                            if c.w_blocked.load(Ordering::SeqCst) {
                                c.resumed_early.fetch_add(1, Ordering::SeqCst);
                                break;
                            }
                            // W looked at the mutex before R (running after an early resume) took
                            // it, and blocks now without having noticed: harness race, not a
                            // library one. R is inside a lock scope => give way after a while.
                            if c.depth.load(Ordering::SeqCst) > 0
                                && start.elapsed() > Duration::from_millis(15)
                            {
                                c.resumed_timeout.fetch_add(1, Ordering::SeqCst);
                                break;
                            }
                            if start.elapsed() > Duration::from_secs(20) {
                                panic!("W made no progress while R was suspended at event {}", idx);
                            }
                            std::thread::yield_now();
                        }
                    }
                    match e.kind {
                        Kind::BeforeLock => {
                            c.depth.fetch_add(1, Ordering::SeqCst);
                        }
                        Kind::Unlock => {
                            c.depth.fetch_sub(1, Ordering::SeqCst);
                        }
                        _ => {}
                    }
                }
            }
        });
    }
}
static HOOK: H = H;
fn install() {
    verif::install(&HOOK);
}

// ------------------------------------------------------------------------------------------------
// scenarios
// ------------------------------------------------------------------------------------------------

#[derive(Clone, Debug)]
enum Step {
    Insert(u64, bool),
    /// insert a value that is == the one stored (other allocation, same serial!) -- only used
    /// where serial accounting is relaxed
    Compute(u64, bool),
    Remove(u64),
    /// fresh keys id..id+n, hash = id (spread over bins), forces growth
    Fresh(u64, u64),
    /// fresh keys in the *same* bin as everything else in a one-bin scenario
    FreshSameBin(u64, u64),
    RemoveMany(Vec<u64>),
    Clear,
    TryInsert(u64, bool),
}

#[derive(Clone)]
struct Scenario {
    name: &'static str,
    cap: usize,
    /// (id, hash, keep)
    init: Vec<(u64, u64, bool)>,
    /// hash for ids that are not in init
    groups: Vec<Vec<Step>>,
    same_bin_hash: u64,
    pairs: bool,
}

fn hash_of(sc: &Scenario, id: u64) -> u64 {
    sc.init
        .iter()
        .find(|x| x.0 == id)
        .map(|x| x.1)
        .unwrap_or(sc.same_bin_hash)
}

#[derive(Default)]
struct WLog {
    puts: Vec<(u64, u64)>,
    gone: Vec<u64>,
    /// per key: Some(serial, keep) = last thing W did was write this; None = last thing was remove
    last: StdMap<u64, Option<(u64, bool)>>,
    removed_any: bool,
    inserted_absent: bool,
}

fn run_step(sc: &Scenario, map: &Map, s: &Step, log: &mut WLog) {
    let g = map.guard();
    let k = |id: u64| K {
        h: hash_of(sc, id),
        id,
    };
    match s {
        Step::Insert(id, keep) => {
            let v = val(*keep);
            log.puts.push((v.serial, *id));
            log.last.insert(*id, Some((v.serial, *keep)));
            match map.insert(k(*id), v, &g) {
                Some(old) => log.gone.push(old.serial),
                None => log.inserted_absent = true,
            }
        }
        Step::TryInsert(id, keep) => {
            let v = val(*keep);
            let s = v.serial;
            if map.try_insert(k(*id), v, &g).is_ok() {
                log.puts.push((s, *id));
                log.last.insert(*id, Some((s, *keep)));
                log.inserted_absent = true;
            }
        }
        Step::Compute(id, keep) => {
            let v = val(*keep);
            let s = v.serial;
            let mut old_s = None;
            let r = map.compute_if_present(
                &k(*id),
                |_, old| {
                    old_s = Some(old.serial);
                    Some(v)
                },
                &g,
            );
            if r.is_some() {
                log.puts.push((s, *id));
                log.gone.push(old_s.unwrap());
                log.last.insert(*id, Some((s, *keep)));
            }
        }
        Step::Remove(id) => {
            log.removed_any = true;
            if let Some(old) = map.remove(&k(*id), &g) {
                log.gone.push(old.serial);
            }
            log.last.insert(*id, None);
        }
        Step::RemoveMany(ids) => {
            log.removed_any = true;
            for id in ids {
                if let Some(old) = map.remove(&k(*id), &g) {
                    log.gone.push(old.serial);
                }
                log.last.insert(*id, None);
            }
        }
        Step::Fresh(from, n) => {
            for id in *from..*from + *n {
                let v = val(true);
                log.puts.push((v.serial, id));
                if let Some(old) = map.insert(K { h: id, id }, v, &g) {
                    log.gone.push(old.serial);
                }
            }
        }
        Step::FreshSameBin(from, n) => {
            for id in *from..*from + *n {
                let v = val(true);
                log.puts.push((v.serial, id));
                if let Some(old) = map.insert(
                    K {
                        h: sc.same_bin_hash,
                        id,
                    },
                    v,
                    &g,
                ) {
                    log.gone.push(old.serial);
                }
            }
        }
        Step::Clear => {
            log.removed_any = true;
            // clear does not hand the values back: account for them by reading first. This is
            // only exact because R never *adds* values.
            let before: Vec<(u64, u64)> = map.iter(&g).map(|(k, v)| (k.id, v.serial)).collect();
            map.clear(&g);
            // whatever is not there any more and that we saw: attribute to us *or* to R; mark as
            // "gone-maybe" by pushing into gone only when it is really absent now and R did not
            // reject it -- resolved in the oracle through `clear_saw`
            for (id, s) in before {
                log.gone.push(s | CLEAR_FLAG);
                log.last.insert(id, None);
            }
        }
    }
}
const CLEAR_FLAG: u64 = 1 << 62;

struct RunResult {
    events: usize,
    trace: Vec<(Kind, u32)>,
    resumed_early: usize,
    resumed_timeout: usize,
}

fn run(sc: &Scenario, force: bool, points: Vec<(usize, usize)>, record: bool) -> RunResult {
    let map: Arc<Map> = Arc::new(HashMap::with_capacity_and_hasher(sc.cap, IdBuild));
    let mut put_log: Vec<(u64, u64)> = vec![];
    let mut init_serial: StdMap<u64, (u64, bool)> = StdMap::new();
    {
        let g = map.guard();
        for &(id, h, keep) in &sc.init {
            let v = val(keep);
            put_log.push((v.serial, id));
            init_serial.insert(id, (v.serial, keep));
            map.insert(K { h, id }, v, &g);
        }
    }
    let ngroups = sc.groups.len();
    let done: Arc<Vec<AtomicBool>> = Arc::new((0..ngroups).map(|_| AtomicBool::new(false)).collect());
    let w_blocked = Arc::new(AtomicBool::new(false));
    let (go_tx, go_rx) = mpsc::channel::<usize>();

    let rctl = Arc::new(RCtl {
        count: AtomicUsize::new(0),
        points,
        next_point: AtomicUsize::new(0),
        go: Mutex::new(go_tx.clone()),
        done: done.clone(),
        w_blocked: w_blocked.clone(),
        resumed_early: AtomicUsize::new(0),
        depth: AtomicUsize::new(0),
        resumed_timeout: AtomicUsize::new(0),
        trace: Mutex::new(vec![]),
        record,
    });

    // W
    let w = {
        let map = map.clone();
        let sc = sc.clone();
        let done = done.clone();
        let w_blocked = w_blocked.clone();
        std::thread::spawn(move || {
            ROLE.with(|r| *r.borrow_mut() = Some(Role::W(Arc::new(WCtl { w_blocked: w_blocked.clone() }))));
            let mut log = WLog::default();
            while let Ok(gi) = go_rx.recv() {
                if gi == usize::MAX {
                    break;
                }
                for s in &sc.groups[gi] {
                    run_step(&sc, &map, s, &mut log);
                }
                w_blocked.store(false, Ordering::SeqCst);
                done[gi].store(true, Ordering::SeqCst);
            }
            ROLE.with(|r| *r.borrow_mut() = None);
            log
        })
    };

    // R
    let rej: Arc<Mutex<Vec<(u64, u64)>>> = Arc::new(Mutex::new(vec![]));
    let acc: Arc<Mutex<Vec<(u64, u64)>>> = Arc::new(Mutex::new(vec![]));
    let r = {
        let map = map.clone();
        let rctl = rctl.clone();
        let rej = rej.clone();
        let acc = acc.clone();
        std::thread::spawn(move || {
            let g = map.guard();
            let f = |k: &K, v: &V| {
                if v.keep {
                    acc.lock().unwrap().push((k.id, v.serial));
                } else {
                    rej.lock().unwrap().push((k.id, v.serial));
                }
                v.keep
            };
            ROLE.with(|r| *r.borrow_mut() = Some(Role::R(rctl)));
            if force {
                map.retain_force(f, &g);
            } else {
                map.retain(f, &g);
            }
            ROLE.with(|r| *r.borrow_mut() = None);
            // state right when the call returns (W may still be finishing a blocked step)
            drop(g);
        })
    };
    r.join().expect("R panicked");
    let fired = rctl.next_point.load(Ordering::SeqCst);
    // groups whose point was never reached run now (after R): keeps the oracle uniform
    let released: HashSet<usize> = rctl.points[..fired].iter().map(|p| p.1).collect();
    for gi in 0..ngroups {
        if !released.contains(&gi) {
            go_tx.send(gi).unwrap();
        }
    }
    go_tx.send(usize::MAX).unwrap();
    let wlog = w.join().expect("W panicked");

    // ---------------------------------------------------------------- oracle
    let ctx = || {
        format!(
            "scenario={} force={} points={:?} (of {} events)",
            sc.name,
            force,
            rctl.points,
            rctl.count.load(Ordering::SeqCst)
        )
    };
    let g = map.guard();
    let stored: StdMap<u64, V> = map.iter(&g).map(|(k, v)| (k.id, v.clone())).collect();
    let stored_serials: HashSet<u64> = stored.values().map(|v| v.serial).collect();
    let rej = rej.lock().unwrap().clone();
    let acc = acc.lock().unwrap().clone();
    let rej_serials: HashSet<u64> = rej.iter().map(|x| x.1).collect();
    let gone: HashSet<u64> = wlog.gone.iter().filter(|s| **s & CLEAR_FLAG == 0).copied().collect();
    let gone_clear: HashSet<u64> = wlog
        .gone
        .iter()
        .filter(|s| **s & CLEAR_FLAG != 0)
        .map(|s| s & !CLEAR_FLAG)
        .collect();
    put_log.extend(wlog.puts.iter().copied());

    // (1) serial accounting
    for &(s, id) in &put_log {
        let n = stored_serials.contains(&s) as u32 + gone.contains(&s) as u32;
        if n == 0 {
            if gone_clear.contains(&s) {
                continue;
            }
            if force {
                // retain_force may remove a value it did not look at, but only under a key it
                // rejected
                assert!(
                    rej.iter().any(|x| x.0 == id),
                    "value {} of key {} vanished though the predicate never rejected the key: {}",
                    s,
                    id,
                    ctx()
                );
            } else {
                assert!(
                    rej_serials.contains(&s),
                    "C13 VIOLATION: value serial {} of key {} was removed by retain although the \
                     predicate never returned false for it: {}\n rejected={:?}\n accepted={:?}",
                    s,
                    id,
                    ctx(),
                    rej,
                    acc
                );
            }
        } else {
            assert_eq!(n, 1, "serial {} both stored and taken out: {}", s, ctx());
        }
    }
    assert_eq!(map.len(), stored.len(), "len() vs. contents: {}", ctx());

    // (2) last write accepted by the predicate => present (retain)
    if !force {
        for (id, last) in &wlog.last {
            if let Some((s, true)) = last {
                let got = stored.get(id);
                assert!(
                    got.map(|v| v.serial) == Some(*s),
                    "C13 VIOLATION: key {} last written with accepted value {} but now {:?}: {}",
                    id,
                    s,
                    got,
                    ctx()
                );
            }
        }
    }

    // (3) traversal / force oracle for a W that neither removes nor re-creates keys
    if !wlog.removed_any && !wlog.inserted_absent {
        for &(id, _, _) in &sc.init {
            let calls = rej.iter().filter(|x| x.0 == id).count() + acc.iter().filter(|x| x.0 == id).count();
            assert_eq!(
                calls, 1,
                "initial key {} shown to the predicate {} times: {}",
                id,
                calls,
                ctx()
            );
        }
        if !wlog.inserted_absent {
            for &(id, _, _) in &sc.init {
                let rejected = rej.iter().any(|x| x.0 == id);
                if force {
                    assert_eq!(
                        stored.contains_key(&id),
                        !rejected,
                        "C13 VIOLATION (retain_force): key {} rejected={} present={}: {}",
                        id,
                        rejected,
                        stored.contains_key(&id),
                        ctx()
                    );
                } else if !rejected {
                    assert!(stored.contains_key(&id), "accepted key {} missing: {}", id, ctx());
                } else if !wlog.last.contains_key(&id) {
                    // rejected and never touched by W: must be gone
                    assert!(
                        !stored.contains_key(&id),
                        "rejected, untouched key {} still there: {}",
                        id,
                        ctx()
                    );
                }
            }
        }
    }
    let _ = init_serial;

    let trace = std::mem::take(&mut *rctl.trace.lock().unwrap());
    let res = RunResult {
        events: rctl.count.load(Ordering::SeqCst),
        trace,
        resumed_early: rctl.resumed_early.load(Ordering::SeqCst),
        resumed_timeout: rctl.resumed_timeout.load(Ordering::SeqCst),
    };
    res
}

fn explore(sc: &Scenario) {
    install();
    for force in [false, true] {
        // dry run: W's groups run after R
        let dry = run(sc, force, vec![], true);
        let n = dry.events;
        let mut kinds: StdMap<String, usize> = StdMap::new();
        for (k, _) in &dry.trace {
            *kinds.entry(format!("{:?}", k)).or_default() += 1;
        }
        let mut runs = 0usize;
        let mut early = 0usize;
        let mut tmo = 0usize;
        let ng = sc.groups.len();
        // all groups at one point
        for k in 0..n {
            let pts: Vec<(usize, usize)> = (0..ng).map(|gi| (k, gi)).collect();
            let r = run(sc, force, pts, false);
            early += r.resumed_early;
            tmo += r.resumed_timeout;
            runs += 1;
        }
        // pairs of points: group 0 at k1, remaining groups at k2 >= k1
        if sc.pairs && ng >= 2 {
            for k1 in 0..n {
                for k2 in k1..n {
                    let mut pts = vec![(k1, 0)];
                    for gi in 1..ng {
                        pts.push((k2, gi));
                    }
                    let r = run(sc, force, pts, false);
                    early += r.resumed_early;
            tmo += r.resumed_timeout;
                    runs += 1;
                }
            }
        }
        eprintln!(
            "{:<28} force={:<5} events={:<4} runs={:<6} resumed-early={:<5} resumed-timeout={:<3} kinds={:?}",
            sc.name, force, n, runs, early, tmo, kinds
        );
    }
}

// one bin, linear: ids 0..n with hash 5
fn one_bin(n: u64, keep: impl Fn(u64) -> bool) -> Vec<(u64, u64, bool)> {
    (0..n).map(|id| (id, 5, keep(id))).collect()
}

#[test]
fn sched_linear_bin_replace() {
    explore(&Scenario {
        name: "linear3/replace",
        cap: 0,
        init: one_bin(3, |_| false),
        groups: vec![vec![Step::Insert(1, true)], vec![Step::Insert(0, true), Step::Insert(2, true)]],
        same_bin_hash: 5,
        pairs: true,
    });
}

#[test]
fn sched_linear_bin_compute() {
    explore(&Scenario {
        name: "linear3/compute",
        cap: 0,
        init: one_bin(3, |id| id == 2),
        groups: vec![vec![Step::Compute(1, true)], vec![Step::Compute(0, false), Step::Compute(2, false)]],
        same_bin_hash: 5,
        pairs: true,
    });
}

#[test]
fn sched_linear_bin_remove_insert() {
    explore(&Scenario {
        name: "linear3/remove+insert",
        cap: 0,
        init: one_bin(3, |_| false),
        groups: vec![
            vec![Step::Remove(1), Step::Insert(1, true)],
            vec![Step::Remove(0), Step::Insert(0, true), Step::Remove(2), Step::TryInsert(2, true)],
        ],
        same_bin_hash: 5,
        pairs: true,
    });
}

#[test]
fn sched_linear_bin_rejected_rewrites() {
    // W writes values the predicate rejects as well: retain may remove them only if it saw them
    explore(&Scenario {
        name: "linear4/rejected-rewrites",
        cap: 0,
        init: one_bin(4, |id| id == 3),
        groups: vec![
            vec![Step::Insert(1, false), Step::Insert(2, false)],
            vec![Step::Remove(1), Step::Insert(1, false), Step::Insert(0, false), Step::Insert(3, false)],
        ],
        same_bin_hash: 5,
        pairs: true,
    });
}

#[test]
fn sched_tree_bin_replace() {
    // 128 bins, 10 keys in one bin => tree bin
    explore(&Scenario {
        name: "tree10/replace",
        cap: 64,
        init: one_bin(10, |id| id % 3 == 0),
        groups: vec![
            vec![Step::Insert(4, true), Step::Compute(5, true)],
            vec![Step::Insert(1, true), Step::Remove(8), Step::Insert(8, true)],
        ],
        same_bin_hash: 5,
        pairs: false,
    });
}

#[test]
fn sched_tree_bin_untreeify() {
    // 9 keys in a tree bin; R's own removals and W's removals shrink it until it is untreeified
    explore(&Scenario {
        name: "tree9/untreeify",
        cap: 64,
        init: one_bin(9, |id| id >= 6),
        groups: vec![
            vec![Step::Insert(2, true), Step::RemoveMany(vec![6, 7])],
            vec![Step::Insert(3, true), Step::RemoveMany(vec![8]), Step::Insert(4, false)],
        ],
        same_bin_hash: 5,
        pairs: false,
    });
}

#[test]
fn sched_tree_bin_replace_only() {
    explore(&Scenario {
        name: "tree9/replace-only",
        cap: 64,
        init: one_bin(9, |id| id % 2 == 0),
        groups: vec![
            vec![Step::Compute(2, false), Step::Compute(3, true)],
            vec![Step::Compute(3, false), Step::Compute(8, false), Step::Compute(0, true)],
        ],
        same_bin_hash: 5,
        pairs: false,
    });
}

#[test]
fn sched_treeify_under_retain() {
    // 7 keys in a linear bin of a 128-bin table; W grows the bin past the threshold => treeify
    explore(&Scenario {
        name: "linear7/treeify",
        cap: 64,
        init: one_bin(7, |id| id % 2 == 0),
        groups: vec![
            vec![Step::Compute(1, true), Step::FreshSameBin(100, 3)],
            vec![Step::Compute(3, true), Step::Compute(5, false)],
        ],
        same_bin_hash: 5,
        pairs: false,
    });
}

#[test]
fn sched_resize_during_retain() {
    // 16 bins, 11 entries spread over the bins (several per bin, differing in bit 4 and 5 so
    // that they split), next insert(s) start a resize which W performs completely while R is
    // suspended; R then continues in the old table / through forwarding nodes
    let init: Vec<(u64, u64, bool)> = (0..11u64)
        .map(|id| (id, (id % 4) | ((id / 4) << 4), id % 2 == 0))
        .collect();
    explore(&Scenario {
        name: "resize16/replace",
        cap: 0,
        init,
        groups: vec![
            vec![Step::Compute(1, true), Step::Fresh(1000, 4)],
            vec![Step::Compute(3, true), Step::Compute(5, false), Step::Fresh(2000, 30)],
        ],
        same_bin_hash: 5,
        pairs: false,
    });
}

#[test]
fn sched_resize_replace_only_pairs() {
    let init: Vec<(u64, u64, bool)> = (0..11u64)
        .map(|id| (id, (id % 2) | ((id / 2) << 4), id % 3 != 0))
        .collect();
    explore(&Scenario {
        name: "resize16/pairs",
        cap: 0,
        init,
        groups: vec![
            vec![Step::Fresh(1000, 2), Step::Compute(0, true)],
            vec![Step::Compute(3, true), Step::Compute(6, true), Step::Compute(4, false)],
        ],
        same_bin_hash: 5,
        pairs: true,
    });
}

#[test]
fn sched_clear_then_reinsert() {
    explore(&Scenario {
        name: "linear3/clear+insert",
        cap: 0,
        init: one_bin(3, |_| false),
        groups: vec![vec![Step::Clear, Step::Insert(1, true)], vec![Step::Insert(0, true)]],
        same_bin_hash: 5,
        pairs: true,
    });
}
