// Randomised stress search for C07 (weakly consistent iteration across resizes, tree
// conversions, inserts and removals). Not a deterministic demonstration; see hunt/README.md.
use flurry::HashMap;
use std::hash::{BuildHasher, Hash, Hasher};
use std::sync::atomic::{AtomicBool, AtomicU64, AtomicUsize, Ordering};
use std::sync::Arc;

#[derive(Clone, Debug, PartialEq, Eq, PartialOrd, Ord)]
struct K {
    h: u64,
    id: u64,
}
impl Hash for K {
    fn hash<H: Hasher>(&self, s: &mut H) {
        s.write_u64(self.h)
    }
}
#[derive(Default, Clone)]
struct IdB;
struct IdH(u64);
impl Hasher for IdH {
    fn finish(&self) -> u64 {
        self.0
    }
    fn write(&mut self, _: &[u8]) {
        unreachable!()
    }
    fn write_u64(&mut self, v: u64) {
        self.0 = v
    }
}
impl BuildHasher for IdB {
    type Hasher = IdH;
    fn build_hasher(&self) -> IdH {
        IdH(0)
    }
}

#[derive(Debug, Clone, PartialEq)]
struct V {
    id: u64,
    ver: u64,
}

fn xorshift(s: &mut u64) -> u64 {
    *s ^= *s << 13;
    *s ^= *s >> 7;
    *s ^= *s << 17;
    *s
}

fn env(name: &str, d: u64) -> u64 {
    std::env::var(name).ok().and_then(|s| s.parse().ok()).unwrap_or(d)
}

#[test]
fn stress() {
    let rounds = env("HUNT_ROUNDS", 200);
    let n_iter = env("HUNT_ITERS", 8) as usize;
    let n_mut = env("HUNT_MUTS", 6) as usize;
    let grow = env("HUNT_GROW", 3000);
    let init_cap = env("HUNT_CAP", 0) as usize;

    // stable keys
    let mut stable: Vec<K> = Vec::new();
    let mut id = 0u64;
    for _ in 0..12 {
        stable.push(K { h: 5, id });
        id += 1;
    }
    for j in 0..16 {
        stable.push(K { h: 7 + j * 64, id });
        id += 1;
    }
    for j in 0..16 {
        stable.push(K { h: 9 + j * 1024, id });
        id += 1;
    }
    for j in 0..10 {
        stable.push(K { h: 3 + (j << 13), id });
        id += 1;
    }
    let mut s = 0x9e3779b97f4a7c15u64;
    for _ in 0..150 {
        stable.push(K { h: xorshift(&mut s) & 0xffff, id });
        id += 1;
    }
    let n_stable = id as usize;

    // churn keys per mutator
    let mut churn: Vec<Vec<K>> = Vec::new();
    for m in 0..n_mut {
        let mut v = Vec::new();
        if m == 0 {
            for j in 0..grow {
                v.push(K { h: xorshift(&mut s) & 0xfffff | (j << 24), id });
                id += 1;
            }
        } else {
            for j in 0..10u64 {
                v.push(K { h: 5, id });
                id += 1;
                v.push(K { h: 7 + ((j + 16 * m as u64) * 64), id });
                id += 1;
                v.push(K { h: 9 + ((j + 16 * m as u64) * 1024), id });
                id += 1;
                v.push(K { h: 3 + ((j + 16 * m as u64) << 13), id });
                id += 1;
                v.push(K { h: 7, id });
                id += 1;
                v.push(K { h: 9, id });
                id += 1;
            }
        }
        churn.push(v);
    }
    let n_ids = id as usize;
    let stable = Arc::new(stable);
    let churn = Arc::new(churn);
    let failures = Arc::new(AtomicUsize::new(0));
    let iterations = Arc::new(AtomicUsize::new(0));

    for round in 0..rounds {
        let map: Arc<HashMap<K, V, IdB>> = Arc::new(if init_cap == 0 {
            HashMap::with_hasher(IdB)
        } else {
            HashMap::with_capacity_and_hasher(init_cap, IdB)
        });
        {
            let g = map.guard();
            for k in stable.iter() {
                map.insert(k.clone(), V { id: k.id, ver: 0 }, &g);
            }
        }
        let ended: Arc<Vec<AtomicU64>> = Arc::new((0..n_ids).map(|_| AtomicU64::new(0)).collect());
        let stop = Arc::new(AtomicBool::new(false));
        let mut hs = Vec::new();
        for m in 0..n_mut {
            let map = map.clone();
            let churn = churn.clone();
            let ended = ended.clone();
            let stop = stop.clone();
            hs.push(std::thread::spawn(move || {
                let keys = &churn[m];
                let mut ver = 0u64;
                let mut rs = 0x1234567 + m as u64 * 77 + round * 1315423911;
                if m == 0 {
                    for k in keys.iter() {
                        ver += 1;
                        let g = map.guard();
                        map.insert(k.clone(), V { id: k.id, ver }, &g);
                        if xorshift(&mut rs) % 64 == 0 {
                            std::thread::yield_now();
                        }
                    }
                    for k in keys.iter() {
                        let g = map.guard();
                        map.remove(k, &g);
                        ended[k.id as usize].store(u64::MAX, Ordering::SeqCst);
                    }
                    stop.store(true, Ordering::SeqCst);
                } else {
                    let mut cur = vec![0u64; keys.len()];
                    while !stop.load(Ordering::SeqCst) {
                        let i = (xorshift(&mut rs) % keys.len() as u64) as usize;
                        let k = &keys[i];
                        let g = map.guard();
                        let op = xorshift(&mut rs) % 4;
                        if cur[i] == 0 || op == 0 {
                            ver += 1;
                            map.insert(k.clone(), V { id: k.id, ver }, &g);
                            if cur[i] != 0 {
                                ended[k.id as usize].store(cur[i], Ordering::SeqCst);
                            }
                            cur[i] = ver;
                        } else if op == 1 {
                            ver += 1;
                            let nv = ver;
                            map.compute_if_present(k, |_, _| Some(V { id: k.id, ver: nv }), &g);
                            ended[k.id as usize].store(cur[i], Ordering::SeqCst);
                            cur[i] = ver;
                        } else {
                            map.remove(k, &g);
                            ended[k.id as usize].store(cur[i], Ordering::SeqCst);
                            cur[i] = 0;
                        }
                    }
                }
            }));
        }
        for t in 0..n_iter {
            let map = map.clone();
            let stable = stable.clone();
            let ended = ended.clone();
            let stop = stop.clone();
            let failures = failures.clone();
            let iterations = iterations.clone();
            hs.push(std::thread::spawn(move || {
                let mut rs = 0xabcdef + t as u64 * 31 + round * 2654435761;
                let mut seen = vec![0u32; n_stable];
                let mut snap = vec![0u64; n_ids];
                let pause = 1 + (t as u64 % 4) * 16;
                loop {
                    let done = stop.load(Ordering::SeqCst);
                    for (i, e) in ended.iter().enumerate() {
                        snap[i] = e.load(Ordering::SeqCst);
                    }
                    for x in seen.iter_mut() {
                        *x = 0;
                    }
                    let g = map.guard();
                    let mode = xorshift(&mut rs) % 2;
                    let mut n = 0u64;
                    let mut check = |k: &K, v: Option<&V>| {
                        n += 1;
                        assert!(n < 10_000_000, "iterator does not terminate");
                        if (k.id as usize) < n_stable {
                            seen[k.id as usize] += 1;
                            if let Some(v) = v {
                                if v.id != k.id || v.ver != 0 {
                                    eprintln!("stable key {:?} with value {:?}", k, v);
                                    failures.fetch_add(1, Ordering::SeqCst);
                                }
                            }
                        } else if let Some(v) = v {
                            if v.id != k.id {
                                eprintln!("key {:?} with foreign value {:?}", k, v);
                                failures.fetch_add(1, Ordering::SeqCst);
                            }
                            if snap[k.id as usize] >= v.ver {
                                eprintln!(
                                    "key {:?} value {:?} yielded but version ended {} before the iterator was created",
                                    k, v, snap[k.id as usize]
                                );
                                failures.fetch_add(1, Ordering::SeqCst);
                            }
                        } else if snap[k.id as usize] == u64::MAX {
                            eprintln!("key {:?} yielded but removed for good before creation", k);
                            failures.fetch_add(1, Ordering::SeqCst);
                        }
                        if xorshift(&mut rs) % pause == 0 {
                            std::thread::yield_now();
                        }
                    };
                    if mode == 0 {
                        for (k, v) in map.iter(&g) {
                            check(k, Some(v));
                        }
                    } else {
                        for k in map.keys(&g) {
                            check(k, None);
                        }
                    }
                    drop(g);
                    iterations.fetch_add(1, Ordering::Relaxed);
                    for (i, c) in seen.iter().enumerate() {
                        if *c != 1 {
                            eprintln!(
                                "round {} iter-thread {}: stable key {:?} yielded {} times",
                                round, t, stable[i], c
                            );
                            failures.fetch_add(1, Ordering::SeqCst);
                        }
                    }
                    if done {
                        break;
                    }
                }
            }));
        }
        for h in hs {
            h.join().unwrap();
        }
        assert_eq!(failures.load(Ordering::SeqCst), 0, "violations in round {}", round);
    }
    eprintln!("iterations completed: {}", iterations.load(Ordering::Relaxed));
}
