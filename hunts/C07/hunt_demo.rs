// C07 hunt, demonstration D1 (see hunt/README.md).
//
// A `remove` on a tree bin that decides to convert the bin back to a list unlinks the removed node
// from the bin's `first`/`next` chain *before* it builds the replacement list with `K::clone`.
// If that `clone` unwinds, the tree bin stays in the table with the node still in the red-black
// tree (so `get` / `contains_key` / `len` keep reporting the key) but no longer in the chain the
// iterators walk. Every later iteration -- during which the key is present and untouched --
// silently skips it.
//
//   cargo test --offline --test hunt_demo            (fails on the unmodified code)
use flurry::HashMap;
use std::hash::{BuildHasher, Hash, Hasher};
use std::panic::{catch_unwind, AssertUnwindSafe};
use std::sync::atomic::{AtomicBool, Ordering};

static ARMED: AtomicBool = AtomicBool::new(false);

#[derive(Debug, PartialEq, Eq, PartialOrd, Ord)]
struct K {
    h: u64,
    id: u64,
}
impl Clone for K {
    fn clone(&self) -> Self {
        if ARMED.load(Ordering::SeqCst) {
            panic!("K::clone refuses");
        }
        K { h: self.h, id: self.id }
    }
}
impl Hash for K {
    fn hash<H: Hasher>(&self, s: &mut H) {
        s.write_u64(self.h)
    }
}
#[derive(Default, Clone)]
struct IdB;
struct IdH(u64);
impl Hasher for IdH {
    fn finish(&self) -> u64 {
        self.0
    }
    fn write(&mut self, _: &[u8]) {
        unreachable!()
    }
    fn write_u64(&mut self, v: u64) {
        self.0 = v
    }
}
impl BuildHasher for IdB {
    type Hasher = IdH;
    fn build_hasher(&self) -> IdH {
        IdH(0)
    }
}

#[test]
fn iterator_skips_key_that_get_still_finds() {
    std::panic::set_hook(Box::new(|_| {})); // keep the expected unwinding quiet
    // 64 bins, 12 keys in bin 3 -> a tree bin
    let map: HashMap<K, u64, IdB> = HashMap::with_capacity_and_hasher(40, IdB);
    let keys: Vec<K> = (0..12).map(|j| K { h: 3 + 64 * j, id: j }).collect();
    for k in &keys {
        map.pin().insert(k.clone(), k.id);
    }
    assert_eq!(map.pin().iter().count(), 12);

    // remove keys one by one; `clone` is only ever called by `remove` when it converts the bin
    let mut victim = None;
    let mut removed = 0;
    for k in &keys {
        ARMED.store(true, Ordering::SeqCst);
        let r = catch_unwind(AssertUnwindSafe(|| {
            map.pin().remove(k);
        }));
        ARMED.store(false, Ordering::SeqCst);
        if r.is_err() {
            victim = Some(k);
            break;
        }
        removed += 1;
    }
    let _ = std::panic::take_hook();
    let victim = victim.expect("no removal tried to untreeify");
    eprintln!("{} removals succeeded, then remove({:?}) unwound out of K::clone", removed, victim);

    // the map still contains the key, according to every point query ...
    let m = map.pin();
    assert_eq!(m.get(victim), Some(&victim.id));
    assert!(m.contains_key(victim));
    assert_eq!(m.len(), 12 - removed);
    // ... and nothing touches the map from here on, yet the iterators do not yield it
    let yielded: Vec<u64> = m.keys().map(|k| k.id).collect();
    eprintln!("len() = {}, keys() yields {} keys: {:?}", m.len(), yielded.len(), yielded);
    assert!(
        yielded.contains(&victim.id),
        "key {:?} is present (get -> Some, len counts it) and untouched, but iteration skipped it",
        victim
    );
}
