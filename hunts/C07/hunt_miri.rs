// Small concurrent iteration scenario meant to be run under Miri (UB / data-race / use-after-free
// search on the iterator paths):
//   MIRIFLAGS="-Zmiri-ignore-leaks" cargo +nightly miri test --offline --test hunt_miri
// It also runs natively.
use flurry::HashMap;
use std::hash::{BuildHasher, Hash, Hasher};
use std::sync::atomic::{AtomicBool, Ordering};
use std::sync::Arc;

#[derive(Clone, Debug, PartialEq, Eq, PartialOrd, Ord)]
struct K {
    h: u64,
    id: u64,
}
impl Hash for K {
    fn hash<H: Hasher>(&self, s: &mut H) {
        s.write_u64(self.h)
    }
}
#[derive(Default, Clone)]
struct IdB;
struct IdH(u64);
impl Hasher for IdH {
    fn finish(&self) -> u64 {
        self.0
    }
    fn write(&mut self, _: &[u8]) {
        unreachable!()
    }
    fn write_u64(&mut self, v: u64) {
        self.0 = v
    }
}
impl BuildHasher for IdB {
    type Hasher = IdH;
    fn build_hasher(&self) -> IdH {
        IdH(0)
    }
}

fn scenario(cap: usize, n_stable_cluster: u64, n_fill: u64) {
    let map: Arc<HashMap<K, u64, IdB>> = Arc::new(if cap == 0 {
        HashMap::with_hasher(IdB)
    } else {
        HashMap::with_capacity_and_hasher(cap, IdB)
    });
    let mut stable = Vec::new();
    let mut id = 0;
    // a cluster in bin 3 of a 64-bin table; splits on later resizes
    for j in 0..n_stable_cluster {
        stable.push(K { h: 3 + 64 * j, id });
        id += 1;
    }
    for j in 0..6 {
        stable.push(K { h: 11 + 7 * j, id });
        id += 1;
    }
    {
        let g = map.guard();
        for k in &stable {
            map.insert(k.clone(), k.id, &g);
        }
    }
    let stop = Arc::new(AtomicBool::new(false));
    let w = {
        let map = map.clone();
        let stop = stop.clone();
        let base = id;
        std::thread::spawn(move || {
            // churn in the cluster bin (treeify / untreeify), then grow the table twice
            let mut id = base;
            let mut churn = Vec::new();
            for j in 0..6u64 {
                churn.push(K { h: 3 + 64 * (100 + j), id });
                id += 1;
            }
            for k in &churn {
                map.pin().insert(k.clone(), k.id);
            }
            for k in &churn {
                map.pin().remove(k);
            }
            for j in 0..n_fill {
                let k = K { h: 1000 + j * 5, id };
                id += 1;
                map.pin().insert(k, id);
            }
            for k in &churn {
                map.pin().insert(k.clone(), k.id);
            }
            for k in &churn {
                map.pin().remove(k);
            }
            stop.store(true, Ordering::SeqCst);
        })
    };
    let mut its = Vec::new();
    for _ in 0..2 {
        let map = map.clone();
        let stop = stop.clone();
        let stable = stable.clone();
        its.push(std::thread::spawn(move || loop {
            let done = stop.load(Ordering::SeqCst);
            let g = map.guard();
            let mut seen = vec![0u32; stable.len()];
            for (k, v) in map.iter(&g) {
                if (k.id as usize) < stable.len() {
                    seen[k.id as usize] += 1;
                    assert_eq!(*v, k.id);
                }
                std::thread::yield_now();
            }
            assert!(seen.iter().all(|c| *c == 1), "stable keys seen {:?}", seen);
            if done {
                break;
            }
        }));
    }
    w.join().unwrap();
    for t in its {
        t.join().unwrap();
    }
}

#[test]
fn tree_and_resize() {
    scenario(40, 10, if cfg!(miri) { 80 } else { 400 });
}

#[test]
fn small_table_many_resizes() {
    scenario(1, 4, if cfg!(miri) { 60 } else { 400 });
}
