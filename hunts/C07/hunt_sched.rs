// Deterministic-schedule search for C07 on the real code (needs `--cfg flurry_verif`).
//
// One thread runs at a time. An iterator thread (I) is preempted before every atomic load it
// performs; up to two writer threads (W, W2) are preempted before every atomic store / swap / CAS
// and before every lock acquisition. A seeded random scheduler picks who runs next, so every run
// is reproducible from its seed. After each complete iteration the yielded sequence is judged
// against PROPERTY.txt, using the writers' scripts as ground truth (see hunt/README.md).
//
//   RUSTFLAGS="--cfg flurry_verif" CARGO_TARGET_DIR=target/verif \
//     HUNT_SEED0=0 HUNT_RUNS=20000 cargo test --offline --release --test hunt_sched -- --nocapture
#![cfg(flurry_verif)]

use flurry::verif::{self, Event, Hooks, Kind};
use flurry::HashMap;
use std::cell::Cell;
use std::hash::{BuildHasher, Hash, Hasher};
use std::sync::atomic::{AtomicUsize, Ordering};
use std::sync::{Arc, Condvar, Mutex};

// ---------------------------------------------------------------- key / hasher

#[derive(Clone, Debug, PartialEq, Eq, PartialOrd, Ord)]
struct K {
    h: u64,
    id: u64,
}
impl Hash for K {
    fn hash<H: Hasher>(&self, s: &mut H) {
        s.write_u64(self.h)
    }
}
#[derive(Default, Clone)]
struct IdB;
struct IdH(u64);
impl Hasher for IdH {
    fn finish(&self) -> u64 {
        self.0
    }
    fn write(&mut self, _: &[u8]) {
        unreachable!()
    }
    fn write_u64(&mut self, v: u64) {
        self.0 = v
    }
}
impl BuildHasher for IdB {
    type Hasher = IdH;
    fn build_hasher(&self) -> IdH {
        IdH(0)
    }
}

// ---------------------------------------------------------------- scheduler

const MAXT: usize = 4; // 1 = I, 2 = W, 3 = W2

#[derive(Clone, Copy, PartialEq, Debug)]
enum St {
    Absent,
    NotStarted,
    Ready,
    LockWait(usize),
    Running,
    Done,
}

struct Inner {
    running: usize,
    st: [St; MAXT],
}
struct Sched {
    m: Mutex<Inner>,
    cv: Condvar,
}
static SCHED: Sched = Sched {
    m: Mutex::new(Inner {
        running: 0,
        st: [St::Absent; MAXT],
    }),
    cv: Condvar::new(),
};

thread_local! {
    static ME: Cell<usize> = const { Cell::new(0) };
}

fn pause(me: usize, st: St) {
    let mut g = SCHED.m.lock().unwrap();
    g.st[me] = st;
    g.running = 0;
    SCHED.cv.notify_all();
    while g.running != me {
        g = SCHED.cv.wait(g).unwrap();
    }
    g.st[me] = St::Running;
}

fn finish(me: usize) {
    let mut g = SCHED.m.lock().unwrap();
    g.st[me] = St::Done;
    g.running = 0;
    SCHED.cv.notify_all();
}

fn step(t: usize) -> St {
    let mut g = SCHED.m.lock().unwrap();
    g.running = t;
    SCHED.cv.notify_all();
    while g.running != 0 {
        g = SCHED.cv.wait(g).unwrap();
    }
    g.st[t]
}

struct H;
impl Hooks for H {
    fn event(&self, e: &Event) {
        let me = ME.with(|m| m.get());
        if me == 0 {
            return;
        }
        let is_iter = me == 1;
        match e.kind {
            Kind::Load if is_iter => pause(me, St::Ready),
            Kind::Store | Kind::Swap | Kind::Cas if !is_iter => pause(me, St::Ready),
            Kind::Spin | Kind::BeforePark => pause(me, St::Ready),
            Kind::BeforeLock => {
                while unsafe { verif::mutex_is_locked(e.addr) } {
                    pause(me, St::LockWait(e.addr));
                }
            }
            _ => {}
        }
    }
}
static HOOKS: H = H;

// ---------------------------------------------------------------- rng

struct Rng(u64);
impl Rng {
    fn new(seed: u64) -> Self {
        let mut r = Rng(seed.wrapping_mul(0x9E3779B97F4A7C15) ^ 0xD1B54A32D192ED03);
        for _ in 0..4 {
            r.next();
        }
        r
    }
    fn next(&mut self) -> u64 {
        let mut x = self.0;
        if x == 0 {
            x = 0x1234567;
        }
        x ^= x << 13;
        x ^= x >> 7;
        x ^= x << 17;
        self.0 = x;
        x.wrapping_mul(0x2545F4914F6CDD1D)
    }
    fn below(&mut self, n: u64) -> u64 {
        (self.next() >> 11) % n
    }
    fn pick<T: Copy>(&mut self, v: &[T]) -> T {
        v[self.below(v.len() as u64) as usize]
    }
    fn chance(&mut self, num: u64, den: u64) -> bool {
        self.below(den) < num
    }
}

// ---------------------------------------------------------------- scripts and oracle

#[derive(Clone, Debug)]
enum Op {
    Insert(usize, u64),
    Remove(usize),
    Compute(usize, u64),
    ComputeRemove(usize),
    Reserve(usize),
    Clear,
}

#[derive(Clone, Copy, Debug, PartialEq)]
enum Eff {
    Set(u64),
    Unset,
    Touch,
}

struct Scenario {
    cap: usize,
    keys: Vec<K>,
    initial: Vec<bool>,
    scripts: [Vec<Op>; MAXT],
    // per key: the worker whose script touches it (0 = nobody) and (op index, effect)
    tl_worker: Vec<usize>,
    tl: Vec<Vec<(usize, Eff)>>,
    desc: String,
}

fn val(kidx: usize, ver: u64) -> u64 {
    ((kidx as u64) << 32) | ver
}

fn gen(seed: u64) -> Scenario {
    let mut r = Rng::new(seed);
    let profile = r.below(6);
    let (cap, hashes): (usize, Vec<u64>) = match profile {
        0 => {
            let cap = r.pick(&[1usize, 2, 5]);
            let n = 12 + r.below(40);
            (cap, (0..n).map(|_| r.below(256)).collect())
        }
        1 => {
            let n = 12 + r.below(50);
            (0, (0..n).map(|_| r.below(1024)).collect())
        }
        2 | 3 => {
            // clusters in a 64-bin table
            let c = r.pick(&[3u64, 17, 63, 0]);
            let n = 24 + r.below(30);
            let same = r.below(3);
            (
                40,
                (0..n)
                    .map(|j| match r.below(10) {
                        0..=5 => c + 64 * r.below(if profile == 2 { 4 } else { 32 }),
                        6 | 7 if same > 0 => c,
                        8 => c + 1 + 64 * r.below(8),
                        _ => r.below(4096) + j,
                    })
                    .collect(),
            )
        }
        4 => {
            let c = r.pick(&[5u64, 255]);
            let n = 24 + r.below(30);
            (
                100,
                (0..n)
                    .map(|_| match r.below(10) {
                        0..=6 => c + 256 * r.below(16),
                        7 => c,
                        _ => r.below(4096),
                    })
                    .collect(),
            )
        }
        _ => {
            // identical hashes: bins never split
            let n = 14 + r.below(20);
            let cap = r.pick(&[0usize, 40]);
            (cap, (0..n).map(|_| if r.chance(4, 5) { 9 } else { 9 + 16 * r.below(8) }).collect())
        }
    };
    let keys: Vec<K> = hashes
        .iter()
        .enumerate()
        .map(|(i, h)| K { h: *h, id: i as u64 })
        .collect();
    let nk = keys.len();
    let two_writers = r.chance(1, 2);
    let with_clear = !two_writers && r.chance(1, 4);
    let mut owner = vec![0usize; nk];
    let mut initial = vec![false; nk];
    for i in 0..nk {
        owner[i] = match r.below(3) {
            0 => 0,
            1 => 2,
            _ => {
                if two_writers {
                    3
                } else {
                    2
                }
            }
        };
        initial[i] = owner[i] == 0 || r.chance(6, 10);
    }
    let mut scripts: [Vec<Op>; MAXT] = Default::default();
    let mut ver = 1u64;
    for w in [2usize, 3] {
        if w == 3 && !two_writers {
            continue;
        }
        let mine: Vec<usize> = (0..nk).filter(|i| owner[*i] == w).collect();
        if mine.is_empty() {
            continue;
        }
        let len = 4 + r.below(if w == 2 { 40 } else { 20 });
        for _ in 0..len {
            let k = r.pick(&mine);
            let op = match r.below(100) {
                0..=44 => {
                    ver += 1;
                    Op::Insert(k, ver)
                }
                45..=69 => Op::Remove(k),
                70..=74 => {
                    ver += 1;
                    Op::Compute(k, ver)
                }
                75..=79 => Op::ComputeRemove(k),
                80..=94 => Op::Reserve(r.pick(&[4usize, 16, 50, 120, 250])),
                _ => {
                    if with_clear && w == 2 {
                        Op::Clear
                    } else {
                        Op::Remove(k)
                    }
                }
            };
            scripts[w].push(op);
        }
    }
    // timelines
    let mut tl_worker = owner.clone();
    let mut tl: Vec<Vec<(usize, Eff)>> = vec![Vec::new(); nk];
    let mut state: Vec<bool> = initial.clone();
    for w in [2usize, 3] {
        for (oi, op) in scripts[w].iter().enumerate() {
            match *op {
                Op::Insert(k, v) => {
                    tl[k].push((oi, Eff::Set(v)));
                    state[k] = true;
                }
                Op::Remove(k) | Op::ComputeRemove(k) => {
                    tl[k].push((oi, if state[k] { Eff::Unset } else { Eff::Touch }));
                    state[k] = false;
                }
                Op::Compute(k, v) => {
                    tl[k].push((oi, if state[k] { Eff::Set(v) } else { Eff::Touch }));
                }
                Op::Reserve(_) => {}
                Op::Clear => {
                    for k in 0..nk {
                        tl[k].push((oi, if state[k] { Eff::Unset } else { Eff::Touch }));
                        state[k] = false;
                        if tl_worker[k] == 0 {
                            tl_worker[k] = 2;
                        }
                    }
                }
            }
        }
    }
    let desc = format!(
        "profile {} cap {} keys {} two_writers {} clear {}",
        profile, cap, nk, two_writers, with_clear
    );
    Scenario {
        cap,
        keys,
        initial,
        scripts,
        tl_worker,
        tl,
        desc,
    }
}

struct IterRecord {
    kind: u64,
    d: [usize; MAXT],
    s_end: [usize; MAXT],
    // (key idx, value if any, started counters at yield)
    yields: Vec<(usize, Option<u64>, [usize; MAXT])>,
    terminated: bool,
    len0: usize,
    len1: usize,
}

fn judge(sc: &Scenario, rec: &IterRecord, out: &mut Vec<String>) {
    if !rec.terminated {
        out.push(format!("iterator (kind {}) did not terminate after {} yields", rec.kind, rec.yields.len()));
        return;
    }
    let nk = sc.keys.len();
    let mut count = vec![0usize; nk];
    for (k, v, s_now) in rec.yields.iter() {
        count[*k] += 1;
        let w = sc.tl_worker[*k];
        if let Some(v) = v {
            if (v >> 32) as usize != *k {
                out.push(format!("key {:?} yielded with value of key index {}", sc.keys[*k], v >> 32));
                continue;
            }
            let ver = v & 0xffff_ffff;
            // creating op of this pair and the op that ended it
            let (ci, mut pos): (isize, usize) = if ver == 0 {
                if !sc.initial[*k] {
                    out.push(format!("key {:?} yielded with version 0 but was not initially present", sc.keys[*k]));
                    continue;
                }
                (-1, 0)
            } else {
                match sc.tl[*k].iter().position(|(_, e)| *e == Eff::Set(ver)) {
                    Some(p) => (sc.tl[*k][p].0 as isize, p + 1),
                    None => {
                        out.push(format!("key {:?} yielded with unknown version {}", sc.keys[*k], ver));
                        continue;
                    }
                }
            };
            if ci >= 0 && (ci as usize) >= s_now[w] {
                out.push(format!("key {:?} ver {} yielded before its insert started", sc.keys[*k], ver));
            }
            let mut end: Option<usize> = None;
            while pos < sc.tl[*k].len() {
                if sc.tl[*k][pos].1 != Eff::Touch {
                    end = Some(sc.tl[*k][pos].0);
                    break;
                }
                pos += 1;
            }
            if let Some(ei) = end {
                if ei < rec.d[w] {
                    out.push(format!(
                        "PHANTOM: pair ({:?}, ver {}) yielded, but it was replaced/removed by {}'s op #{} which completed before the iterator was created (ops done at creation: {})",
                        sc.keys[*k], ver, w, ei, rec.d[w]
                    ));
                }
            }
        } else {
            // keys(): the key must have been present at some moment in the window
            // state at creation, or any Set op overlapping the window
            let mut present = sc.initial[*k];
            let mut ok = false;
            for (oi, e) in sc.tl[*k].iter() {
                if *oi < rec.d[w] {
                    match e {
                        Eff::Set(_) => present = true,
                        Eff::Unset => present = false,
                        Eff::Touch => {}
                    }
                } else if *oi < s_now[w] {
                    if let Eff::Set(_) = e {
                        ok = true;
                    }
                }
            }
            // `present` is the state after all ops that completed before creation; an op that
            // removed it may have been in flight at creation, which still means it was present
            if !(present || ok) {
                out.push(format!(
                    "PHANTOM KEY: {:?} yielded by keys() but absent for the whole window",
                    sc.keys[*k]
                ));
            }
        }
    }
    for k in 0..nk {
        let w = sc.tl_worker[k];
        let mut present = sc.initial[k];
        let mut value = 0u64;
        let mut touched = false;
        for (oi, e) in sc.tl[k].iter() {
            if *oi < rec.d[w] {
                match e {
                    Eff::Set(v) => {
                        present = true;
                        value = *v;
                    }
                    Eff::Unset => present = false,
                    Eff::Touch => {}
                }
            } else if *oi < rec.s_end[w] {
                touched = true;
            }
        }
        if touched {
            continue;
        }
        if present && count[k] != 1 {
            out.push(format!(
                "EXACTLY-ONCE: key {:?} present (ver {}) and untouched during the whole iteration was yielded {} times (kind {}, d {:?}, s_end {:?})",
                sc.keys[k], value, count[k], rec.kind, rec.d, rec.s_end
            ));
        }
        if !present && count[k] != 0 {
            out.push(format!(
                "ABSENT key {:?} (untouched during the iteration) was yielded {} times",
                sc.keys[k], count[k]
            ));
        }
        if present && count[k] == 1 {
            for (kk, v, _) in rec.yields.iter() {
                if *kk == k {
                    if let Some(v) = v {
                        if *v != val(k, value) {
                            out.push(format!(
                                "VALUE: untouched key {:?} yielded with ver {} instead of {}",
                                sc.keys[k],
                                v & 0xffff_ffff,
                                value
                            ));
                        }
                    }
                }
            }
        }
    }
}

fn run(seed: u64, verbose: bool) -> (Vec<String>, u64, usize) {
    let sc = Arc::new(gen(seed));
    let mut r = Rng::new(seed ^ 0xABCDEF0123);
    let map: Arc<HashMap<K, u64, IdB>> = Arc::new(if sc.cap == 0 {
        HashMap::with_hasher(IdB)
    } else {
        HashMap::with_capacity_and_hasher(sc.cap, IdB)
    });
    {
        let g = map.guard();
        for (i, k) in sc.keys.iter().enumerate() {
            if sc.initial[i] {
                map.insert(k.clone(), val(i, 0), &g);
            }
        }
    }
    let started: Arc<[AtomicUsize; MAXT]> = Arc::new(Default::default());
    let done: Arc<[AtomicUsize; MAXT]> = Arc::new(Default::default());
    let records: Arc<Mutex<Vec<IterRecord>>> = Arc::new(Mutex::new(Vec::new()));
    let panics: Arc<Mutex<Vec<String>>> = Arc::new(Mutex::new(Vec::new()));

    {
        let mut g = SCHED.m.lock().unwrap();
        g.running = 0;
        g.st = [St::Absent; MAXT];
        g.st[1] = St::NotStarted;
        for w in [2usize, 3] {
            if !sc.scripts[w].is_empty() {
                g.st[w] = St::NotStarted;
            }
        }
    }

    let mut handles = Vec::new();
    let totals = [0, 0, sc.scripts[2].len(), sc.scripts[3].len()];
    let max_iters = 1 + r.below(6) as usize;
    let yield_limit = 20 * (sc.keys.len() + 20);
    {
        // iterator thread
        let (map, sc, started, done, records, panics) =
            (map.clone(), sc.clone(), started.clone(), done.clone(), records.clone(), panics.clone());
        let kinds: Vec<u64> = (0..64).map(|_| r.below(3)).collect();
        handles.push(std::thread::spawn(move || {
            ME.with(|m| m.set(1));
            pause(1, St::Ready);
            let res = std::panic::catch_unwind(std::panic::AssertUnwindSafe(|| {
                let mut n = 0usize;
                loop {
                    let kind = kinds[n % kinds.len()];
                    let mut d = [0usize; MAXT];
                    for w in [2usize, 3] {
                        d[w] = done[w].load(Ordering::SeqCst);
                    }
                    let quiescent = d[2] == totals[2] && d[3] == totals[3];
                    let mut rec = IterRecord {
                        kind,
                        d,
                        s_end: [0; MAXT],
                        yields: Vec::new(),
                        terminated: false,
                        len0: 0,
                        len1: 0,
                    };
                    let idx_of = |k: &K| k.id as usize;
                    let snap = |started: &[AtomicUsize; MAXT]| {
                        let mut s = [0usize; MAXT];
                        for w in [2usize, 3] {
                            s[w] = started[w].load(Ordering::SeqCst);
                        }
                        s
                    };
                    {
                        let g = map.guard();
                        rec.len0 = map.verif_snapshot(&g).table.map(|t| t.len).unwrap_or(0);
                        match kind {
                            0 => {
                                let mut it = map.iter(&g);
                                while rec.yields.len() < yield_limit {
                                    match it.next() {
                                        Some((k, v)) => rec.yields.push((idx_of(k), Some(*v), snap(&started))),
                                        None => {
                                            rec.terminated = true;
                                            break;
                                        }
                                    }
                                }
                            }
                            1 => {
                                let mut it = map.keys(&g);
                                while rec.yields.len() < yield_limit {
                                    match it.next() {
                                        Some(k) => rec.yields.push((idx_of(k), None, snap(&started))),
                                        None => {
                                            rec.terminated = true;
                                            break;
                                        }
                                    }
                                }
                            }
                            _ => {
                                let mut it = map.values(&g);
                                while rec.yields.len() < yield_limit {
                                    match it.next() {
                                        Some(v) => rec.yields.push(((*v >> 32) as usize, Some(*v), snap(&started))),
                                        None => {
                                            rec.terminated = true;
                                            break;
                                        }
                                    }
                                }
                            }
                        }
                    }
                    rec.s_end = snap(&started);
                    {
                        let g = map.guard();
                        rec.len1 = map.verif_snapshot(&g).table.map(|t| t.len).unwrap_or(0);
                    }
                    let bad = !rec.terminated;
                    records.lock().unwrap().push(rec);
                    n += 1;
                    if bad || quiescent {
                        break;
                    }
                    if n >= max_iters {
                        // let the writers finish, then do one last (quiescent) iteration
                        while done[2].load(Ordering::SeqCst) != totals[2] || done[3].load(Ordering::SeqCst) != totals[3] {
                            pause(1, St::Ready);
                        }
                    }
                }
            }));
            if let Err(e) = res {
                let msg = e
                    .downcast_ref::<String>()
                    .cloned()
                    .or_else(|| e.downcast_ref::<&str>().map(|s| s.to_string()))
                    .unwrap_or_else(|| "?".into());
                panics.lock().unwrap().push(format!("iterator thread panicked: {}", msg));
            }
            let _ = &sc;
            ME.with(|m| m.set(0));
            finish(1);
        }));
    }
    for w in [2usize, 3] {
        if sc.scripts[w].is_empty() {
            continue;
        }
        let (map, sc, started, done, panics) = (map.clone(), sc.clone(), started.clone(), done.clone(), panics.clone());
        handles.push(std::thread::spawn(move || {
            ME.with(|m| m.set(w));
            pause(w, St::Ready);
            let res = std::panic::catch_unwind(std::panic::AssertUnwindSafe(|| {
                for op in sc.scripts[w].iter() {
                    started[w].fetch_add(1, Ordering::SeqCst);
                    {
                        let g = map.guard();
                        match *op {
                            Op::Insert(k, v) => {
                                map.insert(sc.keys[k].clone(), val(k, v), &g);
                            }
                            Op::Remove(k) => {
                                map.remove(&sc.keys[k], &g);
                            }
                            Op::Compute(k, v) => {
                                map.compute_if_present(&sc.keys[k], |_, _| Some(val(k, v)), &g);
                            }
                            Op::ComputeRemove(k) => {
                                map.compute_if_present(&sc.keys[k], |_, _| None, &g);
                            }
                            Op::Reserve(n) => map.reserve(n, &g),
                            Op::Clear => map.clear(&g),
                        }
                    }
                    done[w].fetch_add(1, Ordering::SeqCst);
                }
            }));
            if let Err(e) = res {
                let msg = e
                    .downcast_ref::<String>()
                    .cloned()
                    .or_else(|| e.downcast_ref::<&str>().map(|s| s.to_string()))
                    .unwrap_or_else(|| "?".into());
                panics.lock().unwrap().push(format!("writer {} panicked: {}", w, msg));
            }
            ME.with(|m| m.set(0));
            finish(w);
        }));
    }

    // wait for everybody to arrive
    {
        let mut g = SCHED.m.lock().unwrap();
        while g.st.iter().any(|s| *s == St::NotStarted) {
            g = SCHED.cv.wait(g).unwrap();
        }
    }

    let weights = [0u64, r.pick(&[1u64, 2, 5, 20]), r.pick(&[1u64, 2, 5, 20]), r.pick(&[1u64, 2, 5, 20])];
    let burst = r.pick(&[1u64, 1, 3, 10, 40]);
    let mut steps = 0u64;
    let mut fail: Vec<String> = Vec::new();
    loop {
        let st = { SCHED.m.lock().unwrap().st };
        let mut cand: Vec<usize> = Vec::new();
        let mut all_done = true;
        let mut writers_done = true;
        for t in 1..MAXT {
            match st[t] {
                St::Ready => {
                    cand.push(t);
                    all_done = false;
                }
                St::LockWait(a) => {
                    all_done = false;
                    if !unsafe { verif::mutex_is_locked(a) } {
                        cand.push(t);
                    }
                }
                St::Done | St::Absent => {}
                other => panic!("unexpected state {:?}", other),
            }
            if t >= 2 && !matches!(st[t], St::Done | St::Absent) {
                writers_done = false;
            }
        }
        let _ = writers_done;
        if all_done {
            break;
        }
        if cand.is_empty() {
            fail.push(format!("DEADLOCK: states {:?}", st));
            break;
        }
        let total: u64 = cand.iter().map(|t| weights[*t]).sum();
        let mut x = r.below(total);
        let mut t = cand[0];
        for c in cand.iter() {
            if x < weights[*c] {
                t = *c;
                break;
            }
            x -= weights[*c];
        }
        let b = 1 + r.below(burst);
        for _ in 0..b {
            steps += 1;
            if step(t) != St::Ready {
                break;
            }
        }
        if steps > 3_000_000 {
            fail.push("STEP LIMIT".into());
            break;
        }
    }
    if fail.is_empty() {
        for h in handles {
            h.join().unwrap();
        }
    } else {
        // leave the threads behind; the process is about to fail anyway
        std::mem::forget(handles);
        return (fail, steps, 0);
    }
    fail.extend(panics.lock().unwrap().drain(..));
    let recs = records.lock().unwrap();
    for rec in recs.iter() {
        judge(&sc, rec, &mut fail);
    }
    if verbose || !fail.is_empty() {
        eprintln!("seed {}: {} ; steps {} ; iterations {}", seed, sc.desc, steps, recs.len());
        if !fail.is_empty() {
            eprintln!("  keys: {:?}", sc.keys);
            eprintln!("  initial: {:?}", sc.initial);
            eprintln!("  W: {:?}", sc.scripts[2]);
            eprintln!("  W2: {:?}", sc.scripts[3]);
            for rec in recs.iter() {
                eprintln!(
                    "  iteration kind {} d {:?} s_end {:?} yields {:?}",
                    rec.kind,
                    rec.d,
                    rec.s_end,
                    rec.yields.iter().map(|(k, v, _)| (*k, v.map(|v| v & 0xffff_ffff))).collect::<Vec<_>>()
                );
            }
        }
    }
    let n = recs.len();
    for rec in recs.iter() {
        let mut f = 0;
        let mut x = rec.len0;
        while x < rec.len1 {
            x *= 2;
            f += 1;
        }
        SPAN[f.min(7)].fetch_add(1, Ordering::Relaxed);
    }
    (fail, steps, n)
}

static SPAN: [AtomicUsize; 8] = [
    AtomicUsize::new(0),
    AtomicUsize::new(0),
    AtomicUsize::new(0),
    AtomicUsize::new(0),
    AtomicUsize::new(0),
    AtomicUsize::new(0),
    AtomicUsize::new(0),
    AtomicUsize::new(0),
];

fn env(name: &str, d: u64) -> u64 {
    std::env::var(name).ok().and_then(|s| s.parse().ok()).unwrap_or(d)
}

#[test]
fn sched_search() {
    verif::install(&HOOKS);
    let seed0 = env("HUNT_SEED0", 0);
    let runs = env("HUNT_RUNS", 300);
    let verbose = env("HUNT_VERBOSE", 0) != 0;
    let mut total_steps = 0;
    let mut total_iters = 0;
    let mut bad = 0;
    for seed in seed0..seed0 + runs {
        let (fail, steps, n) = run(seed, verbose);
        total_steps += steps;
        total_iters += n;
        if !fail.is_empty() {
            bad += 1;
            for f in fail.iter().take(20) {
                eprintln!("seed {}: {}", seed, f);
            }
            if fail.iter().any(|f| f.starts_with("DEADLOCK") || f.starts_with("STEP")) {
                break;
            }
        }
    }
    eprintln!(
        "seeds {}..{}: {} failing; {} scheduler steps; {} complete iterations judged",
        seed0,
        seed0 + runs,
        bad,
        total_steps,
        total_iters
    );
    eprintln!(
        "iterations by number of table doublings between creation and end: {:?}",
        SPAN.iter().map(|a| a.load(Ordering::Relaxed)).collect::<Vec<_>>()
    );
    assert_eq!(bad, 0);
}
