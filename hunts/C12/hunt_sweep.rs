//! C12 hunt: exhaustive "suspend the writer at its k-th atomic access / lock / allocation, then run
//! every read operation on another thread in isolation" sweep.
//!
//! Build/run:
//!   RUSTFLAGS="--cfg flurry_verif" CARGO_TARGET_DIR=target/verif \
//!     cargo test --offline --release --test hunt_sweep -- --nocapture --test-threads=1
//!
//! For every scenario (a prepared map + one writer-side operation sequence) and every k the harness
//!   1. rebuilds the map,
//!   2. starts a reader thread that creates an iterator *before* the writer runs and advances it
//!      by one element (so that "old" iterators are covered as well),
//!   3. runs the writer on its own thread and blocks it inside the verif hook that precedes its
//!      k-th event (event = atomic load/store/cas/swap, allocation, deref, retire, lock, park, spin),
//!   4. lets the reader run the whole read battery (get / get_key_value / contains_key / iter /
//!      keys / values / len / is_empty / == in both directions / the pin() variants / draining the
//!      old iterator) while the writer stays suspended,
//!   5. fails if the reader does not finish within READ_TIMEOUT, panics, emits a BeforeLock /
//!      BeforePark / Spin event (i.e. takes a bin lock, parks or busy-waits), or needs more than
//!      STEP_BOUND events.
//! Besides the C12 verdict, it also records "consistency" observations (a key that is in the map
//! for the whole run is missed by get or by an iterator, or is produced twice by an iterator).
#![cfg(flurry_verif)]

use flurry::verif::{self, Event, Hooks, Kind};
use flurry::HashMap;
use std::cell::{Cell, RefCell};
use std::collections::BTreeMap;
use std::hash::{BuildHasher, Hash, Hasher};
use std::panic::{catch_unwind, AssertUnwindSafe};
use std::sync::atomic::{AtomicBool, Ordering::SeqCst};
use std::sync::{mpsc, Arc, Condvar, Mutex};
use std::time::Duration;

const READ_TIMEOUT: Duration = Duration::from_secs(20);
const STEP_BOUND: usize = 200_000;
const ITER_CAP: usize = 100_000;

// ---------------------------------------------------------------------------------------------
// key type with a fully controlled hash
// ---------------------------------------------------------------------------------------------
#[derive(Clone, Debug, PartialEq, Eq, PartialOrd, Ord)]
struct Key {
    h: u64,
    id: u64,
}
impl Hash for Key {
    fn hash<H: Hasher>(&self, s: &mut H) {
        s.write_u64(self.h)
    }
}
fn k(h: u64, id: u64) -> Key {
    Key { h, id }
}
#[derive(Default)]
struct IdHasher(u64);
impl Hasher for IdHasher {
    fn finish(&self) -> u64 {
        self.0
    }
    fn write(&mut self, _: &[u8]) {
        unreachable!()
    }
    fn write_u64(&mut self, v: u64) {
        self.0 = v
    }
}
#[derive(Clone, Default)]
struct IdBuild;
impl BuildHasher for IdBuild {
    type Hasher = IdHasher;
    fn build_hasher(&self) -> IdHasher {
        IdHasher(0)
    }
}
type Map = HashMap<Key, u64, IdBuild>;

// ---------------------------------------------------------------------------------------------
// hooks
// ---------------------------------------------------------------------------------------------
thread_local! {
    /// 0 = not observed, 1 = suspendee, 2 = observed reader, 3 = background writer (park watcher)
    static ROLE: Cell<u8> = const { Cell::new(0) };
    static RSTEPS: Cell<usize> = const { Cell::new(0) };
    static RBAD: RefCell<Vec<String>> = const { RefCell::new(Vec::new()) };
}

struct GateState {
    target: usize,
    count: usize,
    suspended: Option<String>,
    release: bool,
    done: bool,
}
struct Gate {
    st: Mutex<GateState>,
    cv: Condvar,
}
static GATE: Gate = Gate {
    st: Mutex::new(GateState {
        target: usize::MAX,
        count: 0,
        suspended: None,
        release: false,
        done: false,
    }),
    cv: Condvar::new(),
};
static BG_PARKED: AtomicBool = AtomicBool::new(false);
static BG_EVENTS: std::sync::atomic::AtomicUsize = std::sync::atomic::AtomicUsize::new(0);

struct H;
impl Hooks for H {
    fn event(&self, e: &Event) {
        match ROLE.with(|r| r.get()) {
            1 => {
                let mut st = GATE.st.lock().unwrap();
                let n = st.count;
                st.count += 1;
                if n == st.target {
                    st.suspended = Some(format!(
                        "{:?} {} a={:#x} b={:#x} at {}:{}",
                        e.kind,
                        e.what,
                        e.a,
                        e.b,
                        e.loc.file(),
                        e.loc.line()
                    ));
                    GATE.cv.notify_all();
                    while !st.release {
                        st = GATE.cv.wait(st).unwrap();
                    }
                }
            }
            2 => {
                RSTEPS.with(|s| s.set(s.get() + 1));
                if matches!(e.kind, Kind::BeforeLock | Kind::BeforePark | Kind::Spin) {
                    RBAD.with(|b| {
                        b.borrow_mut().push(format!(
                            "{:?} at {}:{}",
                            e.kind,
                            e.loc.file(),
                            e.loc.line()
                        ))
                    });
                }
            }
            3 => {
                BG_EVENTS.fetch_add(1, SeqCst);
                if e.kind == Kind::BeforePark {
                    BG_PARKED.store(true, SeqCst);
                }
            }
            _ => {}
        }
    }
}
static HOOKS: H = H;
static SERIAL: Mutex<()> = Mutex::new(());

fn gate_reset(target: usize) {
    let mut st = GATE.st.lock().unwrap();
    st.target = target;
    st.count = 0;
    st.suspended = None;
    st.release = false;
    st.done = false;
}

// ---------------------------------------------------------------------------------------------
// scenarios
// ---------------------------------------------------------------------------------------------
struct Info {
    /// in the map before, during and after the writer's operation
    stable: Vec<Key>,
    /// touched by the writer (inserted / removed), may or may not be visible
    volatile: Vec<Key>,
    /// never in the map
    absent: Vec<Key>,
}
struct Scenario {
    name: &'static str,
    setup: fn() -> (Map, Info),
    op: fn(&Map),
    /// a second, free-running writer that is started once the first one is suspended; it runs
    /// until it finishes or blocks (on a bin mutex held by the suspended writer); only then do
    /// the reads start
    second: Option<fn(&Map)>,
}

fn mk(cap: usize) -> Map {
    if cap == 0 {
        HashMap::with_hasher(IdBuild)
    } else {
        HashMap::with_capacity_and_hasher(cap, IdBuild)
    }
}
fn fill(m: &Map, keys: &[Key]) {
    let g = m.guard();
    for key in keys {
        m.insert(key.clone(), key.id * 10 + 1, &g);
    }
}
fn absent() -> Vec<Key> {
    vec![k(5, 9999), k(3, 9999), k(69, 9999), k(2, 9999), k(1000, 1)]
}

// ---- list bins, 16-bin table --------------------------------------------------------------
fn list_base() -> (Map, Vec<Key>) {
    let m = mk(10); // 16 bins
    let keys = vec![k(3, 0), k(19, 1), k(35, 2), k(51, 3), k(67, 4), k(4, 5), k(20, 6), k(9, 7)];
    fill(&m, &keys);
    (m, keys)
}
fn s_list_insert() -> (Map, Info) {
    let (m, keys) = list_base();
    (m, Info { stable: keys, volatile: vec![k(83, 20), k(7, 21), k(3, 22)], absent: absent() })
}
fn op_list_insert(m: &Map) {
    let g = m.guard();
    m.insert(k(83, 20), 1, &g); // append to bin 3
    m.insert(k(7, 21), 1, &g); // empty bin
    m.insert(k(3, 22), 1, &g); // same hash as head, different key
    m.insert(k(19, 1), 777, &g); // replace
    let _ = m.try_insert(k(3, 0), 5, &g); // exists, head fast path
    let _ = m.try_insert(k(35, 2), 5, &g); // exists, inside
}
fn s_list_remove() -> (Map, Info) {
    let (m, keys) = list_base();
    let stable = vec![k(4, 5), k(20, 6), k(9, 7)];
    let volatile = keys.iter().filter(|x| !stable.contains(x)).cloned().collect();
    (m, Info { stable, volatile, absent: absent() })
}
fn op_list_remove(m: &Map) {
    let g = m.guard();
    m.remove(&k(35, 2), &g); // middle
    m.remove(&k(3, 0), &g); // head
    m.remove(&k(67, 4), &g); // tail
    m.remove(&k(3, 12345), &g); // absent
    m.remove(&k(19, 1), &g);
    m.remove(&k(51, 3), &g); // last one: bin becomes empty
}
fn op_list_compute(m: &Map) {
    let g = m.guard();
    m.compute_if_present(&k(35, 2), |_, v| Some(v + 1), &g);
    m.compute_if_present(&k(35, 2), |_, _| None, &g);
    m.compute_if_present(&k(3, 0), |_, _| None, &g);
    m.compute_if_present(&k(67, 4), |_, _| None, &g);
    m.compute_if_present(&k(19, 1), |_, _| None, &g);
    m.compute_if_present(&k(51, 3), |_, _| None, &g);
}
fn s_list_all_volatile() -> (Map, Info) {
    let (m, keys) = list_base();
    (m, Info { stable: vec![], volatile: keys, absent: absent() })
}
fn op_clear(m: &Map) {
    let g = m.guard();
    m.clear(&g);
}
fn s_list_retain() -> (Map, Info) {
    let (m, keys) = list_base();
    let stable = keys.iter().filter(|x| x.id % 2 == 0).cloned().collect();
    let volatile = keys.iter().filter(|x| x.id % 2 != 0).cloned().collect();
    (m, Info { stable, volatile, absent: absent() })
}
fn op_retain(m: &Map) {
    let g = m.guard();
    m.retain(|key, _| key.id % 2 == 0, &g);
}
fn s_list_resize() -> (Map, Info) {
    let (m, mut keys) = list_base();
    let more = vec![k(1, 30), k(17, 31), k(33, 32)];
    fill(&m, &more);
    keys.extend(more);
    (m, Info { stable: keys, volatile: vec![k(12, 40)], absent: absent() })
}
fn op_reserve(m: &Map) {
    let g = m.guard();
    m.reserve(30, &g); // 16 -> 32 -> 64 -> 128
}
fn op_insert_resize(m: &Map) {
    let g = m.guard();
    m.insert(k(12, 40), 1, &g); // 12th element in a 16-bin table: add_count starts the resize
}
fn s_init() -> (Map, Info) {
    (mk(0), Info { stable: vec![], volatile: vec![k(3, 0), k(4, 1)], absent: absent() })
}
fn op_init(m: &Map) {
    let g = m.guard();
    m.insert(k(3, 0), 1, &g);
    m.insert(k(4, 1), 1, &g);
}

// ---- tree bins, 64-bin table --------------------------------------------------------------
fn same_hash_keys(n: u64) -> Vec<Key> {
    (0..n).map(|i| k(5, i * 10)).collect()
}
fn mixed_hash_keys(n: u64) -> Vec<Key> {
    // all in bin 5 of a 64-bin table, alternating between bins 5 and 69 of a 128-bin table and
    // spread over more bins in larger ones
    (0..n).map(|i| k(5 + 64 * (i % 4), i * 10)).collect()
}
fn side() -> Vec<Key> {
    vec![k(6, 500), k(70, 501), k(9, 502)]
}
fn s_treeify() -> (Map, Info) {
    let m = mk(42); // 64 bins
    let mut keys = same_hash_keys(8); // the 9th insert sees bin_count == 8 and treeifies
    keys.extend(side());
    fill(&m, &keys);
    (m, Info { stable: keys, volatile: vec![k(5, 85)], absent: absent() })
}
fn op_treeify(m: &Map) {
    let g = m.guard();
    m.insert(k(5, 85), 1, &g);
}
fn s_treeify_small() -> (Map, Info) {
    let m = mk(10); // 16 bins: the 9th key in the bin asks for a resize instead
    let mut keys = same_hash_keys(8);
    keys.extend(side());
    fill(&m, &keys);
    (m, Info { stable: keys, volatile: vec![k(5, 85)], absent: absent() })
}
fn tree_base(keys: Vec<Key>) -> (Map, Vec<Key>) {
    let m = mk(42);
    let mut all = keys;
    all.extend(side());
    fill(&m, &all);
    (m, all)
}
fn s_tree_insert() -> (Map, Info) {
    let (m, all) = tree_base(same_hash_keys(12));
    let volatile = vec![k(5, 115), k(5, 125), k(5, 135), k(5, 5), k(5, 3), k(5, 1), k(5, 55), k(5, 56), k(5, 57)];
    (m, Info { stable: all, volatile, absent: absent() })
}
fn op_tree_insert(m: &Map) {
    let g = m.guard();
    for id in [115, 125, 135, 5, 3, 1, 55, 56, 57] {
        m.insert(k(5, id), 1, &g);
    }
    m.insert(k(5, 50), 4242, &g); // replace
    let _ = m.try_insert(k(5, 60), 1, &g); // exists
}
fn s_tree_insert_mixed() -> (Map, Info) {
    let (m, all) = tree_base(mixed_hash_keys(12));
    let volatile = vec![k(5, 1000), k(69, 1001), k(133, 1002), k(197, 1003), k(261, 1004), k(5, 1), k(69, 2)];
    (m, Info { stable: all, volatile, absent: absent() })
}
fn op_tree_insert_mixed(m: &Map) {
    let g = m.guard();
    for key in [k(5, 1000), k(69, 1001), k(133, 1002), k(197, 1003), k(261, 1004), k(5, 1), k(69, 2)] {
        m.insert(key, 1, &g);
    }
}
fn s_tree_remove_same() -> (Map, Info) {
    let (m, _) = tree_base(same_hash_keys(12));
    (m, Info { stable: side(), volatile: same_hash_keys(12), absent: absent() })
}
fn s_tree_remove_mixed() -> (Map, Info) {
    let (m, _) = tree_base(mixed_hash_keys(14));
    (m, Info { stable: side(), volatile: mixed_hash_keys(14), absent: absent() })
}
fn order(n: usize, which: u8) -> Vec<usize> {
    match which {
        0 => (0..n).collect(),
        1 => (0..n).rev().collect(),
        _ => {
            // fixed pseudo-random permutation
            let mut v: Vec<usize> = (0..n).collect();
            let mut s = 0x9e3779b97f4a7c15u64 ^ which as u64;
            for i in (1..n).rev() {
                s ^= s << 13;
                s ^= s >> 7;
                s ^= s << 17;
                v.swap(i, (s % (i as u64 + 1)) as usize);
            }
            v
        }
    }
}
fn remove_in(m: &Map, keys: Vec<Key>, which: u8) {
    let g = m.guard();
    for i in order(keys.len(), which) {
        m.remove(&keys[i], &g);
    }
}
fn op_tree_remove_same_asc(m: &Map) {
    remove_in(m, same_hash_keys(12), 0)
}
fn op_tree_remove_same_desc(m: &Map) {
    remove_in(m, same_hash_keys(12), 1)
}
fn op_tree_remove_same_r1(m: &Map) {
    remove_in(m, same_hash_keys(12), 2)
}
fn op_tree_remove_mixed_r1(m: &Map) {
    remove_in(m, mixed_hash_keys(14), 3)
}
fn op_tree_remove_mixed_r2(m: &Map) {
    remove_in(m, mixed_hash_keys(14), 4)
}
fn op_tree_compute(m: &Map) {
    let g = m.guard();
    let keys = same_hash_keys(12);
    m.compute_if_present(&keys[3], |_, v| Some(v + 1), &g);
    for i in order(keys.len(), 5) {
        m.compute_if_present(&keys[i], |_, _| None, &g);
    }
}
fn s_tree_clear() -> (Map, Info) {
    let (m, all) = tree_base(same_hash_keys(12));
    (m, Info { stable: vec![], volatile: all, absent: absent() })
}
fn s_tree_resize_reuse() -> (Map, Info) {
    let (m, all) = tree_base(same_hash_keys(12));
    (m, Info { stable: all, volatile: vec![], absent: absent() })
}
fn op_reserve60(m: &Map) {
    let g = m.guard();
    m.reserve(60, &g); // 64 -> 128 -> 256
}
fn s_tree_resize_split() -> (Map, Info) {
    let (m, all) = tree_base((0..16).map(|i| k(5 + 64 * (i % 2), i * 10)).collect());
    (m, Info { stable: all, volatile: vec![], absent: absent() })
}
fn s_tree_resize_untreeify() -> (Map, Info) {
    let (m, all) = tree_base(mixed_hash_keys(9));
    (m, Info { stable: all, volatile: vec![], absent: absent() })
}
fn s_tree_resize_one_small() -> (Map, Info) {
    let mut keys: Vec<Key> = (0..8).map(|i| k(5, i * 10)).collect();
    keys.extend((0..3).map(|i| k(69, 100 + i * 10)));
    let (m, all) = tree_base(keys);
    (m, Info { stable: all, volatile: vec![], absent: absent() })
}

fn second_keys() -> Vec<Key> {
    let mut v: Vec<Key> = (0..40).map(|h| k(h, 2000 + h)).collect();
    v.extend((0..6).map(|i| k(5 + 64 * i, 3000 + i)));
    v
}
fn op_second(m: &Map) {
    let g = m.guard();
    let keys = second_keys();
    for key in &keys {
        m.insert(key.clone(), 7, &g);
    }
    for key in keys.iter().step_by(2) {
        m.remove(key, &g);
    }
}
fn with_second((m, mut info): (Map, Info)) -> (Map, Info) {
    info.volatile.extend(second_keys());
    (m, info)
}
fn s_list_resize_b() -> (Map, Info) {
    with_second(s_list_resize())
}
fn s_tree_resize_reuse_b() -> (Map, Info) {
    with_second(s_tree_resize_reuse())
}
fn s_tree_resize_split_b() -> (Map, Info) {
    with_second(s_tree_resize_split())
}
fn s_tree_resize_untreeify_b() -> (Map, Info) {
    with_second(s_tree_resize_untreeify())
}

fn scenarios() -> Vec<Scenario> {
    vec![
        Scenario { name: "init-table", setup: s_init, op: op_init, second: None },
        Scenario { name: "list-insert", setup: s_list_insert, op: op_list_insert, second: None },
        Scenario { name: "list-remove", setup: s_list_remove, op: op_list_remove, second: None },
        Scenario { name: "list-compute", setup: s_list_remove, op: op_list_compute, second: None },
        Scenario { name: "list-clear", setup: s_list_all_volatile, op: op_clear, second: None },
        Scenario { name: "list-retain", setup: s_list_retain, op: op_retain, second: None },
        Scenario { name: "list-reserve-3-resizes", setup: s_list_resize, op: op_reserve, second: None },
        Scenario { name: "list-insert-triggers-resize", setup: s_list_resize, op: op_insert_resize, second: None },
        Scenario { name: "treeify", setup: s_treeify, op: op_treeify, second: None },
        Scenario { name: "treeify-small-table-presize", setup: s_treeify_small, op: op_treeify, second: None },
        Scenario { name: "tree-insert-same-hash", setup: s_tree_insert, op: op_tree_insert, second: None },
        Scenario { name: "tree-insert-mixed-hash", setup: s_tree_insert_mixed, op: op_tree_insert_mixed, second: None },
        Scenario { name: "tree-remove-same-asc", setup: s_tree_remove_same, op: op_tree_remove_same_asc, second: None },
        Scenario { name: "tree-remove-same-desc", setup: s_tree_remove_same, op: op_tree_remove_same_desc, second: None },
        Scenario { name: "tree-remove-same-perm", setup: s_tree_remove_same, op: op_tree_remove_same_r1, second: None },
        Scenario { name: "tree-remove-mixed-perm1", setup: s_tree_remove_mixed, op: op_tree_remove_mixed_r1, second: None },
        Scenario { name: "tree-remove-mixed-perm2", setup: s_tree_remove_mixed, op: op_tree_remove_mixed_r2, second: None },
        Scenario { name: "tree-compute-remove", setup: s_tree_remove_same, op: op_tree_compute, second: None },
        Scenario { name: "tree-clear", setup: s_tree_clear, op: op_clear, second: None },
        Scenario { name: "tree-resize-reuse-bin", setup: s_tree_resize_reuse, op: op_reserve60, second: None },
        Scenario { name: "tree-resize-split-two-trees", setup: s_tree_resize_split, op: op_reserve60, second: None },
        Scenario { name: "tree-resize-untreeify-both", setup: s_tree_resize_untreeify, op: op_reserve60, second: None },
        Scenario { name: "tree-resize-tree-plus-list", setup: s_tree_resize_one_small, op: op_reserve60, second: None },
        Scenario { name: "reserve-on-empty-map", setup: s_init, op: op_reserve, second: None },
        Scenario { name: "list-reserve+second-writer", setup: s_list_resize_b, op: op_reserve, second: Some(op_second) },
        Scenario { name: "tree-resize-reuse+second-writer", setup: s_tree_resize_reuse_b, op: op_reserve60, second: Some(op_second) },
        Scenario { name: "tree-resize-split+second-writer", setup: s_tree_resize_split_b, op: op_reserve60, second: Some(op_second) },
        Scenario { name: "tree-resize-untreeify+second-writer", setup: s_tree_resize_untreeify_b, op: op_reserve60, second: Some(op_second) },
    ]
}

// ---------------------------------------------------------------------------------------------
// the read battery
// ---------------------------------------------------------------------------------------------
#[derive(Default, Debug)]
struct Report {
    steps: usize,
    bad_events: Vec<String>,
    panics: Vec<String>,
    consistency: Vec<String>,
}

fn check_iter(name: &str, got: &[Key], info: &Info, rep: &mut Report) {
    if got.len() >= ITER_CAP {
        rep.panics.push(format!("{name}: iterator produced >= {ITER_CAP} items (unbounded?)"));
    }
    let mut seen: BTreeMap<&Key, usize> = BTreeMap::new();
    for key in got {
        *seen.entry(key).or_default() += 1;
    }
    for (key, n) in &seen {
        if *n > 1 {
            rep.consistency.push(format!("{name}: {key:?} produced {n} times"));
        }
        if info.absent.contains(key) {
            rep.consistency.push(format!("{name}: never-inserted {key:?} produced"));
        }
    }
    for key in &info.stable {
        if !seen.contains_key(key) {
            rep.consistency.push(format!("{name}: stable {key:?} missed"));
        }
    }
}

/// when set, the "read" battery starts with a *write* into bin 3 (harness self-check)
static SELFTEST_WRITE: AtomicBool = AtomicBool::new(false);

fn battery(map: &Map, other: &Map, info: &Info, rep: &mut Report) {
    let g = map.guard();
    if SELFTEST_WRITE.load(SeqCst) {
        map.insert(k(3, 424242), 1, &g);
    }
    for key in info.stable.iter().chain(&info.volatile).chain(&info.absent) {
        let r = map.get(key, &g);
        let r2 = map.get_key_value(key, &g);
        let r3 = map.contains_key(key, &g);
        let _ = (r2, r3);
        if info.stable.contains(key) && r.is_none() {
            rep.consistency.push(format!("get: stable {key:?} not found"));
        }
        if info.absent.contains(key) && r.is_some() {
            rep.consistency.push(format!("get: never-inserted {key:?} found"));
        }
        let _ = map.pin().get(key).copied();
        let _ = map.pin().contains_key(key);
    }
    let got: Vec<Key> = map.iter(&g).take(ITER_CAP).map(|(key, _)| key.clone()).collect();
    check_iter("iter", &got, info, rep);
    let got: Vec<Key> = map.keys(&g).take(ITER_CAP).cloned().collect();
    check_iter("keys", &got, info, rep);
    let n = map.values(&g).take(ITER_CAP).count();
    if n >= ITER_CAP {
        rep.panics.push("values: unbounded".into());
    }
    let got: Vec<Key> = map.pin().iter().take(ITER_CAP).map(|(key, _)| key.clone()).collect();
    check_iter("pin.iter", &got, info, rep);
    let l = map.len();
    let lo = info.stable.len();
    let hi = info.stable.len() + info.volatile.len();
    if l < lo || l > hi {
        rep.consistency.push(format!("len {l} outside [{lo},{hi}]"));
    }
    let _ = map.is_empty();
    let _ = map.pin().len();
    let _ = *map == *other;
    let _ = *other == *map;
    let _ = map.pin() == other.pin();
    let _ = format!("{:?}", map.pin().len());
}

// ---------------------------------------------------------------------------------------------
// driver
// ---------------------------------------------------------------------------------------------
enum Point {
    End,
    Done(String, Report),
    Hang(String),
}

fn run_point(sc: &Scenario, kth: usize) -> Point {
    let (map, info) = (sc.setup)();
    let map = Arc::new(map);
    let other = Arc::new({
        let m = mk(42);
        fill(&m, &info.stable);
        m
    });
    let info = Arc::new(info);
    gate_reset(kth);

    let (ready_tx, ready_rx) = mpsc::channel::<()>();
    let (go_tx, go_rx) = mpsc::channel::<bool>();
    let (res_tx, res_rx) = mpsc::channel::<Report>();
    let reader = {
        let (map, other, info) = (map.clone(), other.clone(), info.clone());
        std::thread::spawn(move || {
            let g = map.guard();
            let mut old_iter = map.iter(&g);
            let first = old_iter.next().map(|(key, _)| key.clone());
            ready_tx.send(()).unwrap();
            if !go_rx.recv().unwrap_or(false) {
                return;
            }
            let mut rep = Report::default();
            RSTEPS.with(|s| s.set(0));
            RBAD.with(|b| b.borrow_mut().clear());
            ROLE.with(|r| r.set(2));
            let res = catch_unwind(AssertUnwindSafe(|| {
                battery(&map, &other, &info, &mut rep);
                let mut got: Vec<Key> = first.into_iter().collect();
                got.extend(old_iter.by_ref().take(ITER_CAP).map(|(key, _)| key.clone()));
                check_iter("old-iter", &got, &info, &mut rep);
            }));
            ROLE.with(|r| r.set(0));
            if let Err(p) = res {
                let msg = p
                    .downcast_ref::<String>()
                    .cloned()
                    .or_else(|| p.downcast_ref::<&str>().map(|s| s.to_string()))
                    .unwrap_or_else(|| "panic".into());
                rep.panics.push(msg);
            }
            rep.steps = RSTEPS.with(|s| s.get());
            rep.bad_events = RBAD.with(|b| b.borrow().clone());
            let _ = res_tx.send(rep);
        })
    };
    ready_rx.recv().unwrap();

    let op = sc.op;
    let writer = {
        let map = map.clone();
        std::thread::spawn(move || {
            ROLE.with(|r| r.set(1));
            op(&map);
            ROLE.with(|r| r.set(0));
            let mut st = GATE.st.lock().unwrap();
            st.done = true;
            GATE.cv.notify_all();
        })
    };
    let at = {
        let mut st = GATE.st.lock().unwrap();
        while st.suspended.is_none() && !st.done {
            let (s, to) = GATE.cv.wait_timeout(st, Duration::from_secs(30)).unwrap();
            st = s;
            if to.timed_out() {
                panic!("harness: writer neither finished nor reached event {kth} in {}", sc.name);
            }
        }
        st.suspended.clone()
    };
    let Some(at) = at else {
        go_tx.send(false).unwrap();
        writer.join().unwrap();
        reader.join().unwrap();
        return Point::End;
    };
    let second = sc.second.map(|op_b| {
        let bdone = Arc::new(AtomicBool::new(false));
        let h = {
            let (map, bdone) = (map.clone(), bdone.clone());
            std::thread::spawn(move || {
                ROLE.with(|r| r.set(3));
                op_b(&map);
                ROLE.with(|r| r.set(0));
                bdone.store(true, SeqCst);
            })
        };
        // wait until it is finished or has made no progress for a while (blocked on a mutex)
        let mut quiet = 0;
        let mut last = BG_EVENTS.load(SeqCst);
        while !bdone.load(SeqCst) && quiet < 3 {
            std::thread::sleep(Duration::from_millis(1));
            let now = BG_EVENTS.load(SeqCst);
            if now == last {
                quiet += 1;
            } else {
                quiet = 0;
                last = now;
            }
        }
        h
    });
    go_tx.send(true).unwrap();
    let res = res_rx.recv_timeout(if SELFTEST_WRITE.load(SeqCst) { Duration::from_millis(300) } else { READ_TIMEOUT });
    {
        let mut st = GATE.st.lock().unwrap();
        st.release = true;
        GATE.cv.notify_all();
    }
    writer.join().unwrap();
    if let Some(h) = second {
        h.join().unwrap();
    }
    match res {
        Ok(rep) => {
            reader.join().unwrap();
            Point::Done(at, rep)
        }
        Err(_) => Point::Hang(at), // reader thread is leaked
    }
}

fn selected(name: &str) -> bool {
    match std::env::var("HUNT_ONLY") {
        Ok(f) if !f.is_empty() => f.split(',').any(|p| name.contains(p)),
        _ => true,
    }
}

#[test]
fn sweep_every_writer_suspension_point() {
    let _s = SERIAL.lock().unwrap_or_else(|e| e.into_inner());
    verif::install(&HOOKS);
    let verbose = std::env::var("HUNT_VERBOSE").is_ok();
    let mut c12_failures = Vec::new();
    let mut consistency = Vec::new();
    let mut total_points = 0usize;
    for sc in scenarios() {
        if !selected(sc.name) {
            continue;
        }
        let mut kth = 0;
        let mut max_steps = 0;
        let mut n_cons = 0;
        loop {
            match run_point(&sc, kth) {
                Point::End => break,
                Point::Hang(at) => {
                    c12_failures.push(format!("{} k={kth} [{at}]: reader did not finish within {READ_TIMEOUT:?}", sc.name));
                }
                Point::Done(at, rep) => {
                    max_steps = max_steps.max(rep.steps);
                    if verbose {
                        println!("{} k={kth} [{at}] steps={}", sc.name, rep.steps);
                    }
                    for b in &rep.bad_events {
                        c12_failures.push(format!("{} k={kth} [{at}]: reader emitted {b}", sc.name));
                    }
                    for p in &rep.panics {
                        c12_failures.push(format!("{} k={kth} [{at}]: reader panicked/unbounded: {p}", sc.name));
                    }
                    if rep.steps > STEP_BOUND {
                        c12_failures.push(format!("{} k={kth} [{at}]: reader needed {} steps", sc.name, rep.steps));
                    }
                    for c in &rep.consistency {
                        n_cons += 1;
                        consistency.push(format!("{} k={kth} [{at}]: {c}", sc.name));
                    }
                }
            }
            kth += 1;
            total_points += 1;
        }
        println!(
            "scenario {:<34} suspension points: {:>5}   max reader steps: {:>6}   consistency notes: {}",
            sc.name, kth, max_steps, n_cons
        );
    }
    println!("total suspension points examined: {total_points}");
    if !consistency.is_empty() {
        println!("--- consistency observations (not C12) : {} ---", consistency.len());
        for c in consistency.iter().take(60) {
            println!("  {c}");
        }
    }
    if !c12_failures.is_empty() {
        println!("--- C12 FAILURES: {} ---", c12_failures.len());
        for c in c12_failures.iter().take(100) {
            println!("  {c}");
        }
    }
    assert!(c12_failures.is_empty(), "{} C12 failures", c12_failures.len());
    assert!(consistency.is_empty(), "{} consistency observations", consistency.len());
}

/// A *reader* is suspended at each of its own events inside `get` on a tree bin (in particular
/// while it holds the tree read lock), a free-running writer then removes / inserts in that bin
/// (and parks waiting for the tree write lock while holding the bin mutex); a second reader must
/// still complete the whole battery.
#[test]
fn reader_suspended_with_read_lock_and_parked_writer() {
    let _s = SERIAL.lock().unwrap_or_else(|e| e.into_inner());
    verif::install(&HOOKS);
    let mut failures = Vec::new();
    let mut kth = 0;
    let mut parked_points = 0;
    loop {
        let (map, _) = tree_base(same_hash_keys(12));
        let map = Arc::new(map);
        let info = Arc::new(Info { stable: side(), volatile: {
            let mut v = same_hash_keys(12);
            v.push(k(5, 115));
            v.push(k(5, 125));
            v
        }, absent: absent() });
        let other = Arc::new({
            let m = mk(42);
            fill(&m, &info.stable);
            m
        });
        gate_reset(kth);
        BG_PARKED.store(false, SeqCst);
        let r1 = {
            let map = map.clone();
            std::thread::spawn(move || {
                let g = map.guard();
                ROLE.with(|r| r.set(1));
                let v = map.get(&k(5, 110), &g).copied();
                ROLE.with(|r| r.set(0));
                let mut st = GATE.st.lock().unwrap();
                st.done = true;
                GATE.cv.notify_all();
                v
            })
        };
        let at = {
            let mut st = GATE.st.lock().unwrap();
            while st.suspended.is_none() && !st.done {
                st = GATE.cv.wait(st).unwrap();
            }
            st.suspended.clone()
        };
        let Some(at) = at else {
            r1.join().unwrap();
            break;
        };
        let wdone = Arc::new(AtomicBool::new(false));
        let w = {
            let (map, wdone) = (map.clone(), wdone.clone());
            std::thread::spawn(move || {
                ROLE.with(|r| r.set(3));
                let g = map.guard();
                map.remove(&k(5, 30), &g);
                map.insert(k(5, 115), 1, &g);
                map.insert(k(5, 125), 1, &g);
                map.remove(&k(5, 0), &g);
                ROLE.with(|r| r.set(0));
                wdone.store(true, SeqCst);
            })
        };
        let t0 = std::time::Instant::now();
        while !BG_PARKED.load(SeqCst) && !wdone.load(SeqCst) && t0.elapsed() < Duration::from_secs(5) {
            std::thread::sleep(Duration::from_millis(1));
        }
        let parked = BG_PARKED.load(SeqCst) && !wdone.load(SeqCst);
        if parked {
            parked_points += 1;
            std::thread::sleep(Duration::from_millis(5)); // let it really reach park()
        }
        let (res_tx, res_rx) = mpsc::channel::<Report>();
        let _r2 = {
            let (map, other, info) = (map.clone(), other.clone(), info.clone());
            std::thread::spawn(move || {
                let mut rep = Report::default();
                RSTEPS.with(|s| s.set(0));
                RBAD.with(|b| b.borrow_mut().clear());
                ROLE.with(|r| r.set(2));
                let res = catch_unwind(AssertUnwindSafe(|| battery(&map, &other, &info, &mut rep)));
                ROLE.with(|r| r.set(0));
                if res.is_err() {
                    rep.panics.push("panic".into());
                }
                rep.steps = RSTEPS.with(|s| s.get());
                rep.bad_events = RBAD.with(|b| b.borrow().clone());
                let _ = res_tx.send(rep);
            })
        };
        match res_rx.recv_timeout(READ_TIMEOUT) {
            Ok(rep) => {
                println!(
                    "reader1 suspended at k={kth} [{at}] writer parked={parked}: reader2 steps={} bad={:?} panics={:?} cons={:?}",
                    rep.steps, rep.bad_events, rep.panics, rep.consistency
                );
                if !rep.bad_events.is_empty() || !rep.panics.is_empty() || !rep.consistency.is_empty() {
                    failures.push(format!("k={kth} [{at}] {rep:?}"));
                }
            }
            Err(_) => failures.push(format!("k={kth} [{at}] parked={parked}: reader2 hang")),
        }
        {
            let mut st = GATE.st.lock().unwrap();
            st.release = true;
            GATE.cv.notify_all();
        }
        assert_eq!(r1.join().unwrap(), Some(1101));
        w.join().unwrap();
        kth += 1;
    }
    println!("points: {kth}, of which the writer was parked holding the bin mutex: {parked_points}");
    assert!(parked_points > 0, "scenario never reached a parked writer");
    assert!(failures.is_empty(), "{failures:#?}");
}

/// Harness self-check: if the "reader" performs a write into the bin the suspended writer is
/// working on, the harness must report a lock acquisition for every point and a hang for the
/// points at which the writer holds the bin mutex.
#[test]
fn harness_detects_a_blocking_reader() {
    let _s = SERIAL.lock().unwrap_or_else(|e| e.into_inner());
    verif::install(&HOOKS);
    SELFTEST_WRITE.store(true, SeqCst);
    let sc = Scenario { name: "selftest", setup: s_list_insert, op: |m: &Map| {
        let g = m.guard();
        m.insert(k(83, 20), 1, &g);
    }, second: None };
    let (mut hangs, mut locks, mut points) = (0, 0, 0);
    let mut kth = 0;
    loop {
        match run_point(&sc, kth) {
            Point::End => break,
            Point::Hang(at) => {
                println!("selftest k={kth} [{at}]: HANG detected");
                hangs += 1;
            }
            Point::Done(_, rep) => {
                if rep.bad_events.iter().any(|b| b.starts_with("BeforeLock")) {
                    locks += 1;
                }
            }
        }
        points += 1;
        kth += 1;
    }
    SELFTEST_WRITE.store(false, SeqCst);
    println!("selftest: {points} points, {hangs} hangs detected, {locks} completed-with-lock detected");
    assert!(hangs > 0);
    assert_eq!(hangs + locks, points);
}
