//! SIDE OBSERVATION, *not* a C12 violation (C12 is about readers; here a *writer* ends up blocked).
//!
//! `TreeBin::find` (src/node.rs:478-508) takes the tree read lock with a CAS, calls
//! `TreeNode::find_tree_node` (which runs the user's `Eq`/`Ord`), and only then releases the read
//! lock with `fetch_add(-READER)`. The JDK does the release in a `finally` block; flurry has no
//! drop guard, so if the user's comparison panics the READER count is never given back. Every later
//! writer that needs the tree write lock (`lock_root`) then parks forever while holding the bin
//! mutex. Readers are still fine (they see WAITER and walk the `next` list), which is exactly what
//! C12 promises - this test checks both halves.
//!
//!   cargo test --offline --test hunt_side_reader_panic -- --nocapture
use flurry::HashMap;
use std::hash::{BuildHasher, Hash, Hasher};
use std::sync::atomic::{AtomicBool, Ordering::SeqCst};
use std::sync::{mpsc, Arc};
use std::time::Duration;

static BOOM: AtomicBool = AtomicBool::new(false);

#[derive(Clone, Debug, PartialOrd, Ord, Eq)]
struct Key(u64);
impl PartialEq for Key {
    fn eq(&self, o: &Key) -> bool {
        if BOOM.load(SeqCst) {
            panic!("user Eq panics");
        }
        self.0 == o.0
    }
}
impl Hash for Key {
    fn hash<H: Hasher>(&self, s: &mut H) {
        s.write_u64(5)
    }
}
#[derive(Default)]
struct IdHasher(u64);
impl Hasher for IdHasher {
    fn finish(&self) -> u64 {
        self.0
    }
    fn write(&mut self, _: &[u8]) {}
    fn write_u64(&mut self, v: u64) {
        self.0 = v
    }
}
#[derive(Clone, Default)]
struct IdBuild;
impl BuildHasher for IdBuild {
    type Hasher = IdHasher;
    fn build_hasher(&self) -> IdHasher {
        IdHasher(0)
    }
}

#[test]
fn reader_panic_in_tree_bin_leaks_read_lock_and_blocks_writers_but_not_readers() {
    let map = Arc::new(HashMap::<Key, u64, IdBuild>::with_capacity_and_hasher(42, IdBuild));
    for i in 0..12 {
        map.pin().insert(Key(i), i);
    }
    // a reader whose Eq panics while it holds the tree read lock
    BOOM.store(true, SeqCst);
    let m2 = map.clone();
    let r = std::thread::spawn(move || {
        let _ = m2.pin().get(&Key(7)).copied();
    })
    .join();
    BOOM.store(false, SeqCst);
    assert!(r.is_err(), "the reader was supposed to panic");

    // readers still complete (C12 holds)
    let (tx, rx) = mpsc::channel();
    let m3 = map.clone();
    std::thread::spawn(move || {
        let g = m3.guard();
        let a = m3.get(&Key(3), &g).copied();
        let n = m3.iter(&g).count();
        tx.send((a, n)).unwrap();
    });
    let (a, n) = rx.recv_timeout(Duration::from_secs(10)).expect("READER BLOCKED (would be a C12 violation)");
    assert_eq!((a, n), (Some(3), 12));

    // a writer that has to restructure the tree never returns
    let (tx, rx) = mpsc::channel();
    let m4 = map.clone();
    std::thread::spawn(move || {
        let r = m4.pin().remove(&Key(3)).copied();
        let _ = tx.send(r);
    });
    let w = rx.recv_timeout(Duration::from_secs(3));

    // ... and readers *still* complete while that writer is parked holding the bin mutex
    let (tx2, rx2) = mpsc::channel();
    let m5 = map.clone();
    std::thread::spawn(move || {
        let g = m5.guard();
        let a = m5.get(&Key(4), &g).copied();
        let n = m5.iter(&g).count();
        tx2.send((a, n)).unwrap();
    });
    let (a, _n) = rx2.recv_timeout(Duration::from_secs(10)).expect("READER BLOCKED (would be a C12 violation)");
    assert_eq!(a, Some(4));

    assert!(w.is_ok(), "writer blocked forever after a reader panicked inside TreeBin::find (read lock leaked)");
}
