//! C18 hunt: a panicking callback (compute_if_present / retain / retain_force / iterator
//! consumer) must leave the map consistent and unlocked.
//!
//! Every scenario builds a fresh map with list bins and tree bins, injects a panic at the i-th
//! callback invocation (for all i), and then
//!   * checks that the panic reached the caller,
//!   * compares the whole map against a BTreeMap model of "operations completed before the panic",
//!   * (cfg(flurry_verif)) inspects every bin: no mutex locked, lock_state == 0, no waiter,
//!     count word == model size, bin membership == hash,
//!   * runs a battery of later operations on every bin from ANOTHER thread under a timeout.
#![allow(clippy::type_complexity)]

use flurry::HashMap;
use std::collections::BTreeMap;
use std::hash::{BuildHasher, Hash, Hasher};
use std::panic::{catch_unwind, AssertUnwindSafe};
use std::sync::atomic::{AtomicBool, AtomicUsize, Ordering};
use std::sync::mpsc;
use std::sync::{Arc, Once};
use std::time::Duration;

// ---------------------------------------------------------------------------------------------
// key type with a chosen hash, pass-through hasher
// ---------------------------------------------------------------------------------------------

#[derive(Default)]
struct Gate {
    /// id of the key whose `clone` blocks (0 = none)
    block_id: AtomicUsize,
    entered: AtomicBool,
    release: AtomicBool,
}

#[derive(Debug)]
struct Key {
    h: u64,
    id: u64,
    gate: Option<Arc<Gate>>,
}

impl std::fmt::Debug for Gate {
    fn fmt(&self, f: &mut std::fmt::Formatter<'_>) -> std::fmt::Result {
        write!(f, "Gate")
    }
}

impl Key {
    fn new(h: u64, id: u64) -> Self {
        Key { h, id, gate: None }
    }
}

impl Clone for Key {
    fn clone(&self) -> Self {
        if let Some(g) = &self.gate {
            if g.block_id.load(Ordering::SeqCst) == self.id as usize {
                g.entered.store(true, Ordering::SeqCst);
                while !g.release.load(Ordering::SeqCst) {
                    std::thread::sleep(Duration::from_millis(1));
                }
            }
        }
        Key {
            h: self.h,
            id: self.id,
            gate: self.gate.clone(),
        }
    }
}
impl PartialEq for Key {
    fn eq(&self, o: &Self) -> bool {
        self.h == o.h && self.id == o.id
    }
}
impl Eq for Key {}
impl PartialOrd for Key {
    fn partial_cmp(&self, o: &Self) -> Option<std::cmp::Ordering> {
        Some(self.cmp(o))
    }
}
impl Ord for Key {
    fn cmp(&self, o: &Self) -> std::cmp::Ordering {
        (self.h, self.id).cmp(&(o.h, o.id))
    }
}
impl Hash for Key {
    fn hash<H: Hasher>(&self, s: &mut H) {
        s.write_u64(self.h)
    }
}

#[derive(Default, Clone)]
struct Pass;
struct PassH(u64);
impl Hasher for PassH {
    fn finish(&self) -> u64 {
        self.0
    }
    fn write(&mut self, _: &[u8]) {
        unreachable!()
    }
    fn write_u64(&mut self, v: u64) {
        self.0 = v
    }
}
impl BuildHasher for Pass {
    type Hasher = PassH;
    fn build_hasher(&self) -> PassH {
        PassH(0)
    }
}

type Map = HashMap<Key, u64, Pass>;
type Model = BTreeMap<(u64, u64), u64>;

struct Boom(#[allow(dead_code)] usize);

fn quiet_panics() {
    static ONCE: Once = Once::new();
    ONCE.call_once(|| {
        let prev = std::panic::take_hook();
        std::panic::set_hook(Box::new(move |info| {
            if info.payload().downcast_ref::<Boom>().is_some() {
                return;
            }
            prev(info)
        }));
    });
}

fn boom(i: usize) -> ! {
    std::panic::panic_any(Boom(i))
}

/// (hash, number of keys): tree bins (12, 9), list bins (1, 3, 7), plus keys that share a bin of a
/// 64-bin table but split on resize (h = 5 and h = 5 + 64, h = 6 + 128).
const SHAPE: &[(u64, u64)] = &[
    (0, 12),
    (1, 3),
    (2, 1),
    (3, 9),
    (4, 7),
    (5, 2),
    (5 + 64, 2),
    (6 + 128, 10),
    (6, 1),
];

fn all_keys() -> Vec<(u64, u64)> {
    let mut v = vec![];
    let mut id = 1;
    for &(h, n) in SHAPE {
        for _ in 0..n {
            v.push((h, id));
            id += 1;
        }
    }
    v
}

fn build(gate: Option<Arc<Gate>>) -> (Map, Model) {
    let map = Map::with_capacity_and_hasher(40, Pass);
    let mut model = Model::new();
    {
        let g = map.guard();
        for (h, id) in all_keys() {
            let k = Key {
                h,
                id,
                gate: gate.clone(),
            };
            assert!(map.insert(k, id * 10, &g).is_none());
            model.insert((h, id), id * 10);
        }
    }
    (map, model)
}

#[cfg(flurry_verif)]
fn structural(map: &Map, model: &Model, what: &str) {
    use flurry::verif_inspect::BinSnap;
    let g = map.guard();
    let s = map.verif_snapshot(&g);
    assert_eq!(s.count as usize, model.len(), "{what}: count word");
    let mut t = s.table.as_ref();
    let mut seen = 0usize;
    let mut depth = 0;
    while let Some(tab) = t {
        for (i, b) in tab.bins.iter().enumerate() {
            match b {
                BinSnap::Empty | BinSnap::Moved => {}
                BinSnap::List(v) => {
                    for n in v {
                        assert!(!n.locked, "{what}: list node lock held in bin {i}");
                        assert_eq!((n.hash as usize) & (tab.len - 1), i);
                        if depth == 0 || true {
                            seen += 1;
                        }
                        assert_eq!(model.get(&(n.key.h, n.key.id)), n.value, "{what}");
                    }
                }
                BinSnap::Tree {
                    locked,
                    lock_state,
                    waiter_null,
                    nodes,
                    root,
                    ..
                } => {
                    assert!(!locked, "{what}: tree bin lock held in bin {i}");
                    assert_eq!(*lock_state, 0, "{what}: tree lock_state in bin {i}");
                    assert!(*waiter_null, "{what}: waiter");
                    assert_ne!(*root, 0);
                    for n in nodes {
                        assert!(!n.node.locked);
                        assert_eq!((n.node.hash as usize) & (tab.len - 1), i);
                        seen += 1;
                        assert_eq!(model.get(&(n.node.key.h, n.node.key.id)), n.node.value, "{what}");
                    }
                }
            }
        }
        t = tab.forward.as_deref();
        depth += 1;
    }
    if depth == 1 {
        assert_eq!(seen, model.len(), "{what}: nodes in table");
        assert!(s.size_ctl > 0, "{what}: size_ctl {} (resize in progress?)", s.size_ctl);
        assert_eq!(s.next_table_addr, 0);
    }
}
#[cfg(not(flurry_verif))]
fn structural(_: &Map, _: &Model, _: &str) {}

#[cfg(flurry_verif)]
fn shapes(map: &Map) -> (usize, usize, usize) {
    use flurry::verif_inspect::BinSnap;
    let g = map.guard();
    let s = map.verif_snapshot(&g);
    let tab = s.table.unwrap();
    let (mut l, mut t) = (0, 0);
    for b in &tab.bins {
        match b {
            BinSnap::List(_) => l += 1,
            BinSnap::Tree { .. } => t += 1,
            _ => {}
        }
    }
    (tab.len, l, t)
}

/// Read-only comparison of the map with the model.
fn same(map: &Map, model: &Model, what: &str) {
    assert_eq!(map.len(), model.len(), "{what}: len");
    let g = map.guard();
    for (h, id) in all_keys() {
        assert_eq!(
            map.get(&Key::new(h, id), &g),
            model.get(&(h, id)),
            "{what}: get({h},{id})"
        );
    }
    let mut it: Vec<_> = map.iter(&g).map(|(k, v)| ((k.h, k.id), *v)).collect();
    it.sort();
    let want: Vec<_> = model.iter().map(|(k, v)| (*k, *v)).collect();
    assert_eq!(it, want, "{what}: iter");
    assert_eq!(map.keys(&g).count(), model.len());
    assert_eq!(map.values(&g).count(), model.len());
    drop(g);
    structural(map, model, what);
}

fn with_timeout<R: Send>(what: &str, secs: u64, f: impl FnOnce() -> R + Send) -> R {
    std::thread::scope(|s| {
        let (tx, rx) = mpsc::channel();
        let h = s.spawn(move || {
            let r = f();
            let _ = tx.send(());
            r
        });
        let secs = if cfg!(miri) { secs * 60 } else { secs };
        match rx.recv_timeout(Duration::from_secs(secs)) {
            Ok(()) => h.join().unwrap(),
            Err(mpsc::RecvTimeoutError::Disconnected) => match h.join() {
                Ok(r) => r,
                Err(e) => std::panic::resume_unwind(e),
            },
            Err(mpsc::RecvTimeoutError::Timeout) => {
                eprintln!("HANG: {what} did not complete within {secs}s");
                std::process::abort();
            }
        }
    })
}

/// Later operations on every bin, from another thread; leaves map and model equal.
fn later_ops(map: &Map, model: &mut Model, what: &str) {
    with_timeout(what, 20, || {
        let g = map.guard();
        let mut fresh = 10_000;
        for &(h, _) in SHAPE {
            // insert a new key into the bin
            fresh += 1;
            assert_eq!(map.insert(Key::new(h, fresh), 7, &g), None);
            model.insert((h, fresh), 7);
            // update / remove / re-insert an existing one
            if let Some((&(kh, kid), &v)) = model.range((h, 0)..(h, u64::MAX)).next() {
                let r = map.compute_if_present(&Key::new(kh, kid), |_, old| Some(*old + 1), &g);
                assert_eq!(r, Some(&(v + 1)), "{what}");
                model.insert((kh, kid), v + 1);
                assert_eq!(map.remove(&Key::new(kh, kid), &g), Some(&(v + 1)), "{what}");
                model.remove(&(kh, kid));
                assert_eq!(
                    map.compute_if_present(&Key::new(kh, kid), |_, _| unreachable!(), &g),
                    None
                );
                assert_eq!(map.insert(Key::new(kh, kid), v, &g), None);
                model.insert((kh, kid), v);
                assert_eq!(map.insert(Key::new(kh, kid), v + 2, &g), Some(&v));
                model.insert((kh, kid), v + 2);
            }
            // remove the fresh key again through compute_if_present
            assert_eq!(
                map.compute_if_present(&Key::new(h, fresh), |_, _| None, &g),
                None
            );
            model.remove(&(h, fresh));
        }
        map.retain(|_, _| true, &g);
        map.retain_force(|_, _| true, &g);
    });
    same(map, model, what);
}

// ---------------------------------------------------------------------------------------------
// S1: compute_if_present, panic at the i-th call of a sequence (update / remove mixed)
// ---------------------------------------------------------------------------------------------

#[test]
fn s1_compute_if_present_every_i() {
    quiet_panics();
    let keys = all_keys();
    let n = keys.len();
    let step = if cfg!(miri) { 23 } else { 1 };
    #[cfg(flurry_verif)]
    {
        let (m, _) = build(None);
        let (len, l, t) = shapes(&m);
        eprintln!("table len {len}, list bins {l}, tree bins {t}");
        assert!(t >= 3 && l >= 4);
    }
    for i in (0..n).step_by(step) {
        let (map, mut model) = build(None);
        for (j, &(h, id)) in keys.iter().enumerate() {
            let g = map.guard();
            let k = Key::new(h, id);
            let r = catch_unwind(AssertUnwindSafe(|| {
                map.compute_if_present(
                    &k,
                    |kk, v| {
                        assert_eq!((kk.h, kk.id), (h, id));
                        assert_eq!(*v, id * 10);
                        if j == i {
                            boom(j)
                        }
                        if j % 3 == 0 {
                            None
                        } else {
                            Some(*v + 1)
                        }
                    },
                    &g,
                )
                .copied()
            }));
            if j == i {
                let e = r.expect_err("panic must reach the caller");
                assert!(e.downcast_ref::<Boom>().is_some());
                drop(g);
                same(&map, &model, &format!("s1 i={i} right after panic"));
                // same thread, same key, same bin
                let g = map.guard();
                assert_eq!(map.get(&k, &g), Some(&(id * 10)));
                assert_eq!(
                    map.compute_if_present(&k, |_, v| Some(*v), &g),
                    Some(&(id * 10))
                );
            } else {
                let r = r.unwrap();
                if j % 3 == 0 {
                    assert_eq!(r, None);
                    model.remove(&(h, id));
                } else {
                    assert_eq!(r, Some(id * 10 + 1));
                    model.insert((h, id), id * 10 + 1);
                }
            }
        }
        same(&map, &model, &format!("s1 i={i} end"));
        if i % 5 == 0 {
            later_ops(&map, &mut model, &format!("s1 i={i} later"));
        }
    }
}

// ---------------------------------------------------------------------------------------------
// S2/S3: retain / retain_force, panic at the i-th predicate call
// ---------------------------------------------------------------------------------------------

fn retain_every_i(force: bool, via_ref: bool) {
    quiet_panics();
    let n = all_keys().len();
    let step = if cfg!(miri) { 23 } else { 1 };
    for i in (0..n).step_by(step) {
        // keep = id % 3 == 0: removes 2/3 of every bin => trees shrink and untreeify on the way
        let (map, mut model) = build(None);
        let mut calls = 0usize;
        let mut visited: Vec<(u64, u64)> = vec![];
        let r = catch_unwind(AssertUnwindSafe(|| {
            let mut pred = |k: &Key, v: &u64| {
                assert_eq!(*v, k.id * 10);
                if calls == i {
                    boom(i)
                }
                calls += 1;
                visited.push((k.h, k.id));
                k.id % 3 == 0
            };
            if via_ref {
                let r = map.pin();
                if force {
                    r.retain_force(&mut pred)
                } else {
                    r.retain(&mut pred)
                }
            } else {
                let g = map.guard();
                if force {
                    map.retain_force(&mut pred, &g)
                } else {
                    map.retain(&mut pred, &g)
                }
            }
        }));
        assert!(r.expect_err("panic must propagate").downcast_ref::<Boom>().is_some());
        assert_eq!(visited.len(), i);
        for (h, id) in &visited {
            if id % 3 != 0 {
                assert!(model.remove(&(*h, *id)).is_some());
            }
        }
        let what = format!("retain force={force} ref={via_ref} i={i}");
        same(&map, &model, &what);
        if i % 4 == 0 {
            later_ops(&map, &mut model, &what);
        }
        // a complete retain afterwards finishes the job
        let g = map.guard();
        map.retain(|k, _| k.id % 3 == 0, &g);
        drop(g);
        model.retain(|k, _| k.1 % 3 == 0);
        same(&map, &model, &what);
    }
}

#[test]
fn s2_retain_every_i() {
    retain_every_i(false, false);
}
#[test]
fn s2_retain_ref_every_i() {
    retain_every_i(false, true);
}
#[test]
fn s3_retain_force_every_i() {
    retain_every_i(true, false);
}
#[test]
fn s3_retain_force_ref_every_i() {
    retain_every_i(true, true);
}

// ---------------------------------------------------------------------------------------------
// S4: iterator consumers
// ---------------------------------------------------------------------------------------------

#[test]
fn s4_iterators_every_i() {
    quiet_panics();
    let n = all_keys().len();
    let step = if cfg!(miri) { 23 } else { 1 };
    let (map, mut model) = build(None);
    for i in (0..n).step_by(step) {
        for kind in 0..5 {
            let r = catch_unwind(AssertUnwindSafe(|| {
                let g = map.guard();
                let mut c = 0;
                let mut tick = || {
                    if c == i {
                        boom(i)
                    }
                    c += 1;
                };
                match kind {
                    0 => map.iter(&g).for_each(|_| tick()),
                    1 => map.keys(&g).for_each(|_| tick()),
                    2 => map.values(&g).for_each(|_| tick()),
                    3 => {
                        let r = map.pin();
                        for _ in &r {
                            tick()
                        }
                    }
                    _ => {
                        let r = map.with_guard(&g);
                        for _ in r.iter().zip(r.keys()).zip(r.values()) {
                            tick()
                        }
                    }
                }
            }));
            assert!(r.is_err());
        }
        if i % 8 == 0 {
            same(&map, &model, &format!("s4 i={i}"));
        }
    }
    later_ops(&map, &mut model, "s4 later");
}

#[test]
fn s5_hashset_retain() {
    quiet_panics();
    let step = if cfg!(miri) { 19 } else { 1 };
    for i in (0..40).step_by(step) {
        let set = flurry::HashSet::<Key, Pass>::with_capacity_and_hasher(64, Pass);
        let g = set.guard();
        for id in 1..=40u64 {
            set.insert(Key::new(id % 4, id), &g);
        }
        let mut calls = 0;
        let mut gone = vec![];
        let r = catch_unwind(AssertUnwindSafe(|| {
            set.retain(
                |k| {
                    if calls == i {
                        boom(i)
                    }
                    calls += 1;
                    if k.id % 2 == 1 {
                        gone.push(k.id);
                    }
                    k.id % 2 == 0
                },
                &g,
            )
        }));
        assert!(r.is_err());
        assert_eq!(set.len(), 40 - gone.len());
        for id in 1..=40u64 {
            assert_eq!(set.contains(&Key::new(id % 4, id), &g), !gone.contains(&id));
        }
        with_timeout("s5", 20, || {
            let g = set.guard();
            for id in 1..=40u64 {
                set.remove(&Key::new(id % 4, id), &g);
                assert!(set.insert(Key::new(id % 4, id), &g));
            }
        });
        assert_eq!(set.len(), 40);
    }
}

// ---------------------------------------------------------------------------------------------
// S6: another thread is queued on the same bin lock while the callback runs and then panics
// ---------------------------------------------------------------------------------------------

#[test]
fn s6_waiter_on_same_bin_gets_the_lock() {
    quiet_panics();
    // one tree bin (h = 0), one list bin (h = 4)
    for &(h, id) in &[(0u64, 5u64), (4, 27), (6 + 128, 40)] {
        let (map, mut model) = build(None);
        assert!(model.contains_key(&(h, id)));
        let in_cb = AtomicBool::new(false);
        let go = AtomicBool::new(false);
        let b_done = AtomicBool::new(false);
        with_timeout("s6", 30, || {
            std::thread::scope(|s| {
                let a = s.spawn(|| {
                    let g = map.guard();
                    catch_unwind(AssertUnwindSafe(|| {
                        map.compute_if_present(
                            &Key::new(h, id),
                            |_, _| {
                                in_cb.store(true, Ordering::SeqCst);
                                while !go.load(Ordering::SeqCst) {
                                    std::thread::yield_now();
                                }
                                boom(0)
                            },
                            &g,
                        )
                        .copied()
                    }))
                });
                while !in_cb.load(Ordering::SeqCst) {
                    std::thread::yield_now();
                }
                // B: writers on the same bin (queued behind A's bin lock); C: a reader.
                let b = s.spawn(|| {
                    let g = map.guard();
                    let r = map.insert(Key::new(h, 999), 1, &g).copied();
                    let r2 = map.remove(&Key::new(h, id), &g).copied();
                    b_done.store(true, Ordering::SeqCst);
                    (r, r2)
                });
                let c = s.spawn(|| {
                    let g = map.guard();
                    map.get(&Key::new(h, id), &g).copied()
                });
                assert_eq!(c.join().unwrap(), Some(id * 10), "readers are not blocked");
                std::thread::sleep(Duration::from_millis(if cfg!(miri) { 1 } else { 50 }));
                assert!(!b_done.load(Ordering::SeqCst), "B must be waiting for the bin lock");
                go.store(true, Ordering::SeqCst);
                assert!(a.join().unwrap().is_err());
                let (r, r2) = b.join().unwrap();
                assert_eq!(r, None);
                assert_eq!(r2, Some(id * 10), "the entry was left unchanged by the panicking call");
            });
        });
        model.insert((h, 999), 1);
        model.remove(&(h, id));
        same(&map, &model, "s6");
        later_ops(&map, &mut model, "s6 later");
    }
}

/// retain's predicate runs outside any lock: a writer on the very bin being visited completes
/// while the predicate is suspended, before it panics.
#[test]
fn s6b_retain_predicate_holds_no_lock() {
    quiet_panics();
    for force in [false, true] {
        for i in if cfg!(miri) { vec![13usize] } else { vec![0usize, 5, 13, 30, 46] } {
            let (map, mut model) = build(None);
            let at: std::sync::Mutex<Option<(u64, u64)>> = std::sync::Mutex::new(None);
            let go = AtomicBool::new(false);
            let mut visited = vec![];
            with_timeout("s6b", 30, || {
                std::thread::scope(|s| {
                    let a = s.spawn(|| {
                        let g = map.guard();
                        let mut calls = 0;
                        catch_unwind(AssertUnwindSafe(|| {
                            let pred = |k: &Key, _: &u64| {
                                if calls == i {
                                    *at.lock().unwrap() = Some((k.h, k.id));
                                    while !go.load(Ordering::SeqCst) {
                                        std::thread::yield_now();
                                    }
                                    boom(i)
                                }
                                calls += 1;
                                visited.push((k.h, k.id));
                                k.id % 2 == 0
                            };
                            if force {
                                map.retain_force(pred, &g)
                            } else {
                                map.retain(pred, &g)
                            }
                        }))
                    });
                    let (h, id) = loop {
                        if let Some(x) = *at.lock().unwrap() {
                            break x;
                        }
                        std::thread::yield_now();
                    };
                    let g = map.guard();
                    // same bin, and the very entry being processed
                    assert_eq!(map.insert(Key::new(h, 777), 1, &g), None);
                    assert_eq!(
                        map.compute_if_present(&Key::new(h, id), |_, v| Some(*v + 5), &g),
                        Some(&(id * 10 + 5))
                    );
                    assert_eq!(map.remove(&Key::new(h, 777), &g), Some(&1));
                    model.insert((h, id), id * 10 + 5);
                    go.store(true, Ordering::SeqCst);
                    assert!(a.join().unwrap().is_err());
                });
            });
            for (h, id) in &visited {
                if id % 2 != 0 {
                    model.remove(&(*h, *id));
                }
            }
            same(&map, &model, "s6b");
            later_ops(&map, &mut model, "s6b later");
        }
    }
}

// ---------------------------------------------------------------------------------------------
// S7: panics while a resize is in progress (another thread is suspended inside `transfer`,
//     holding the lock of bin 0, every other bin already forwarded)
// ---------------------------------------------------------------------------------------------

#[test]
fn s7_panic_during_resize() {
    quiet_panics();
    for variant in if cfg!(miri) { 0..2 } else { 0..4 } {
        let gate = Arc::new(Gate::default());
        let (map, mut model) = build(Some(gate.clone()));
        // the tree bin h = 0 (ids 1..=12) is transferred last (transfer walks downwards);
        // all of its keys are cloned by transfer. Block at the clone of id 3.
        gate.block_id.store(3, Ordering::SeqCst);
        with_timeout("s7", 60, || {
            std::thread::scope(|s| {
                let resizer = s.spawn(|| {
                    let g = map.guard();
                    map.reserve(if cfg!(miri) { 100 } else { 2000 }, &g);
                });
                while !gate.entered.load(Ordering::SeqCst) {
                    std::thread::yield_now();
                }
                // never leave the resizer suspended if an assertion below fails
                struct Release<'a>(&'a Gate);
                impl Drop for Release<'_> {
                    fn drop(&mut self) {
                        self.0.block_id.store(0, Ordering::SeqCst);
                        self.0.release.store(true, Ordering::SeqCst);
                    }
                }
                let _release = Release(&gate);
                #[cfg(flurry_verif)]
                {
                    let g = map.guard();
                    let s = map.verif_snapshot(&g);
                    assert!(s.size_ctl < 0, "resize in progress");
                    let t = s.table.as_ref().unwrap();
                    let moved = t
                        .bins
                        .iter()
                        .filter(|b| matches!(b, flurry::verif_inspect::BinSnap::Moved))
                        .count();
                    assert_eq!(moved, t.len - 1, "all bins but bin 0 are forwarded");
                }
                let g = map.guard();
                match variant {
                    0 => {
                        // compute_if_present through forwarding nodes, on list and tree bins
                        for &(h, id) in &[(1u64, 13u64), (3, 20), (4, 27), (6 + 128, 45), (5, 33)] {
                            let r = catch_unwind(AssertUnwindSafe(|| {
                                map.compute_if_present(&Key::new(h, id), |_, _| boom(0), &g)
                                    .copied()
                            }));
                            assert!(r.is_err());
                            assert_eq!(map.get(&Key::new(h, id), &g), Some(&(id * 10)));
                            assert_eq!(
                                map.compute_if_present(&Key::new(h, id), |_, v| Some(*v + 1), &g),
                                Some(&(id * 10 + 1))
                            );
                            model.insert((h, id), id * 10 + 1);
                        }
                    }
                    1 | 2 => {
                        // retain / retain_force across forwarded bins and the still-locked bin 0
                        // (keeps all h = 0 keys, so it never needs bin 0's lock)
                        for i in [0usize, 7, 19, 30] {
                            let mut calls = 0;
                            let mut visited = vec![];
                            let r = catch_unwind(AssertUnwindSafe(|| {
                                let pred = |k: &Key, _: &u64| {
                                    if calls == i {
                                        boom(i)
                                    }
                                    calls += 1;
                                    visited.push((k.h, k.id));
                                    k.h == 0 || k.id % 5 != 0
                                };
                                if variant == 1 {
                                    map.retain(pred, &g)
                                } else {
                                    map.retain_force(pred, &g)
                                }
                            }));
                            assert!(r.is_err());
                            for (h, id) in visited {
                                if !(h == 0 || id % 5 != 0) {
                                    model.remove(&(h, id));
                                }
                            }
                        }
                    }
                    _ => {
                        for i in [0usize, 7, 19, 33, 46] {
                            let mut c = 0;
                            let r = catch_unwind(AssertUnwindSafe(|| {
                                map.iter(&g).for_each(|_| {
                                    if c == i {
                                        boom(i)
                                    }
                                    c += 1;
                                })
                            }));
                            assert!(r.is_err());
                        }
                    }
                }
                // map is readable mid-resize and agrees with the model
                for (h, id) in all_keys() {
                    assert_eq!(map.get(&Key::new(h, id), &g), model.get(&(h, id)));
                }
                let mut it: Vec<_> = map.iter(&g).map(|(k, v)| ((k.h, k.id), *v)).collect();
                it.sort();
                assert_eq!(it, model.iter().map(|(k, v)| (*k, *v)).collect::<Vec<_>>());
                drop(g);
                gate.block_id.store(0, Ordering::SeqCst);
                gate.release.store(true, Ordering::SeqCst);
                resizer.join().unwrap();
            });
        });
        same(&map, &model, &format!("s7 variant {variant}"));
        later_ops(&map, &mut model, &format!("s7 variant {variant} later"));
    }
}

// ---------------------------------------------------------------------------------------------
// S8: many threads, random panics, shared small map; finishes and agrees with per-key models
// ---------------------------------------------------------------------------------------------

#[test]
fn s8_stress_random_panics() {
    quiet_panics();
    let threads = if cfg!(miri) { 3 } else { 32 };
    let rounds = if cfg!(miri) { 1 } else { 16 };
    let iters = if cfg!(miri) { 40 } else { 1000 };
    for round in 0..rounds {
        let map = Map::with_capacity_and_hasher(if round % 2 == 0 { 1 } else { 64 }, Pass);
        // each thread owns the keys with id % threads == t; hashes collide across threads
        with_timeout("s8", 120, || {
            std::thread::scope(|s| {
                for t in 0..threads as u64 {
                    let map = &map;
                    s.spawn(move || {
                        let mut model = Model::new();
                        let mut x = 0x9E3779B97F4A7C15u64.wrapping_mul(t + 1 + round as u64 * 977);
                        let mut rnd = move || {
                            x ^= x << 13;
                            x ^= x >> 7;
                            x ^= x << 17;
                            x
                        };
                        for _ in 0..iters {
                            let id = (rnd() % 24) * threads as u64 + t;
                            let h = id % 3; // three crowded bins => trees
                            let k = Key::new(h, id);
                            let g = map.guard();
                            match rnd() % 6 {
                                0 | 1 => {
                                    let v = rnd();
                                    assert_eq!(
                                        map.insert(k, v, &g).copied(),
                                        model.insert((h, id), v)
                                    );
                                }
                                2 => {
                                    assert_eq!(
                                        map.remove(&k, &g).copied(),
                                        model.remove(&(h, id))
                                    );
                                }
                                3 => {
                                    let r = catch_unwind(AssertUnwindSafe(|| {
                                        map.compute_if_present(&k, |_, _| boom(0), &g).copied()
                                    }));
                                    assert_eq!(r.is_err(), model.contains_key(&(h, id)));
                                    assert_eq!(map.get(&k, &g), model.get(&(h, id)));
                                }
                                4 => {
                                    // retain over the whole map, only touching own keys; panic midway
                                    let stop = rnd() % 40;
                                    let mut c = 0;
                                    let mut gone = vec![];
                                    let r = catch_unwind(AssertUnwindSafe(|| {
                                        map.retain(
                                            |k, _| {
                                                if c == stop {
                                                    boom(0)
                                                }
                                                c += 1;
                                                if k.id % threads as u64 == t && k.id % 7 == 0 {
                                                    gone.push((k.h, k.id));
                                                    false
                                                } else {
                                                    true
                                                }
                                            },
                                            &g,
                                        )
                                    }));
                                    let _ = r;
                                    for k in gone {
                                        model.remove(&k);
                                    }
                                }
                                _ => {
                                    let stop = rnd() % 40;
                                    let mut c = 0;
                                    let _ = catch_unwind(AssertUnwindSafe(|| {
                                        for _ in map.iter(&g) {
                                            if c == stop {
                                                boom(0)
                                            }
                                            c += 1;
                                        }
                                    }));
                                }
                            }
                        }
                        let g = map.guard();
                        for j in 0..24u64 {
                            let id = j * threads as u64 + t;
                            assert_eq!(map.get(&Key::new(id % 3, id), &g), model.get(&(id % 3, id)));
                        }
                        model.len()
                    });
                }
            });
        });
    }
}

/// The panicking thread dies (no catch_unwind): the panic reaches `join`, the map stays usable.
#[test]
fn s9_thread_dies_in_callback() {
    quiet_panics();
    let (map, mut model) = build(None);
    for &(h, id) in &[(0u64, 1u64), (4, 27), (3, 20)] {
        std::thread::scope(|s| {
            let r = s
                .spawn(|| {
                    map.pin()
                        .compute_if_present(&Key::new(h, id), |_, _| boom(1))
                        .copied()
                })
                .join();
            assert!(r.is_err());
            let r = s
                .spawn(|| map.pin().retain(|k, _| if k.id == id { boom(2) } else { true }))
                .join();
            assert!(r.is_err());
            let r = s
                .spawn(|| map.pin().retain_force(|k, _| if k.id == id { boom(2) } else { true }))
                .join();
            assert!(r.is_err());
            let r = s
                .spawn(|| {
                    for (k, _) in &map.pin() {
                        if k.id == id {
                            boom(3)
                        }
                    }
                })
                .join();
            assert!(r.is_err());
        });
        same(&map, &model, "s9");
    }
    later_ops(&map, &mut model, "s9 later");
}
