//! NOT a C18 violation by the letter of PROPERTY.txt (which only lists the closures passed to
//! compute_if_present / retain / retain_force and iterator consumers).  This file documents the
//! strongest *adjacent* finding: a different user callback - `Eq::eq` / `Ord::cmp` of the key,
//! called by a plain `get` on a tree bin - runs inside `TreeBin::find` while the reader count in
//! `lock_state` is raised by hand (no RAII).  If it panics, the count is never lowered, and the
//! next structural writer on that bin parks forever in `contended_lock` *while holding the bin
//! mutex*, which then blocks every other writer on the bin.
//!
//! `adjacent_ord_panic_in_get_wedges_tree_bin` FAILS (reports the hang) on the unmodified code.

use flurry::HashMap;
use std::hash::{BuildHasher, Hash, Hasher};
use std::panic::{catch_unwind, AssertUnwindSafe};
use std::sync::atomic::{AtomicBool, Ordering};
use std::sync::mpsc;
use std::time::Duration;

static EQ_PANICS: AtomicBool = AtomicBool::new(false);

#[derive(Clone, Debug)]
struct Key(u64);
impl PartialEq for Key {
    fn eq(&self, o: &Self) -> bool {
        if EQ_PANICS.load(Ordering::SeqCst) {
            panic!("user Eq panics");
        }
        self.0 == o.0
    }
}
impl Eq for Key {}
impl PartialOrd for Key {
    fn partial_cmp(&self, o: &Self) -> Option<std::cmp::Ordering> {
        Some(self.cmp(o))
    }
}
impl Ord for Key {
    fn cmp(&self, o: &Self) -> std::cmp::Ordering {
        self.0.cmp(&o.0)
    }
}
impl Hash for Key {
    fn hash<H: Hasher>(&self, s: &mut H) {
        s.write_u64(0) // one bin, equal hashes => tree bin ordered by Ord
    }
}
#[derive(Default)]
struct Pass;
struct PassH(u64);
impl Hasher for PassH {
    fn finish(&self) -> u64 {
        self.0
    }
    fn write(&mut self, _: &[u8]) {}
    fn write_u64(&mut self, v: u64) {
        self.0 = v
    }
}
impl BuildHasher for Pass {
    type Hasher = PassH;
    fn build_hasher(&self) -> PassH {
        PassH(0)
    }
}

#[test]
fn adjacent_ord_panic_in_get_wedges_tree_bin() {
    let map: HashMap<Key, u64, Pass> = HashMap::with_capacity_and_hasher(64, Pass);
    {
        let g = map.guard();
        for i in 0..16 {
            map.insert(Key(i), i, &g);
        }
    }
    // a reader panics inside TreeBin::find (user Eq), with lock_state == READER
    EQ_PANICS.store(true, Ordering::SeqCst);
    let r = catch_unwind(AssertUnwindSafe(|| {
        let g = map.guard();
        map.get(&Key(3), &g).copied()
    }));
    EQ_PANICS.store(false, Ordering::SeqCst);
    assert!(r.is_err());

    #[cfg(flurry_verif)]
    {
        let g = map.guard();
        let s = map.verif_snapshot(&g);
        for b in &s.table.as_ref().unwrap().bins {
            if let flurry::verif_inspect::BinSnap::Tree { lock_state, .. } = b {
                eprintln!("tree bin lock_state after the panic = {lock_state} (READER = 4)");
            }
        }
    }

    // later operations on the same bin, from another thread
    let (tx, rx) = mpsc::channel();
    std::thread::scope(|s| {
        s.spawn(|| {
            let g = map.guard();
            assert_eq!(map.get(&Key(3), &g), Some(&3)); // readers still fine
            tx.send("get").unwrap();
            map.insert(Key(100), 100, &g); // put_tree_val: needs lock_root only if it rebalances...
            tx.send("insert").unwrap();
            map.remove(&Key(5), &g); // remove_tree_node: lock_root => waits for the leaked reader
            tx.send("remove").unwrap();
        });
        let mut done = vec![];
        loop {
            match rx.recv_timeout(Duration::from_secs(5)) {
                Ok(x) => {
                    done.push(x);
                    if x == "remove" {
                        break;
                    }
                }
                Err(_) => {
                    eprintln!(
                        "HANG: after a panic in the key's Eq during get(), later operations completed: {done:?}; \
                         the next one never returns (writer parked in TreeBin::contended_lock holding the bin mutex)"
                    );
                    std::process::exit(101);
                }
            }
        }
    });
}

// ---------------------------------------------------------------------------------------------
// second adjacent observation: `K::clone` panics inside `transfer`
// ---------------------------------------------------------------------------------------------

static CLONE_PANICS: AtomicBool = AtomicBool::new(false);

#[derive(Debug, PartialEq, Eq, PartialOrd, Ord, Hash)]
struct CKey(u64);
impl Clone for CKey {
    fn clone(&self) -> Self {
        if CLONE_PANICS.load(Ordering::SeqCst) && self.0 == 3 {
            panic!("user Clone panics");
        }
        CKey(self.0)
    }
}

/// Informational (passes): after a `K::clone` panic inside `transfer`, the map stays usable but the
/// resize is never finished (`size_ctl` stays negative, `next_table` stays set), and dropping the
/// map trips the `next_table.is_null()` assertion in `Drop for HashMap`.
#[test]
fn adjacent_clone_panic_in_transfer_leaves_resize_unfinished() {
    let map: HashMap<CKey, u64, Pass> = HashMap::with_capacity_and_hasher(16, Pass);
    let g = map.guard();
    // bin 3 of a 32-bin table: keys 3 and 35 (35 is the last run => 3 gets cloned by transfer)
    for k in [3u64, 35, 67, 1, 2] {
        map.insert(CKey(k), k, &g);
    }
    CLONE_PANICS.store(true, Ordering::SeqCst);
    let r = catch_unwind(AssertUnwindSafe(|| map.reserve(500, &g)));
    CLONE_PANICS.store(false, Ordering::SeqCst);
    eprintln!("reserve panicked: {}", r.is_err());
    for k in 100..400u64 {
        map.insert(CKey(k), k, &g);
    }
    for k in [3u64, 35, 67, 1, 2] {
        assert_eq!(map.get(&CKey(k), &g), Some(&k));
    }
    assert_eq!(map.len(), 305);
    #[cfg(flurry_verif)]
    {
        let s = map.verif_snapshot(&g);
        eprintln!(
            "after 300 more inserts: table len {}, size_ctl {}, next_table set: {}, transfer_index {}",
            s.table.as_ref().unwrap().len,
            s.size_ctl,
            s.next_table_addr != 0,
            s.transfer_index
        );
    }
    drop(g);
    // `Drop for HashMap` asserts that no resize is in progress (src/map.rs:3026)
    let r = catch_unwind(AssertUnwindSafe(move || drop(map)));
    eprintln!("dropping the map panicked: {}", r.is_err());
}
