//! C03 hunt: `clear()` can retire (and have freed) values and nodes that are still reachable from
//! the old table of a resize in progress.
//!
//! Build/run (hooks are needed to hold the resizer between two adjacent stores):
//!
//!   RUSTFLAGS="--cfg flurry_verif" CARGO_TARGET_DIR=target/verif \
//!       cargo test --offline --test hunt_demo -- --nocapture --test-threads=1
//!
//! Mechanism (src/map.rs, fn transfer, list-bin case, lines 942-944; same shape for tree bins at
//! 1099-1101):
//!
//!     next_table.store_bin(i, low_bin);          // new table already shows the split bin ...
//!     next_table.store_bin(i + n, high_bin);
//!     table.store_bin(i, table.get_moved(..));   // ... while the old table still shows the old bin
//!
//! Between the second and the third store the same `Linked<V>` value allocations (and the reused
//! `last_run` nodes) are reachable through BOTH tables. Every per-key operation is immune, because
//! it only moves on to the new table after it has seen `Moved` in *its own* bin of the old table.
//! `clear()` is not: after the first `Moved` bin it meets it calls `help_transfer`, takes the
//! returned next table and restarts from index 0 in it (map.rs:1523-1527), i.e. it sweeps bins of
//! the new table whose counterpart in the old table has not been forwarded yet. The bin lock does
//! not help: the resizer holds the lock of the OLD head node, `clear()` locks the head of the NEW
//! bin, which is a freshly allocated copy (or a reused non-head node) whose lock is free.
//! `clear()` then retires the nodes and the values (map.rs:1549-1578). They are still linked from
//! `old_table[i]`, and `HashMap::table` still is the old table, so a thread that pins a guard
//! *after* that retirement still finds them with `get` - but it is not counted in the retired
//! batch, so the memory is freed as soon as the threads that were active at retirement unpin.
//!
//! The test below forces exactly this schedule and then checks that a `&V` returned by `get`
//! under a guard that is still alive has not been dropped. It fails on the unmodified code.
#![cfg(flurry_verif)]

use flurry::verif::{self, Event, Hooks, Kind};
use flurry::verif_inspect::BinSnap;
use flurry::HashMap;
use std::cell::Cell;
use std::hash::{BuildHasherDefault, Hasher};
use std::sync::atomic::{AtomicBool, AtomicUsize, Ordering::SeqCst};
use std::sync::{Arc, Condvar, Mutex};

/// key == hash, so `bin = key & (n - 1)`.
#[derive(Default)]
struct IdHasher(u64);
impl Hasher for IdHasher {
    fn finish(&self) -> u64 {
        self.0
    }
    fn write(&mut self, _: &[u8]) {
        unreachable!("only u64 keys")
    }
    fn write_u64(&mut self, n: u64) {
        self.0 = n;
    }
}
type Map = HashMap<u64, Tracked, BuildHasherDefault<IdHasher>>;

/// A value that records that its destructor ran (= the map's collector reclaimed it).
struct Tracked {
    id: u64,
    dropped: Arc<AtomicBool>,
}
impl Drop for Tracked {
    fn drop(&mut self) {
        self.dropped.store(true, SeqCst);
    }
}
fn tracked(id: u64) -> (Tracked, Arc<AtomicBool>) {
    let f = Arc::new(AtomicBool::new(false));
    (
        Tracked {
            id,
            dropped: f.clone(),
        },
        f,
    )
}

// ---------------------------------------------------------------------------------------------
// hook: suspend a chosen thread immediately before a chosen atomic access
// ---------------------------------------------------------------------------------------------

#[derive(Default)]
struct Gate {
    st: Mutex<(bool, bool)>, // (arrived, released)
    cv: Condvar,
}
impl Gate {
    fn reset(&self) {
        *self.st.lock().unwrap() = (false, false);
    }
    fn arrive_and_wait(&self) {
        let mut g = self.st.lock().unwrap();
        g.0 = true;
        self.cv.notify_all();
        while !g.1 {
            g = self.cv.wait(g).unwrap();
        }
    }
    fn wait_arrived(&self) {
        let mut g = self.st.lock().unwrap();
        while !g.0 {
            g = self.cv.wait(g).unwrap();
        }
    }
    fn release(&self) {
        self.st.lock().unwrap().1 = true;
        self.cv.notify_all();
    }
}

const ROLE_NONE: u8 = 0;
const ROLE_LEARN: u8 = 1; // main thread while it probes the address of old_table.bins[J]
const ROLE_RESIZER: u8 = 2;
const ROLE_CLEARER: u8 = 3;
thread_local! { static ROLE: Cell<u8> = const { Cell::new(ROLE_NONE) }; }

struct H {
    cell_j: AtomicUsize,        // address of old_table.bins[J]
    resizer_gate: Gate,         // resizer parked right before `old_table.bins[J] = Moved`
    resizer_fired: AtomicBool,
    clearer_gate: Gate,         // clearer parked right before it loads old_table.bins[J + 1]
    clearer_fired: AtomicBool,
}
impl Hooks for H {
    fn event(&self, e: &Event) {
        match ROLE.with(|r| r.get()) {
            ROLE_LEARN => {
                if e.kind == Kind::Cas && e.what.contains("BinEntry") {
                    self.cell_j.store(e.addr, SeqCst);
                }
            }
            ROLE_RESIZER => {
                // the only `Store` a resizer ever does to a bin of the OLD table is the
                // forwarding-node store `table.store_bin(i, table.get_moved(..))`
                if e.kind == Kind::Store
                    && e.addr == self.cell_j.load(SeqCst)
                    && !self.resizer_fired.swap(true, SeqCst)
                {
                    eprintln!("    [resizer] parked before {:?} at {}", e.kind, e.loc);
                    self.resizer_gate.arrive_and_wait();
                }
            }
            ROLE_CLEARER => {
                if e.kind == Kind::Load
                    && e.addr == self.cell_j.load(SeqCst) + std::mem::size_of::<usize>()
                    && !self.clearer_fired.swap(true, SeqCst)
                {
                    eprintln!("    [clearer] parked before {:?} at {}", e.kind, e.loc);
                    self.clearer_gate.arrive_and_wait();
                }
            }
            _ => {}
        }
    }
}
static HOOK: std::sync::OnceLock<H> = std::sync::OnceLock::new();
static SERIAL: Mutex<()> = Mutex::new(());

fn hook() -> &'static H {
    let h = HOOK.get_or_init(|| H {
        cell_j: AtomicUsize::new(0),
        resizer_gate: Gate::default(),
        resizer_fired: AtomicBool::new(false),
        clearer_gate: Gate::default(),
        clearer_fired: AtomicBool::new(false),
    });
    verif::install(h);
    h
}

fn describe<K: std::fmt::Debug, V>(b: &BinSnap<'_, K, V>) -> String {
    match b {
        BinSnap::Empty => "empty".into(),
        BinSnap::Moved => "Moved".into(),
        BinSnap::List(v) => format!(
            "list {:?}",
            v.iter()
                .map(|n| format!("key {:?} node@{:#x} value@{:#x}", n.key, n.addr, n.value_addr))
                .collect::<Vec<_>>()
        ),
        BinSnap::Tree { .. } => "tree".into(),
    }
}

const N: u64 = 32; // old table length
const J: u64 = 20; // the bin the resizer is suspended in
const KA: u64 = J; //       hash & N == 0  -> goes to new_table[J]
const KB: u64 = J + N; //   hash & N != 0  -> goes to new_table[J + N]; it is the reused `last_run`
const KX: u64 = N - 1; // a key of another bin, used only to produce garbage

struct Outcome {
    a_dropped: bool,
    b_dropped: bool,
}

/// `batch`: `None` = the map's default collector, `Some(b)` = `Collector::new().batch_size(b)`.
fn scenario(batch: Option<usize>) -> Outcome {
    let h = hook();
    h.cell_j.store(0, SeqCst);
    h.resizer_gate.reset();
    h.clearer_gate.reset();
    h.resizer_fired.store(false, SeqCst);
    h.clearer_fired.store(false, SeqCst);

    // 32 bins, resize threshold 24
    let mut map: Map = HashMap::with_capacity_and_hasher(20, Default::default());
    if let Some(b) = batch {
        map = map.with_collector(seize::Collector::new().batch_size(b));
    }
    let map = &map;

    // learn the address of old_table.bins[J] from the CAS of a probe insert
    {
        let g = map.guard();
        ROLE.with(|r| r.set(ROLE_LEARN));
        map.insert(KA, tracked(0).0, &g);
        ROLE.with(|r| r.set(ROLE_NONE));
        map.remove(&KA, &g);
        assert_ne!(h.cell_j.load(SeqCst), 0);
        let s = map.verif_snapshot(&g);
        assert_eq!(s.table.as_ref().unwrap().len, N as usize);
    }

    let mut out = Outcome {
        a_dropped: false,
        b_dropped: false,
    };

    std::thread::scope(|sc| {
        // ---- 1. clearer starts `clear()` on the (empty) map and is suspended after it has
        //         passed bins 0..=J of the old table, right before it looks at bin J+1.
        //         (With more than one transfer stride this first step is not even needed: any
        //         `Moved` bin below J does the job. Doing it this way makes the schedule
        //         independent of the number of CPUs, which decides the stride.)
        let clearer = sc.spawn(move || {
            ROLE.with(|r| r.set(ROLE_CLEARER));
            let g = map.guard();
            map.clear(&g);
            // produce enough further garbage to push the batches that hold what `clear`
            // retired out of this thread's local batch (batch size is at most 120)
            for _ in 0..200 {
                map.insert(KX, tracked(KX).0, &g);
                map.remove(&KX, &g);
            }
            drop(g);
        });
        h.clearer_gate.wait_arrived();

        // ---- 2. two keys in bin J: A -> B, A stays low, B goes high (B is `last_run`)
        let (va, fa) = tracked(KA);
        let (vb, fb) = tracked(KB);
        {
            let g = map.guard();
            map.insert(KA, va, &g);
            map.insert(KB, vb, &g);
            let s = map.verif_snapshot(&g);
            eprintln!("  before resize : old[{J}] = {}", describe(&s.table.as_ref().unwrap().bins[J as usize]));
        }

        // ---- 3. resizer: 32 -> 64, suspended in bin J between
        //             next_table.store_bin(J + N, high)   and   table.store_bin(J, Moved)
        let resizer = sc.spawn(move || {
            ROLE.with(|r| r.set(ROLE_RESIZER));
            let g = map.guard();
            map.reserve(18, &g);
            drop(g); // <- unpinning is what finally frees the batches
        });
        h.resizer_gate.wait_arrived();
        {
            let g = map.guard();
            let s = map.verif_snapshot(&g);
            let t1 = s.table.as_ref().unwrap();
            let t2 = t1.forward.as_ref().expect("bins above J are forwarded");
            eprintln!("  resizer parked: old[{J}] = {}", describe(&t1.bins[J as usize]));
            eprintln!("                  new[{J}] = {}", describe(&t2.bins[J as usize]));
            eprintln!("                  new[{}] = {}", J + N, describe(&t2.bins[(J + N) as usize]));
            assert!(matches!(t1.bins[J as usize], BinSnap::List(_)));
            assert!(matches!(t2.bins[J as usize], BinSnap::List(_)));
            assert!(matches!(t2.bins[(J + N) as usize], BinSnap::List(_)));
        }

        // ---- 4. let `clear()` go on: old[J+1] is Moved -> help_transfer -> restart in the new
        //         table -> it empties new[J] and new[J+N] and retires nodes and values.
        //         (A repaired `clear()` may instead wait for the resize; then we give up waiting
        //         after a while and go on, the final check is the same.)
        h.clearer_gate.release();
        let t0 = std::time::Instant::now();
        while !clearer.is_finished() && t0.elapsed() < std::time::Duration::from_secs(3) {
            std::thread::sleep(std::time::Duration::from_millis(5));
        }
        eprintln!(
            "  clear() finished while the resizer is parked inside bin {J}: {}",
            clearer.is_finished()
        );

        // ---- 5. a thread that pins only now (after the retirement) still finds both entries,
        //         because HashMap::table is still the old table and old[J] is still A -> B
        let gx = map.guard();
        {
            let s = map.verif_snapshot(&gx);
            let t1 = s.table.as_ref().unwrap();
            let t2 = t1.forward.as_ref().unwrap();
            eprintln!("  after clear() : old[{J}] = {}", describe(&t1.bins[J as usize]));
            eprintln!("                  new[{J}] = {}", describe(&t2.bins[J as usize]));
            eprintln!("                  new[{}] = {}", J + N, describe(&t2.bins[(J + N) as usize]));
        }
        let ra: Option<&Tracked> = map.get(&KA, &gx);
        let rb: Option<&Tracked> = map.get(&KB, &gx);
        eprintln!(
            "  fresh guard   : get(&{KA}) = {:?}, get(&{KB}) = {:?}",
            ra.map(|t| t.id),
            rb.map(|t| t.id)
        );
        assert!(!fa.load(SeqCst) && !fb.load(SeqCst));

        // ---- 6. the resizer finishes and unpins
        h.resizer_gate.release();
        resizer.join().unwrap();
        clearer.join().unwrap();

        // `gx` is still alive, `ra` / `rb` were handed out under it
        out.a_dropped = ra.is_some() && fa.load(SeqCst);
        out.b_dropped = rb.is_some() && fb.load(SeqCst);
        eprintln!(
            "  guard still held; value behind get(&{KA}) dropped: {}, value behind get(&{KB}) dropped: {}",
            out.a_dropped, out.b_dropped
        );
        if cfg!(miri) || std::env::var_os("HUNT_TOUCH").is_some() {
            // actually use the references (undefined behaviour on the unmodified code; under
            // Miri this is reported as a use of deallocated memory)
            eprintln!(
                "  reading through the references: {:?} {:?}",
                ra.map(|t| t.id),
                rb.map(|t| t.id)
            );
        }
        drop(gx);
    });
    out
}

#[test]
fn clear_frees_values_still_reachable_from_old_table_batch_1() {
    let _s = SERIAL.lock().unwrap_or_else(|e| e.into_inner());
    let o = scenario(Some(1));
    assert!(
        !o.a_dropped && !o.b_dropped,
        "a value returned by get() was dropped while the guard it was obtained under is still held \
         (A dropped: {}, B dropped: {})",
        o.a_dropped,
        o.b_dropped
    );
}

#[test]
fn clear_frees_values_still_reachable_from_old_table_default_collector() {
    let _s = SERIAL.lock().unwrap_or_else(|e| e.into_inner());
    let o = scenario(None);
    assert!(
        !o.a_dropped && !o.b_dropped,
        "a value returned by get() was dropped while the guard it was obtained under is still held \
         (A dropped: {}, B dropped: {})",
        o.a_dropped,
        o.b_dropped
    );
}
