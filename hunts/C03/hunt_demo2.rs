//! C03 hunt, second demonstration: a `Clone` impl of the key type that panics inside `untreeify`
//! leaves a tree node half removed; a later `remove` of that node dereferences and writes a
//! neighbour node that has been retired AND reclaimed in the meantime. Single threaded, no
//! scheduling involved.
//!
//! Two ways to run it:
//!
//!  (a) Miri, ordinary build (reports the use of freed memory inside `remove_tree_node`):
//!        MIRIFLAGS="-Zmiri-ignore-leaks" cargo +nightly miri test --offline --test hunt_demo2
//!
//!  (b) hook build, no UB executed: the hook sees the `Deref` pre-event for the address of the
//!      freed node and panics before the access happens:
//!        RUSTFLAGS="--cfg flurry_verif" CARGO_TARGET_DIR=target/verif \
//!            cargo test --offline --test hunt_demo2 -- --nocapture --test-threads=1
//!
//!  In an ordinary non-Miri build the last step (which is undefined behaviour) is only executed
//!  if HUNT_TOUCH is set in the environment.
//!
//! Mechanism: `replace_node` / `compute_if_present` call `TreeBin::remove_tree_node(p, ..)`.
//! When that finds the tree too small it has already unlinked `p` from the `first`/`next`/`prev`
//! list but NOT from the red-black tree, returns `true`, and relies on the caller to replace the
//! whole bin by `untreeify(..)` (src/map.rs:2342-2367 and 2661-2675). `untreeify` clones every
//! key (src/map.rs:2959). If that clone panics, the bin lock is released by unwinding and the
//! tree bin stays in the table with `p` still in the tree (found by `get`, `remove`, ...), but no
//! longer in the list, and with `p.next` / `p.prev` frozen. Nodes that are removed later are
//! unlinked from the list without touching `p`, so `p.next` keeps pointing at a node that gets
//! retired and freed. The next `remove(p)` does (src/node.rs:549-567)
//!
//!     let next = p.next;  let prev = p.prev;
//!     if prev.is_null() { self.first.store(next) } else { prev.next.store(next) }
//!     if !next.is_null() { get_tree_node(next).prev.store(prev) }     // <- freed memory
//!
//! i.e. it reads and writes a node after it was released for reclamation and reclaimed, and it
//! links the freed node back into the bin (`first` = dangling), from where iterators hand out
//! `&K` / `&V` into freed memory.

use flurry::HashMap;
use std::hash::{BuildHasherDefault, Hash, Hasher};
use std::panic::{catch_unwind, AssertUnwindSafe};
use std::sync::atomic::{AtomicBool, AtomicU64, Ordering::SeqCst};
use std::sync::Mutex;

#[derive(Default)]
struct IdHasher(u64);
impl Hasher for IdHasher {
    fn finish(&self) -> u64 {
        self.0
    }
    fn write(&mut self, _: &[u8]) {
        unreachable!()
    }
    fn write_u64(&mut self, n: u64) {
        self.0 = n;
    }
}

static PANIC_IN_CLONE: AtomicBool = AtomicBool::new(false);
static SERIAL: AtomicU64 = AtomicU64::new(1);
/// serials of key objects whose destructor has run
static DROPPED: Mutex<Vec<u64>> = Mutex::new(Vec::new());

const BIN: u64 = 5;
const TABLE: u64 = 64;

/// every key object (original or clone) has its own serial, so that we can tell when the key
/// object that lives inside one particular node has been dropped (= the node was reclaimed)
#[derive(Debug)]
struct Key {
    id: u64,
    serial: u64,
}
impl Key {
    fn new(id: u64) -> Self {
        Key {
            id,
            serial: SERIAL.fetch_add(1, SeqCst),
        }
    }
}
impl Clone for Key {
    fn clone(&self) -> Self {
        if PANIC_IN_CLONE.load(SeqCst) {
            panic!("Key::clone panics (id {})", self.id);
        }
        Key::new(self.id)
    }
}
impl Drop for Key {
    fn drop(&mut self) {
        DROPPED.lock().unwrap().push(self.serial);
    }
}
impl Hash for Key {
    fn hash<H: Hasher>(&self, h: &mut H) {
        // every key lands in bin BIN of a 64-bin table (and the table never grows in this test)
        h.write_u64(self.id * TABLE + BIN)
    }
}
impl PartialEq for Key {
    fn eq(&self, o: &Self) -> bool {
        self.id == o.id
    }
}
impl Eq for Key {}
impl PartialOrd for Key {
    fn partial_cmp(&self, o: &Self) -> Option<std::cmp::Ordering> {
        Some(self.cmp(o))
    }
}
impl Ord for Key {
    fn cmp(&self, o: &Self) -> std::cmp::Ordering {
        self.id.cmp(&o.id)
    }
}

type Map = HashMap<Key, u64, BuildHasherDefault<IdHasher>>;

#[cfg(flurry_verif)]
mod hook {
    use flurry::verif::{Event, Hooks, Kind};
    use std::sync::atomic::{AtomicUsize, Ordering::SeqCst};
    /// address of a node that is known to have been reclaimed (0 = none)
    pub static FREED_NODE: AtomicUsize = AtomicUsize::new(0);
    pub struct H;
    impl Hooks for H {
        fn event(&self, e: &Event) {
            let f = FREED_NODE.load(SeqCst);
            if f != 0 && e.addr == f && matches!(e.kind, Kind::Deref) {
                // pre-event: the access has not happened yet
                FREED_NODE.store(0, SeqCst);
                panic!(
                    "flurry is about to dereference node {:#x} at {}, which has already been reclaimed",
                    f, e.loc
                );
            }
        }
    }
    pub static HOOK: H = H;
}

fn scenario(batch: Option<usize>) {
    let mut map: Map = HashMap::with_capacity_and_hasher(40, Default::default()); // 64 bins
    if let Some(b) = batch {
        map = map.with_collector(seize::Collector::new().batch_size(b));
    }
    // never run the map's destructor: after step 5 the bin's `first` pointer dangles and
    // `drop_bins` would free the reclaimed node a second time (observed: glibc aborts with
    // "malloc_consolidate(): invalid chunk size")
    let map = std::mem::ManuallyDrop::new(map);
    let map: &Map = &map;
    #[cfg(flurry_verif)]
    {
        hook::FREED_NODE.store(0, SeqCst);
        flurry::verif::install(&hook::HOOK);
    }
    // one line per panic instead of a backtrace
    std::panic::set_hook(Box::new(|i| {
        let msg = i.to_string();
        eprintln!("    panic: {}", msg.lines().take(2).collect::<Vec<_>>().join(" "));
    }));

    let probe = |id: u64| Key { id, serial: 0 };

    // 1. ten colliding keys: the 9th insert converts the bin into a TreeBin.
    //    list order (first/next) is then 9, 0, 1, 2, ..., 8
    {
        let g = map.guard();
        for id in 0..10 {
            map.insert(Key::new(id), id, &g);
        }
    }

    // 2. remove from the front of the list with a panicking Clone armed, until the removal that
    //    decides "too small, untreeify" blows up inside `untreeify`.
    PANIC_IN_CLONE.store(true, SeqCst);
    let mut p = None;
    for id in [9u64, 0, 1, 2, 3, 4, 5, 6, 7] {
        let r = catch_unwind(AssertUnwindSafe(|| {
            let g = map.guard();
            map.remove(&probe(id), &g).copied()
        }));
        match r {
            Ok(v) => assert_eq!(v, Some(id)),
            Err(_) => {
                p = Some(id);
                break;
            }
        }
    }
    PANIC_IN_CLONE.store(false, SeqCst);
    let p = p.expect("some removal must have reached untreeify");
    let x = p + 1; // p's list successor at the time p was unlinked from the list
    eprintln!("  remove({p}) panicked inside untreeify; its frozen `next` is the node of key {x}");
    {
        let g = map.guard();
        // half removed: still found through the tree, gone from the list
        assert_eq!(map.get(&probe(p), &g), Some(&p));
        eprintln!(
            "  after the panic: get(&{p}) finds it: true, iteration finds it: {}",
            map.iter(&g).any(|(k, _)| k.id == p)
        );
        assert!(map.iter(&g).any(|(k, _)| k.id == x));
    }

    // NOTE on debug builds: with debug assertions on, every later writer in this bin ends with
    // `TreeNode::check_invariants`, which notices the broken prev/next symmetry and panics -
    // but only AFTER the operation has made its changes. `tol` swallows those panics, so the
    // same sequence runs in debug and release builds (in release builds nothing panics here).
    fn tol<R>(f: impl FnOnce() -> R) -> Option<R> {
        catch_unwind(AssertUnwindSafe(f)).ok()
    }

    // 3. make the tree big again so that removals restructure it instead of untreeifying
    {
        let g = map.guard();
        for id in 10..30 {
            tol(|| map.insert(Key::new(id), id, &g).copied());
        }
    }

    // 4. remove x for real and let it be reclaimed
    let x_serial;
    #[cfg(flurry_verif)]
    let x_addr;
    {
        let g = map.guard();
        x_serial = map.get_key_value(&probe(x), &g).unwrap().0.serial;
        #[cfg(flurry_verif)]
        {
            use flurry::verif_inspect::BinSnap;
            let s = map.verif_snapshot(&g);
            let BinSnap::Tree { ref nodes, .. } = s.table.as_ref().unwrap().bins[BIN as usize] else {
                panic!("bin is a tree bin")
            };
            let addr = nodes.iter().find(|n| n.node.key.id == x).unwrap().node.addr;
            eprintln!("  node of key {x} is at {addr:#x}");
            x_addr = addr;
        }
        let r = tol(|| map.remove(&probe(x), &g).copied());
        assert!(r == Some(Some(x)) || (cfg!(debug_assertions) && r.is_none()));
        // more garbage, so that the batch that holds x's node is handed over (batch size <= 120)
        for i in 0..150u64 {
            let k = 1000 + i;
            tol(|| map.insert(Key::new(k), k, &g).copied());
            tol(|| map.remove(&probe(k), &g).copied());
        }
    } // guard dropped: the only active thread unpins -> batches are freed
    let x_freed = DROPPED.lock().unwrap().contains(&x_serial);
    eprintln!("  key object inside the node of key {x} dropped (node reclaimed): {x_freed}");
    assert!(x_freed, "setup: node x should have been reclaimed by now");
    // from here on, any `Shared::deref` of that address is a use after free
    #[cfg(flurry_verif)]
    hook::FREED_NODE.store(x_addr, SeqCst);
    {
        let g = map.guard();
        assert_eq!(map.get(&probe(x), &g), None);
        assert_eq!(map.get(&probe(p), &g), Some(&p)); // p is still in the tree
    }

    // 5. remove p again: reads p.next (= freed node of x), stores it into `first`, writes x.prev
    if cfg!(miri) || cfg!(flurry_verif) || std::env::var_os("HUNT_TOUCH").is_some() {
        let g = map.guard();
        let r = map.remove(&probe(p), &g).copied();
        eprintln!("  remove({p}) returned {r:?}");
        // (the address may be handed out again by the allocator from now on)
        #[cfg(flurry_verif)]
        hook::FREED_NODE.store(0, SeqCst);
        // if we get here at all, the bin's list now starts at the freed node
        let ids: Vec<u64> = map.iter(&g).map(|(k, _)| k.id).collect();
        eprintln!("  iteration now yields {ids:?}");
        assert!(!ids.contains(&x), "iterator yields the key stored in a reclaimed node");
    } else {
        eprintln!("  (not executing the undefined behaviour: run under Miri, with --cfg flurry_verif, or set HUNT_TOUCH)");
    }
}

static SERIALIZE: Mutex<()> = Mutex::new(());

#[test]
fn remove_after_panicking_clone_touches_reclaimed_node_batch_1() {
    let _s = SERIALIZE.lock().unwrap_or_else(|e| e.into_inner());
    scenario(Some(1));
}

#[test]
fn remove_after_panicking_clone_touches_reclaimed_node_default_collector() {
    let _s = SERIALIZE.lock().unwrap_or_else(|e| e.into_inner());
    scenario(None);
}
