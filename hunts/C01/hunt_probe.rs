// Probe (needs --cfg flurry_verif): order of control-word accesses in a single-threaded resize.
#![cfg(flurry_verif)]
use flurry::verif::{Event, Hooks, Kind};
use std::sync::Mutex;
static LOG: Mutex<Vec<String>> = Mutex::new(Vec::new());
struct L;
impl Hooks for L {
    fn event(&self, e: &Event) {
        if matches!(e.what, "size_ctl" | "transfer_index") && e.kind != Kind::Load && e.kind != Kind::Yield {
            LOG.lock().unwrap().push(format!("{:?} {} a={:#x} b={:#x} @{}", e.kind, e.what, e.a, e.b, e.loc.line()));
        } else if e.kind == Kind::Store && e.what.contains("BinEntry") {
            LOG.lock().unwrap().push(format!("bin store @{}", e.loc.line()));
        }
    }
}
#[test]
fn single_threaded_resize_trace() {
    flurry::verif::install(&L);
    let m: flurry::HashMap<u64, u64> = flurry::HashMap::with_capacity(40); // 64 bins, stride 16
    let g = m.guard();
    for k in 0..47 {
        m.insert(k, k, &g);
    }
    LOG.lock().unwrap().clear();
    m.insert(47, 47, &g); // crosses the threshold -> 64 -> 128
    let log = LOG.lock().unwrap();
    for l in log.iter().take(12) {
        println!("{l}");
    }
    println!("... {} events", log.len());
}
