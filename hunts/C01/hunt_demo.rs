// Deterministic scenarios for C01, driven by user callbacks (Hash / Eq / Clone) that suspend or
// unwind a thread at a chosen point inside a map operation.
//
//   tree_reader_unwind_wedges_writers   FAILS on the unmodified code (hang, reported via timeout)
//   the other tests are controls that pass (they document candidates that turned out fine)

use flurry::HashMap;
use std::cell::RefCell;
use std::hash::{BuildHasher, Hash, Hasher};
use std::panic::{catch_unwind, AssertUnwindSafe};
use std::sync::atomic::{AtomicUsize, Ordering};
use std::sync::mpsc::{channel, sync_channel};
use std::sync::Arc;
use std::time::Duration;

thread_local! {
    static ON_EQ: RefCell<Option<Box<dyn FnOnce()>>> = RefCell::new(None);
    static ON_HASH: RefCell<Option<Box<dyn FnOnce()>>> = RefCell::new(None);
    static ON_CLONE: RefCell<Option<(u64, Box<dyn FnOnce()>)>> = RefCell::new(None);
}

#[derive(Debug, PartialOrd, Ord)]
struct Key(u64);
impl PartialEq for Key {
    fn eq(&self, o: &Key) -> bool {
        if let Some(f) = ON_EQ.with(|c| c.borrow_mut().take()) {
            f();
        }
        self.0 == o.0
    }
}
impl Eq for Key {}
impl Clone for Key {
    fn clone(&self) -> Key {
        let hit = ON_CLONE.with(|c| {
            let mut c = c.borrow_mut();
            if matches!(&*c, Some((k, _)) if *k == self.0) {
                c.take()
            } else {
                None
            }
        });
        if let Some((_, f)) = hit {
            f();
        }
        Key(self.0)
    }
}
impl Hash for Key {
    fn hash<H: Hasher>(&self, h: &mut H) {
        if let Some(f) = ON_HASH.with(|c| c.borrow_mut().take()) {
            f();
        }
        h.write_u64(self.0)
    }
}

/// hash = key * mul  (mul = 0: all keys collide with equal hashes; mul = 1: identity)
#[derive(Clone)]
struct Bh(u64);
struct Hs(u64, u64);
impl BuildHasher for Bh {
    type Hasher = Hs;
    fn build_hasher(&self) -> Hs {
        Hs(self.0, 0)
    }
}
impl Hasher for Hs {
    fn write(&mut self, _: &[u8]) {
        unreachable!()
    }
    fn write_u64(&mut self, k: u64) {
        self.1 = k.wrapping_mul(self.0);
    }
    fn finish(&self) -> u64 {
        self.1
    }
}

fn with_timeout<R: Send + 'static>(what: &str, secs: u64, f: impl FnOnce() -> R + Send + 'static) -> R {
    let (tx, rx) = channel();
    std::thread::spawn(move || {
        let _ = tx.send(f());
    });
    match rx.recv_timeout(Duration::from_secs(secs)) {
        Ok(r) => r,
        Err(_) => panic!("TIMEOUT: `{what}` did not return within {secs}s"),
    }
}

/// A `get` that unwinds out of the key's `Eq` while it searches a tree bin leaves the bin's
/// parasitic read lock held for ever (the JDK releases it in a `finally`).  Every later update of
/// that bin that has to restructure the tree then parks for ever *while holding the bin mutex*, so
/// all further updates of any key in that bin hang as well.
#[test]
fn tree_reader_unwind_wedges_writers() {
    // 128 bins (>= MIN_TREEIFY_CAPACITY), all keys in one bin with equal hashes -> tree bin
    let map: Arc<HashMap<Key, u64, Bh>> = Arc::new(HashMap::with_capacity_and_hasher(64, Bh(0)));
    {
        let g = map.guard();
        for k in 0..32 {
            map.insert(Key(k), k, &g);
        }
    }
    // the reader's Eq panics once, inside TreeNode::find_tree_node, under the read lock
    let m = map.clone();
    let r = with_timeout("panicking get", 10, move || {
        ON_EQ.with(|c| *c.borrow_mut() = Some(Box::new(|| panic!("user Eq panics"))));
        catch_unwind(AssertUnwindSafe(|| {
            let g = m.guard();
            m.get(&Key(5), &g).copied()
        }))
        .is_err()
    });
    assert!(r, "the get was expected to unwind");

    // reads still work (they fall back to the linear walk or take another read lock)
    {
        let g = map.guard();
        for k in 0..32 {
            assert_eq!(map.get(&Key(k), &g), Some(&k));
        }
    }
    // a sequential map would simply perform these updates
    let m = map.clone();
    with_timeout("updates after a reader unwound", 10, move || {
        let g = m.guard();
        for k in 0..24 {
            assert_eq!(m.remove(&Key(k), &g), Some(&k));
        }
        for k in 100..140 {
            assert_eq!(m.insert(Key(k), k, &g), None);
        }
    });
}

/// Control for the test above: the same reader merely *suspended* (not unwound) under the read
/// lock.  The writer has to wait for it, lock-free readers keep working, nothing is lost.
#[test]
fn tree_reader_suspended_under_read_lock() {
    let map: Arc<HashMap<Key, u64, Bh>> = Arc::new(HashMap::with_capacity_and_hasher(64, Bh(0)));
    {
        let g = map.guard();
        for k in 0..32 {
            map.insert(Key(k), k, &g);
        }
    }
    let (at_tx, at_rx) = sync_channel::<()>(0);
    let (go_tx, go_rx) = sync_channel::<()>(0);
    let m = map.clone();
    let reader = std::thread::spawn(move || {
        ON_EQ.with(|c| {
            *c.borrow_mut() = Some(Box::new(move || {
                at_tx.send(()).unwrap();
                go_rx.recv().unwrap();
            }))
        });
        let g = m.guard();
        m.get(&Key(5), &g).copied()
    });
    at_rx.recv().unwrap(); // reader is inside the tree, holding the read lock

    let done = Arc::new(AtomicUsize::new(0));
    let (m, d) = (map.clone(), done.clone());
    let writer = std::thread::spawn(move || {
        let g = m.guard();
        for k in 0..24 {
            assert_eq!(m.remove(&Key(k), &g), Some(&k));
            d.fetch_add(1, Ordering::SeqCst);
        }
    });
    std::thread::sleep(Duration::from_millis(300));
    let progressed = done.load(Ordering::SeqCst);
    // other readers are not blocked and see a consistent prefix of the removals
    {
        let g = map.guard();
        for k in 24..32 {
            assert_eq!(map.get(&Key(k), &g), Some(&k));
        }
    }
    go_tx.send(()).unwrap();
    let got = reader.join().unwrap();
    writer.join().unwrap();
    // the reader overlapped remove(5): both answers are linearizable
    assert!(got == Some(5) || got.is_none());
    assert!(progressed < 24, "the writer cannot have finished while a reader held the tree");
    let g = map.guard();
    for k in 0..32 {
        assert_eq!(map.get(&Key(k), &g).copied(), if k < 24 { None } else { Some(k) });
    }
}

/// `get` loads the table pointer *before* it hashes the key.  Suspend it inside `Hash::hash`,
/// let the map grow through several generations (and update/remove the key), then resume: the
/// stale table must forward through the chain of tables and return a linearizable answer.
#[test]
fn get_suspended_after_table_load_across_generations() {
    for scenario in 0..3 {
        let map: Arc<HashMap<Key, u64, Bh>> = Arc::new(HashMap::with_hasher(Bh(1)));
        {
            let g = map.guard();
            for k in 0..4 {
                map.insert(Key(k), k, &g);
            }
        }
        let (at_tx, at_rx) = sync_channel::<()>(0);
        let (go_tx, go_rx) = sync_channel::<()>(0);
        let m = map.clone();
        let reader = std::thread::spawn(move || {
            let g = m.guard();
            ON_HASH.with(|c| {
                *c.borrow_mut() = Some(Box::new(move || {
                    at_tx.send(()).unwrap();
                    go_rx.recv().unwrap();
                }))
            });
            m.get(&Key(2), &g).copied()
        });
        at_rx.recv().unwrap();
        {
            let g = map.guard();
            for k in 4..400 {
                map.insert(Key(k), k, &g); // 16 -> 1024 bins, several generations
            }
            match scenario {
                0 => {}
                1 => {
                    map.insert(Key(2), 22, &g);
                }
                _ => {
                    map.remove(&Key(2), &g);
                }
            }
        }
        go_tx.send(()).unwrap();
        let got = reader.join().unwrap();
        // every table the reader can still see has a forwarding marker in the key's bin, so it
        // must observe the *latest* state
        let want = match scenario {
            0 => Some(2),
            1 => Some(22),
            _ => None,
        };
        assert_eq!(got, want, "scenario {scenario}");
    }
}

/// Suspend a resize in `Clone::clone`, i.e. under the bin lock in the middle of splitting a bin,
/// and run operations on that bin and on its neighbours meanwhile.
#[test]
fn transfer_suspended_inside_a_bin() {
    // 16 bins, identity hash: keys 1, 17, 33, 49 share bin 1 and split to bins 1 / 17 of 32.
    let map: Arc<HashMap<Key, u64, Bh>> = Arc::new(HashMap::with_hasher(Bh(1)));
    {
        let g = map.guard();
        for k in [1u64, 17, 33, 49, 2, 3, 4, 5, 6, 7, 8] {
            map.insert(Key(k), k, &g);
        }
    }
    let (at_tx, at_rx) = sync_channel::<()>(0);
    let (go_tx, go_rx) = sync_channel::<()>(0);
    let m = map.clone();
    let resizer = std::thread::spawn(move || {
        // suspend when the transfer clones key 1 (the head of bin 1; 49 is the reused last run)
        ON_CLONE.with(|c| {
            *c.borrow_mut() = Some((
                17,
                Box::new(move || {
                    at_tx.send(()).unwrap();
                    go_rx.recv().unwrap();
                }),
            ))
        });
        let g = m.guard();
        m.insert(Key(9), 9, &g); // 12th entry: reaches the threshold and resizes 16 -> 32
        ON_CLONE.with(|c| c.borrow_mut().is_none())
    });
    at_rx.recv().unwrap();
    // bin 1 is locked by the transfer, not yet forwarded
    {
        let g = map.guard();
        for k in [1u64, 17, 33, 49, 2, 3, 4, 5, 6, 7, 8, 9] {
            assert_eq!(map.get(&Key(k), &g), Some(&k), "read of {k} during the stalled transfer");
        }
        // other bins (already forwarded or not) accept updates
        assert_eq!(map.insert(Key(2), 200, &g), Some(&2));
        assert_eq!(map.insert(Key(18), 18, &g), None);
        assert_eq!(map.remove(&Key(3), &g), Some(&3));
        // the lock-free fast path of try_insert on the locked bin's head
        assert_eq!(map.try_insert(Key(1), 0, &g).map_err(|e| *e.current), Err(1));
    }
    // writers of the locked bin must wait and then land in the new table
    let m = map.clone();
    let blocked = std::thread::spawn(move || {
        let g = m.guard();
        let a = m.insert(Key(33), 330, &g).copied();
        let b = m.remove(&Key(17), &g).copied();
        let c = m.insert(Key(65), 65, &g).copied();
        (a, b, c)
    });
    std::thread::sleep(Duration::from_millis(200));
    assert!(!blocked.is_finished());
    go_tx.send(()).unwrap();
    assert!(resizer.join().unwrap(), "the clone hook did not fire: scenario is vacuous");
    assert_eq!(blocked.join().unwrap(), (Some(33), Some(17), None));
    let g = map.guard();
    let mut all: Vec<(u64, u64)> = map.iter(&g).map(|(k, v)| (k.0, *v)).collect();
    all.sort();
    assert_eq!(
        all,
        vec![(1, 1), (2, 200), (4, 4), (5, 5), (6, 6), (7, 7), (8, 8), (9, 9), (18, 18), (33, 330), (49, 49), (65, 65)]
    );
    for (k, v) in all {
        assert_eq!(map.get(&Key(k), &g), Some(&v));
    }
}
