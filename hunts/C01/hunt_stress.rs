// Stress search for C01 (linearizability of the per-key API).
//
// Two kinds of rounds, both on many fresh small maps under oversubscription:
//  * "owned": every thread owns a disjoint key set and checks every result against a private
//    sequential model while the other threads force resizes / treeification of the same bins.
//  * "shared": threads hammer a few shared keys with unique values; the per-key history is
//    checked for linearizability with an exhaustive (WGL-style) search.
//
// HUNT_SECS=<n> bounds the run (default 20), HUNT_THREADS (default 4 x cores).

use flurry::HashMap;
use std::collections::HashMap as StdMap;
use std::hash::{BuildHasher, Hash, Hasher};
use std::sync::atomic::{AtomicBool, AtomicU64, Ordering};
use std::sync::{Arc, Barrier};
use std::time::{Duration, Instant};

#[derive(Clone, Copy, Debug, PartialEq, Eq)]
enum Mode {
    Identity,
    Constant,
    SameBinDiffHash,
    FewBins,
    Uniform,
}

#[derive(Clone)]
struct Bh(Mode);
struct Hs(Mode, u64);
impl BuildHasher for Bh {
    type Hasher = Hs;
    fn build_hasher(&self) -> Hs {
        Hs(self.0, 0)
    }
}
fn splitmix(mut z: u64) -> u64 {
    z = z.wrapping_add(0x9e3779b97f4a7c15);
    z = (z ^ (z >> 30)).wrapping_mul(0xbf58476d1ce4e5b9);
    z = (z ^ (z >> 27)).wrapping_mul(0x94d049bb133111eb);
    z ^ (z >> 31)
}
impl Hasher for Hs {
    fn write(&mut self, _: &[u8]) {
        unreachable!()
    }
    fn write_u64(&mut self, k: u64) {
        self.1 = match self.0 {
            Mode::Identity => k,
            Mode::Constant => 0,
            Mode::SameBinDiffHash => k << 40,
            Mode::FewBins => (k % 3) | ((k / 3) << 40),
            Mode::Uniform => splitmix(k),
        };
    }
    fn finish(&self) -> u64 {
        self.1
    }
}

#[derive(Clone, Debug, PartialEq, Eq, PartialOrd, Ord)]
struct Key(u64);
impl Hash for Key {
    fn hash<H: Hasher>(&self, h: &mut H) {
        h.write_u64(self.0)
    }
}

struct Rng(u64);
impl Rng {
    fn next(&mut self) -> u64 {
        self.0 = splitmix(self.0);
        self.0
    }
    fn below(&mut self, n: u64) -> u64 {
        self.next() % n
    }
}

fn make_map(mode: Mode, cap: usize) -> HashMap<Key, u64, Bh> {
    if cap == 0 {
        HashMap::with_hasher(Bh(mode))
    } else {
        HashMap::with_capacity_and_hasher(cap, Bh(mode))
    }
}

const MODES: [Mode; 5] = [
    Mode::Identity,
    Mode::Constant,
    Mode::SameBinDiffHash,
    Mode::FewBins,
    Mode::Uniform,
];
const CAPS: [usize; 6] = [0, 1, 2, 5, 40, 100];

fn env(name: &str, d: u64) -> u64 {
    std::env::var(name).ok().and_then(|s| s.parse().ok()).unwrap_or(d)
}

// ---------------------------------------------------------------------------------------------
// owned keys
// ---------------------------------------------------------------------------------------------

fn owned_round(seed: u64, group: usize, mode: Mode, cap: usize, keys_per_thread: u64, ops: usize, pinned: bool) {
    let map = Arc::new(make_map(mode, cap));
    let bar = Arc::new(Barrier::new(group));
    let mut hs = Vec::new();
    for t in 0..group {
        let map = map.clone();
        let bar = bar.clone();
        hs.push(std::thread::spawn(move || {
            let mut rng = Rng(seed ^ (t as u64).wrapping_mul(0x1234567));
            let mut model: StdMap<u64, u64> = StdMap::new();
            let mut ctr = 0u64;
            bar.wait();
            for _ in 0..ops {
                let k = rng.below(keys_per_thread) * group as u64 + t as u64;
                ctr += 1;
                let v = ((t as u64) << 32) | ctr;
                let op = rng.below(10);
                let guard = map.guard();
                let ctx = |what: &str| format!("seed={seed} t={t} mode={mode:?} cap={cap} key={k} op={what}");
                match op {
                    0 | 1 | 2 => {
                        let got = if pinned {
                            map.pin().insert(Key(k), v).copied()
                        } else {
                            map.insert(Key(k), v, &guard).copied()
                        };
                        let exp = model.insert(k, v);
                        assert_eq!(got, exp, "{}", ctx("insert"));
                    }
                    3 => {
                        let got = match map.try_insert(Key(k), v, &guard) {
                            Ok(r) => Ok(*r),
                            Err(e) => Err((*e.current, e.not_inserted)),
                        };
                        let exp = match model.get(&k) {
                            Some(c) => Err((*c, v)),
                            None => {
                                model.insert(k, v);
                                Ok(v)
                            }
                        };
                        assert_eq!(got, exp, "{}", ctx("try_insert"));
                    }
                    4 | 5 => {
                        let got = map.remove(&Key(k), &guard).copied();
                        let exp = model.remove(&k);
                        assert_eq!(got, exp, "{}", ctx("remove"));
                    }
                    6 => {
                        let got = map.remove_entry(&Key(k), &guard).map(|(a, b)| (a.0, *b));
                        let exp = model.remove(&k).map(|b| (k, b));
                        assert_eq!(got, exp, "{}", ctx("remove_entry"));
                    }
                    7 => {
                        let del = rng.below(3) == 0;
                        let mut called = None;
                        let got = map
                            .compute_if_present(
                                &Key(k),
                                |kk, vv| {
                                    called = Some((kk.0, *vv));
                                    if del {
                                        None
                                    } else {
                                        Some(v)
                                    }
                                },
                                &guard,
                            )
                            .copied();
                        let cur = model.get(&k).copied();
                        assert_eq!(called, cur.map(|c| (k, c)), "{}", ctx("compute(call)"));
                        let exp = match cur {
                            None => None,
                            Some(_) if del => {
                                model.remove(&k);
                                None
                            }
                            Some(_) => {
                                model.insert(k, v);
                                Some(v)
                            }
                        };
                        assert_eq!(got, exp, "{}", ctx("compute"));
                    }
                    8 => {
                        let got = map.get(&Key(k), &guard).copied();
                        assert_eq!(got, model.get(&k).copied(), "{}", ctx("get"));
                        let got = map.get_key_value(&Key(k), &guard).map(|(a, b)| (a.0, *b));
                        assert_eq!(got, model.get(&k).map(|b| (k, *b)), "{}", ctx("get_key_value"));
                    }
                    _ => {
                        let got = map.contains_key(&Key(k), &guard);
                        assert_eq!(got, model.contains_key(&k), "{}", ctx("contains_key"));
                    }
                }
            }
            model
        }));
    }
    let mut all: StdMap<u64, u64> = StdMap::new();
    for h in hs {
        match h.join() {
            Ok(m) => all.extend(m),
            Err(e) => std::panic::resume_unwind(e),
        }
    }
    // final content
    let guard = map.guard();
    let mut seen: StdMap<u64, u64> = StdMap::new();
    for (k, v) in map.iter(&guard) {
        assert!(seen.insert(k.0, *v).is_none(), "duplicate key {} in final iteration seed={seed} mode={mode:?} cap={cap}", k.0);
    }
    assert_eq!(seen, all, "final content seed={seed} mode={mode:?} cap={cap}");
    for (k, v) in &all {
        assert_eq!(map.get(&Key(*k), &guard), Some(v), "final get seed={seed}");
    }
    assert_eq!(map.len(), all.len(), "len seed={seed} mode={mode:?} cap={cap}");
}

// ---------------------------------------------------------------------------------------------
// shared keys + per-key linearizability check
// ---------------------------------------------------------------------------------------------

#[derive(Clone, Debug)]
enum Call {
    Insert(u64),
    TryInsert(u64),
    Remove,
    Get,
    Contains,
    Compute(Option<u64>), // new value or delete
}
#[derive(Clone, Debug, PartialEq)]
enum Ret {
    Opt(Option<u64>),
    Bool(bool),
    Try(Result<u64, u64>),
}
#[derive(Clone, Debug)]
struct Ev {
    key: u64,
    call: Call,
    ret: Ret,
    inv: u64,
    res: u64,
    thread: usize,
}

fn apply(state: Option<u64>, call: &Call) -> (Option<u64>, Ret) {
    match call {
        Call::Insert(v) => (Some(*v), Ret::Opt(state)),
        Call::TryInsert(v) => match state {
            Some(c) => (state, Ret::Try(Err(c))),
            None => (Some(*v), Ret::Try(Ok(*v))),
        },
        Call::Remove => (None, Ret::Opt(state)),
        Call::Get => (state, Ret::Opt(state)),
        Call::Contains => (state, Ret::Bool(state.is_some())),
        Call::Compute(nv) => match state {
            None => (None, Ret::Opt(None)),
            Some(_) => (*nv, Ret::Opt(*nv)),
        },
    }
}

/// exhaustive search with memoisation on (done-set, state)
fn linearizable(evs: &[Ev], final_state: Option<u64>) -> bool {
    let n = evs.len();
    assert!(n <= 120, "history too long for the bitset");
    let mut memo: std::collections::HashSet<(u128, Option<u64>)> = std::collections::HashSet::new();
    fn rec(evs: &[Ev], done: u128, state: Option<u64>, memo: &mut std::collections::HashSet<(u128, Option<u64>)>, final_state: Option<u64>) -> bool {
        let n = evs.len();
        if done.count_ones() as usize == n {
            return state == final_state;
        }
        if !memo.insert((done, state)) {
            return false;
        }
        // minimal response among pending
        let mut min_res = u64::MAX;
        for (i, e) in evs.iter().enumerate() {
            if done & (1u128 << i) == 0 && e.res < min_res {
                min_res = e.res;
            }
        }
        for (i, e) in evs.iter().enumerate() {
            if done & (1u128 << i) != 0 || e.inv > min_res {
                continue;
            }
            let (ns, r) = apply(state, &e.call);
            if r == e.ret && rec(evs, done | (1u128 << i), ns, memo, final_state) {
                return true;
            }
        }
        false
    }
    rec(evs, 0, None, &mut memo, final_state)
}

fn shared_round(seed: u64, group: usize, mode: Mode, cap: usize, nkeys: u64, filler: u64, ops: usize) {
    let map = Arc::new(make_map(mode, cap));
    let bar = Arc::new(Barrier::new(group));
    let clock = Arc::new(AtomicU64::new(0));
    let mut hs = Vec::new();
    for t in 0..group {
        let map = map.clone();
        let bar = bar.clone();
        let clock = clock.clone();
        hs.push(std::thread::spawn(move || {
            let mut rng = Rng(seed ^ (t as u64 + 1).wrapping_mul(0x9876543));
            let mut evs = Vec::new();
            let mut ctr = 0u64;
            let mut fill = 0u64;
            bar.wait();
            for _ in 0..ops {
                // filler inserts on private keys drive growth / treeification of the shared bins
                if filler > 0 && rng.below(2) == 0 {
                    fill += 1;
                    let fk = 1000 + (fill % filler) * group as u64 + t as u64;
                    let g = map.guard();
                    if rng.below(3) == 0 {
                        map.remove(&Key(fk), &g);
                    } else {
                        map.insert(Key(fk), 0, &g);
                    }
                    continue;
                }
                let k = rng.below(nkeys);
                ctr += 1;
                let v = ((t as u64 + 1) << 32) | ctr;
                let g = map.guard();
                let which = rng.below(8);
                let inv = clock.fetch_add(1, Ordering::SeqCst);
                let (call, ret) = match which {
                    0 | 1 => {
                        let r = map.insert(Key(k), v, &g).copied();
                        (Call::Insert(v), Ret::Opt(r))
                    }
                    2 => {
                        let r = match map.try_insert(Key(k), v, &g) {
                            Ok(r) => Ok(*r),
                            Err(e) => Err(*e.current),
                        };
                        (Call::TryInsert(v), Ret::Try(r))
                    }
                    3 | 4 => {
                        let r = if rng.below(2) == 0 {
                            map.remove(&Key(k), &g).copied()
                        } else {
                            map.remove_entry(&Key(k), &g).map(|(kk, vv)| {
                                assert_eq!(kk.0, k);
                                *vv
                            })
                        };
                        (Call::Remove, Ret::Opt(r))
                    }
                    5 => {
                        let r = if rng.below(2) == 0 {
                            map.get(&Key(k), &g).copied()
                        } else {
                            map.get_key_value(&Key(k), &g).map(|(kk, vv)| {
                                assert_eq!(kk.0, k);
                                *vv
                            })
                        };
                        (Call::Get, Ret::Opt(r))
                    }
                    6 => {
                        let r = map.contains_key(&Key(k), &g);
                        (Call::Contains, Ret::Bool(r))
                    }
                    _ => {
                        let nv = if rng.below(3) == 0 { None } else { Some(v) };
                        let r = map.compute_if_present(&Key(k), |_, _| nv, &g).copied();
                        (Call::Compute(nv), Ret::Opt(r))
                    }
                };
                let res = clock.fetch_add(1, Ordering::SeqCst);
                evs.push(Ev { key: k, call, ret, inv, res, thread: t });
            }
            evs
        }));
    }
    let mut all = Vec::new();
    for h in hs {
        match h.join() {
            Ok(e) => all.extend(e),
            Err(e) => std::panic::resume_unwind(e),
        }
    }
    let g = map.guard();
    for k in 0..nkeys {
        let mut evs: Vec<Ev> = all.iter().filter(|e| e.key == k).cloned().collect();
        evs.sort_by_key(|e| e.inv);
        let fin = map.get(&Key(k), &g).copied();
        if !linearizable(&evs, fin) {
            eprintln!("NOT LINEARIZABLE: seed={seed} mode={mode:?} cap={cap} key={k} final={fin:?}");
            for e in &evs {
                eprintln!("  [{:>6},{:>6}] t{:<3} {:?} -> {:?}", e.inv, e.res, e.thread, e.call, e.ret);
            }
            panic!("history of key {k} is not linearizable");
        }
    }
    // no duplicates in iteration
    let mut seen = std::collections::HashSet::new();
    for (k, _) in map.iter(&g) {
        assert!(seen.insert(k.0), "duplicate key {} seed={seed}", k.0);
    }
}


// ---------------------------------------------------------------------------------------------
// optional delay injection through the `--cfg flurry_verif` hooks (HUNT_DELAY=1)
// ---------------------------------------------------------------------------------------------
#[cfg(flurry_verif)]
mod delay {
    use flurry::verif::{Event, Hooks, Kind};
    use std::cell::Cell;
    pub struct D;
    pub static JOINS: std::sync::atomic::AtomicU64 = std::sync::atomic::AtomicU64::new(0);
    pub static STARTS: std::sync::atomic::AtomicU64 = std::sync::atomic::AtomicU64::new(0);
    thread_local! { static R: Cell<u64> = const { Cell::new(0) }; }
    fn rnd() -> u64 {
        R.with(|r| {
            let mut x = r.get();
            if x == 0 {
                x = super::splitmix(&x as *const _ as u64 ^ 0x5eed);
            }
            x ^= x << 13;
            x ^= x >> 7;
            x ^= x << 17;
            r.set(x);
            x
        })
    }
    impl Hooks for D {
        fn event(&self, e: &Event) {
            if e.kind == Kind::Cas && e.what == "size_ctl" {
                let (a, b) = (e.a as isize, e.b as isize);
                if a < -1 && b == a + 1 {
                    JOINS.fetch_add(1, std::sync::atomic::Ordering::Relaxed);
                } else if a >= 0 && b < -1 {
                    STARTS.fetch_add(1, std::sync::atomic::Ordering::Relaxed);
                }
            }
            let hot = matches!(e.what, "size_ctl" | "transfer_index" | "lock_state")
                || e.what.contains("Table");
            let interesting = match e.kind {
                Kind::Load | Kind::Store | Kind::Swap | Kind::Cas | Kind::FetchAdd | Kind::BeforeLock | Kind::Yield | Kind::CloneLoad => true,
                _ => false,
            };
            if !interesting {
                return;
            }
            let r = rnd();
            let p = if hot { 4 } else { 64 };
            if r % p == 0 {
                if (r >> 20) % 8 == 0 {
                    std::thread::sleep(std::time::Duration::from_micros(20 + (r >> 30) % 200));
                } else {
                    std::thread::yield_now();
                }
            }
        }
    }
    pub fn install() {
        if std::env::var("HUNT_DELAY").is_ok() {
            static ONCE: std::sync::Once = std::sync::Once::new();
            ONCE.call_once(|| flurry::verif::install(&D));
        }
    }
}
#[cfg(not(flurry_verif))]
mod delay {
    pub fn install() {}
}

fn run_groups(f: impl Fn(u64, usize) + Send + Sync + 'static) {
    delay::install();
    let secs = env("HUNT_SECS", 20);
    let threads = env("HUNT_THREADS", 4 * std::thread::available_parallelism().map(|n| n.get()).unwrap_or(4) as u64) as usize;
    let group = env("HUNT_GROUP", 4) as usize;
    let ngroups = (threads / group).max(1);
    let f = Arc::new(f);
    let stop = Arc::new(AtomicBool::new(false));
    let rounds = Arc::new(AtomicU64::new(0));
    let base = env("HUNT_SEED", 0xC01);
    let mut hs = Vec::new();
    for gi in 0..ngroups {
        let f = f.clone();
        let stop = stop.clone();
        let rounds = rounds.clone();
        hs.push(std::thread::spawn(move || {
            let mut i = 0u64;
            while !stop.load(Ordering::Relaxed) {
                let seed = splitmix(base ^ ((gi as u64) << 40) ^ i);
                f(seed, group);
                i += 1;
                rounds.fetch_add(1, Ordering::Relaxed);
            }
        }));
    }
    let start = Instant::now();
    let mut failed = false;
    while start.elapsed() < Duration::from_secs(secs) {
        std::thread::sleep(Duration::from_millis(200));
        if hs.iter().any(|h| h.is_finished()) {
            failed = true;
            break;
        }
    }
    stop.store(true, Ordering::Relaxed);
    for h in hs {
        if h.join().is_err() {
            failed = true;
        }
    }
    eprintln!("rounds: {}", rounds.load(Ordering::Relaxed));
    #[cfg(flurry_verif)]
    eprintln!("resize starts (attempted): {}  helper joins (attempted): {}", delay::STARTS.load(Ordering::Relaxed), delay::JOINS.load(Ordering::Relaxed));
    assert!(!failed, "a round failed");
}

#[test]
fn owned_keys() {
    run_groups(|seed, group| {
        let mut r = Rng(seed);
        let mode = MODES[r.below(MODES.len() as u64) as usize];
        let cap = CAPS[r.below(CAPS.len() as u64) as usize];
        let kpt = [4, 12, 40, 200][r.below(4) as usize];
        let ops = [50, 300, 1500][r.below(3) as usize];
        owned_round(seed, group, mode, cap, kpt, ops, r.below(2) == 0);
    });
}

#[test]
fn shared_keys() {
    run_groups(|seed, group| {
        let mut r = Rng(seed);
        let mode = MODES[r.below(MODES.len() as u64) as usize];
        let cap = CAPS[r.below(CAPS.len() as u64) as usize];
        let nkeys = 1 + r.below(3);
        let filler = [0, 4, 30][r.below(3) as usize];
        let ops = (45 * nkeys / group as u64).max(6) as usize * if filler > 0 { 2 } else { 1 };
        shared_round(seed, group, mode, cap, nkeys, filler, ops);
    });
}
