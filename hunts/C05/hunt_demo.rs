//! C05 demonstrations. Every test in this file asserts C05 at a quiescent point (no operation in
//! flight, single thread) and FAILS on the unmodified code.
//!
//! All three need one unwinding user callback (`K::clone`, which flurry calls while it converts
//! or moves bins). The panic is caught with `catch_unwind`; afterwards nothing is in flight and
//! the map is used only through its public API.
//!
//!   cargo test --offline --test hunt_demo
//!   RUSTFLAGS="--cfg flurry_verif" CARGO_TARGET_DIR=target/verif cargo test --offline --test hunt_demo
//!
//! (the second form additionally looks at the table through `verif_snapshot`)

use flurry::HashMap;
use std::cell::Cell;
use std::collections::BTreeSet;
use std::hash::{BuildHasher, Hasher};
use std::panic::{catch_unwind, AssertUnwindSafe};

thread_local! {
    /// number of `K::clone` calls that still succeed on this thread; `u64::MAX` = never panic
    static CLONES_LEFT: Cell<u64> = const { Cell::new(u64::MAX) };
}

#[derive(PartialEq, Eq, PartialOrd, Ord, Hash, Debug)]
struct K(u64);

impl Clone for K {
    fn clone(&self) -> Self {
        CLONES_LEFT.with(|c| {
            let left = c.get();
            if left == 0 {
                c.set(u64::MAX); // one shot
                panic!("K::clone panics (user callback)");
            }
            if left != u64::MAX {
                c.set(left - 1);
            }
        });
        K(self.0)
    }
}

fn arm(after: u64) {
    CLONES_LEFT.with(|c| c.set(after));
}
fn disarm() {
    CLONES_LEFT.with(|c| c.set(u64::MAX));
}

/// hash(K(x)) == x
#[derive(Clone, Default)]
struct Ident;
struct IdentHasher(u64);
impl Hasher for IdentHasher {
    fn finish(&self) -> u64 {
        self.0
    }
    fn write(&mut self, _: &[u8]) {
        unreachable!()
    }
    fn write_u64(&mut self, i: u64) {
        self.0 = i;
    }
}
impl BuildHasher for Ident {
    type Hasher = IdentHasher;
    fn build_hasher(&self) -> IdentHasher {
        IdentHasher(0)
    }
}

fn quiet_panics() {
    // keep the expected callback panic out of the test output
    std::panic::set_hook(Box::new(|info| {
        let msg = info.to_string();
        if !msg.contains("K::clone panics") {
            eprintln!("{msg}");
        }
    }));
}

/// The C05 judgement that is possible through the public API alone.
fn c05_public(map: &HashMap<K, u64, Ident>, universe: impl Iterator<Item = u64>) -> Result<(), String> {
    let g = map.guard();
    let mut iterated = BTreeSet::new();
    for (k, v) in map.iter(&g) {
        if !iterated.insert(k.0) {
            return Err(format!("key {} iterated twice", k.0));
        }
        match map.get(k, &g) {
            Some(gv) if gv == v => {}
            other => return Err(format!("key {} iterated with value {v} but lookup gives {other:?}", k.0)),
        }
    }
    let mut found = BTreeSet::new();
    for x in universe {
        if map.get(&K(x), &g).is_some() {
            found.insert(x);
        }
    }
    if found != iterated {
        return Err(format!(
            "lookup succeeds for {:?} but iteration yields {:?} (only by lookup: {:?}, only by iteration: {:?})",
            found,
            iterated,
            found.difference(&iterated).collect::<Vec<_>>(),
            iterated.difference(&found).collect::<Vec<_>>()
        ));
    }
    if map.len() != iterated.len() {
        return Err(format!("len() = {} but {} entries are present", map.len(), iterated.len()));
    }
    if map.is_empty() != iterated.is_empty() {
        return Err("is_empty() disagrees".into());
    }
    Ok(())
}

/// V1: `put` links the new node, releases the bin lock, calls `treeify_bin` and only then
/// `add_count(1)`. `treeify_bin` clones every key of the bin. If one clone unwinds, the entry
/// stays in the map but is never counted.
#[test]
fn v1_len_misses_entry_after_unwinding_clone_in_treeify() {
    quiet_panics();
    // 97 -> 128 bins (>= MIN_TREEIFY_CAPACITY), keys x*128 all fall into bin 0
    let map: HashMap<K, u64, Ident> = HashMap::with_capacity_and_hasher(64, Ident);
    {
        let g = map.guard();
        for i in 0..8u64 {
            map.insert(K(i * 128), i, &g);
        }
    }
    assert_eq!(map.len(), 8);
    c05_public(&map, (0..16).map(|i| i * 128)).unwrap();

    // the 9th entry of the bin makes `put` treeify it
    arm(3);
    let r = catch_unwind(AssertUnwindSafe(|| {
        let g = map.guard();
        map.insert(K(8 * 128), 8, &g);
    }));
    disarm();
    assert!(r.is_err(), "the clone panic must have propagated out of insert");

    // quiescent: nothing in flight
    let g = map.guard();
    assert_eq!(map.get(&K(8 * 128), &g), Some(&8), "the entry did go in");
    assert_eq!(map.iter(&g).count(), 9);
    drop(g);
    // C05: len() equals the number of entries
    c05_public(&map, (0..16).map(|i| i * 128)).expect("C05 violated");
}

/// V2: `remove` on a tree bin: `remove_tree_node` unlinks the node from the `first`/`next`
/// list, notices the tree got too small and returns `true` *without* taking the node out of
/// the red-black tree; the caller then builds the replacement list with `untreeify` (clones
/// every remaining key) and only afterwards swaps the bin and decrements the count. If a clone
/// unwinds in between, the TreeBin stays in the table with the node reachable from `root`
/// (lookups) but not from `first` (iteration), and still counted.
#[test]
fn v2_lookup_and_iteration_disagree_after_unwinding_clone_in_untreeify() {
    quiet_panics();
    let map: HashMap<K, u64, Ident> = HashMap::with_capacity_and_hasher(64, Ident);
    let keys: Vec<u64> = (0..9u64).map(|i| i * 128).collect();
    {
        let g = map.guard();
        for &k in &keys {
            map.insert(K(k), k + 1, &g);
        }
    }
    assert_eq!(map.len(), 9);
    c05_public(&map, (0..16).map(|i| i * 128)).unwrap();

    // remove keys one by one with clone armed; the removal that finds the tree "too small"
    // is the one that calls untreeify
    let mut victim = None;
    for &k in &keys {
        arm(0);
        let r = catch_unwind(AssertUnwindSafe(|| {
            let g = map.guard();
            map.remove(&K(k), &g).copied()
        }));
        disarm();
        match r {
            Ok(v) => assert_eq!(v, Some(k + 1)),
            Err(_) => {
                victim = Some(k);
                break;
            }
        }
    }
    let victim = victim.expect("no removal reached untreeify");
    eprintln!("remove({victim}) unwound inside untreeify");

    // quiescent point
    c05_public(&map, (0..16).map(|i| i * 128)).expect("C05 violated");
}

/// V3: a resize whose (only) transferring thread unwinds out of `transfer` is never finished:
/// `size_ctl` keeps the resize stamp with one registered resizer, `next_table` stays set and
/// the old table keeps its forwarding markers. No later operation can complete or restart it
/// (helpers see `sc == rs + 1` and leave), and dropping the map panics.
#[test]
fn v3_half_finished_resize_left_behind_after_unwinding_clone_in_transfer() {
    quiet_panics();
    let map: HashMap<K, u64, Ident> = HashMap::with_hasher(Ident);
    {
        let g = map.guard();
        // bin 0 of the 16-bin table: K(0) -> K(16); K(0) is in front of the last run, so the
        // transfer has to clone it
        map.insert(K(0), 0, &g);
        map.insert(K(16), 16, &g);
        for i in 1..=9u64 {
            map.insert(K(i), i, &g);
        }
    }
    assert_eq!(map.len(), 11);
    // the 12th entry reaches the threshold (12 of 16) and `add_count` starts the resize
    arm(0);
    let r = catch_unwind(AssertUnwindSafe(|| {
        let g = map.guard();
        map.insert(K(10), 10, &g);
    }));
    disarm();
    assert!(r.is_err());

    // quiescent. Contents are still consistent ...
    c05_public(&map, 0..64).unwrap();
    // ... and stay so under further use, but the table can never grow or finish the move
    {
        let g = map.guard();
        for i in 100..1100u64 {
            map.insert(K(i), i, &g);
        }
    }
    c05_public(&map, 0..1200).unwrap();

    #[cfg(flurry_verif)]
    {
        use flurry::verif_inspect::BinSnap;
        let g = map.guard();
        let s = map.verif_snapshot(&g);
        let t = s.table.as_ref().unwrap();
        let moved = t.bins.iter().filter(|b| matches!(b, BinSnap::Moved)).count();
        eprintln!(
            "after 1011 inserts: table.len = {}, Moved bins = {moved}, next_table = {:#x}, size_ctl = {:#x}, transfer_index = {}",
            t.len, s.next_table_addr, s.size_ctl, s.transfer_index
        );
        let ok = moved == 0 && s.next_table_addr == 0 && s.size_ctl >= 0;
        let msg = format!(
            "C05 violated: forwarding markers / half-finished resize left behind at quiescence \
             (table.len = {}, {moved} Moved bins, next_table = {:#x}, size_ctl = {:#x})",
            t.len, s.next_table_addr, s.size_ctl
        );
        drop(s);
        drop(g);
        if !ok {
            // dropping this map panics (see the other cfg branch); do not do that while unwinding
            std::mem::forget(map);
            panic!("{msg}");
        }
    }
    #[cfg(not(flurry_verif))]
    {
        // public-API-only symptom: Drop asserts that no resize is in progress
        let r = catch_unwind(AssertUnwindSafe(move || drop(map)));
        assert!(
            r.is_ok(),
            "C05 violated: half-finished resize left behind (HashMap::drop hit \
             `assert!(self.next_table.load(..).is_null())`)"
        );
    }
}

/// V1 continued: the missing count is permanent; drain the map and insert one entry and
/// `is_empty()` is true for a map that holds an entry.
#[test]
fn v1b_is_empty_true_with_one_entry_present() {
    quiet_panics();
    let map: HashMap<K, u64, Ident> = HashMap::with_capacity_and_hasher(64, Ident);
    {
        let g = map.guard();
        for i in 0..8u64 {
            map.insert(K(i * 128), i, &g);
        }
    }
    arm(3);
    let r = catch_unwind(AssertUnwindSafe(|| {
        let g = map.guard();
        map.insert(K(8 * 128), 8, &g);
    }));
    disarm();
    assert!(r.is_err());
    {
        let g = map.guard();
        for i in 0..9u64 {
            assert_eq!(map.remove(&K(i * 128), &g), Some(&i));
        }
        assert_eq!(map.iter(&g).count(), 0);
        map.insert(K(5), 5, &g);
        assert_eq!(map.get(&K(5), &g), Some(&5));
        assert_eq!(map.iter(&g).count(), 1);
    }
    assert!(!map.is_empty(), "C05 violated: is_empty() is true but the map holds K(5)");
}
