//! Scheduled mode: small concurrent programs over the per-key API run under the baton scheduler;
//! the invocation/response history is checked for linearizability (per key), the final contents
//! against every thread's view, the table for well-formedness at quiescence, and the run for
//! deadlock / livelock.
use crate::sched::*;
use crate::seq::{fmt_snap, validate_snapshot};
use crate::types::*;
use flurry::verif::Kind;
use flurry::HashMap;
use std::collections::BTreeMap;
use std::sync::Arc;

#[derive(Clone, Debug, PartialEq)]
pub enum COp {
    Ins(u32, u64, u32),
    TryIns(u32, u64, u32),
    Get(u32),
    GetKv(u32),
    Has(u32),
    Rm(u32),
    Rme(u32),
    CipInc(u32, u32), // key, origin of the new value
    CipRm(u32),
    Reserve(usize),
    Len,
    Iter,
    /// pseudo-operation: an iterator yielded this key (a read of the key somewhere between the
    /// iterator's creation and the yield)
    Yielded(u32),
    Retain(&'static str, bool),
    Clear,
    /// dump the chain of tables reachable from the current table (while every other thread is
    /// suspended), then iterate: the yield order must be the Lean traverser's on that chain
    FrozenIter,
    /// compute_if_present with a closure that panics (caught by the worker)
    CipPanic(u32),
    /// (oracle only) what `retain` does to one key after its predicate rejected the value with this origin
    CondRm(u32, u32),
    /// (oracle only) what `retain_force` does to one key after its predicate rejected it
    ForceRm(u32),
    /// (oracle only) what `clear` does to one key: an unconditional removal somewhere inside the call
    ClearRm(u32),
    /// (oracle only) a further removal of the same key by the same `clear` (it restarts on the new
    /// table when it meets a forwarding marker, and may then remove a key that was re-inserted
    /// meanwhile): may or may not happen
    ClearRmOpt(u32),
    /// retain / retain_force whose predicate panics at its n-th call (caught by the worker)
    RetainPanic(&'static str, bool, usize),
}

impl COp {
    pub fn key(&self) -> Option<u32> {
        match self {
            COp::Ins(k, ..) | COp::TryIns(k, ..) | COp::Get(k) | COp::GetKv(k) | COp::Yielded(k) | COp::Has(k) | COp::Rm(k) | COp::Rme(k) | COp::CipInc(k, _) | COp::CipRm(k) | COp::CipPanic(k) | COp::CondRm(k, _) | COp::ForceRm(k) | COp::ClearRm(k) | COp::ClearRmOpt(k) => Some(*k),
            _ => None,
        }
    }
    pub fn is_read(&self) -> bool {
        matches!(self, COp::Get(_) | COp::GetKv(_) | COp::Yielded(_) | COp::Has(_) | COp::Len | COp::Iter)
    }
    pub fn text(&self) -> String {
        match self {
            COp::Ins(k, v, o) => format!("ins {} {} {}", k, v, o),
            COp::TryIns(k, v, o) => format!("tryins {} {} {}", k, v, o),
            COp::Get(k) => format!("get {}", k),
            COp::GetKv(k) => format!("getkv {}", k),
            COp::Yielded(k) => format!("iterator-yield {}", k),
            COp::Has(k) => format!("has {}", k),
            COp::Rm(k) => format!("rm {}", k),
            COp::Rme(k) => format!("rme {}", k),
            COp::CipInc(k, o) => format!("cipinc {} {}", k, o),
            COp::CipRm(k) => format!("ciprm {}", k),
            COp::Reserve(n) => format!("reserve {}", n),
            COp::Len => "len".into(),
            COp::Iter => "iter".into(),
            COp::FrozenIter => "frozeniter".into(),
            COp::Retain(p, f) => format!("{} {}", if *f { "retainf" } else { "retain" }, p),
            COp::Clear => "clear".into(),
            COp::CipPanic(k) => format!("cippanic {}", k),
            COp::CondRm(k, o) => format!("retain-removes {} if-still {}", k, o),
            COp::ForceRm(k) => format!("retainf-removes {}", k),
            COp::ClearRm(k) => format!("clear-removes {}", k),
            COp::ClearRmOpt(k) => format!("clear-may-remove-again {}", k),
            COp::RetainPanic(p, f, n) => format!("{} {} panicat={}", if *f { "retainf" } else { "retain" }, p, n),
        }
    }
}

#[derive(Clone, Debug)]
pub struct Call {
    pub tid: usize,
    pub idx: usize,
    pub op: COp,
    pub inv: usize,
    pub resp: usize,
    /// canonical result: "none" | "some <payload> <origin>" | "true"/"false" | "exists p o" | "ok" | "n" | list
    pub result: String,
    pub closure_calls: u32,
    /// for iter: (key, payload, origin) yielded, in order
    pub yielded: Vec<(u32, u64, u32)>,
    /// for iter: the call-clock time of each yield
    pub yield_at: Vec<usize>,
    /// for iter: the number of trace events recorded before each yield
    pub yield_ix: Vec<usize>,
    pub trace_from: usize,
    pub trace_to: usize,
}

#[derive(Clone, Debug)]
pub struct ConcCase {
    pub id: usize,
    pub seed: u64,
    pub hash_class: &'static str,
    pub hashes: Vec<u64>,
    pub cap: usize,
    pub prefill: Vec<(u32, u64, u32)>,
    pub programs: Vec<Vec<COp>>,
    pub policy: Policy,
    pub pin: bool,
}

pub struct ConcResult {
    pub calls: Vec<Call>,
    pub trace: Vec<TraceEv>,
    pub outcome: RunOutcome,
    pub final_contents: Vec<(u32, u64, u32)>,
    pub final_snap: String,
    pub wf: Vec<String>,
    pub panicked: Vec<usize>,
    pub len_final: usize,
    pub life_failures: Vec<String>,
    /// `ctl …` request for the Lean resize monitor: the run's accesses to the four control words
    pub ctl_line: String,
    /// `rw …` requests for the Lean tree-bin lock monitor: one per `lock_state` word the run touched
    pub rw_lines: Vec<String>,
    /// every change of the abstract content of the real structure during the run, with the write
    /// that caused it (see `abs_of`, `abs_points`)
    pub abs_changes: Vec<AbsChange>,
    pub abs_init: BTreeMap<u32, (u64, u32)>,
}

/// one change of the abstract content: after the write event `ix` of thread `tid` a lookup of
/// `key` started now would find `after` instead of `before`
#[derive(Clone, Debug)]
pub struct AbsChange {
    pub ix: usize,
    pub tid: usize,
    pub key: u32,
    pub before: Option<(u64, u32)>,
    pub after: Option<(u64, u32)>,
    pub file: &'static str,
    pub line: u32,
}

type M = HashMap<K, V, TableHasher>;

/// ticks at every invocation and every response of a scheduled call
static CALL_CLOCK: std::sync::atomic::AtomicU64 = std::sync::atomic::AtomicU64::new(0);
thread_local! {
    static YIELD_AT: std::cell::RefCell<Vec<usize>> = const { std::cell::RefCell::new(Vec::new()) };
    /// number of trace events recorded when the iterator yielded (same index as YIELD_AT)
    static YIELD_IX: std::cell::RefCell<Vec<usize>> = const { std::cell::RefCell::new(Vec::new()) };
}

fn fmt_v(v: Option<&V>) -> String {
    match v {
        Some(v) => format!("some {} {}", v.payload, v.origin),
        None => "none".into(),
    }
}

fn exec(m: &M, op: &COp, pin: bool, yielded: &mut Vec<(u32, u64, u32)>, closure_calls: &mut u32) -> String {
    // every operation takes its own guard (or pin) and reads results before releasing it
    macro_rules! with {
        (|$mm:ident, $g:ident| $guard_body:expr, |$p:ident| $pin_body:expr) => {
            if pin {
                let $p = m.pin();
                $pin_body
            } else {
                let $mm = m;
                let $g = m.guard();
                $guard_body
            }
        };
    }
    match op {
        COp::Ins(k, v, o) => with!(|mm, g| fmt_v(mm.insert(K::new(*k, *o), V::new(*v, *o), &g)), |p| fmt_v(p.insert(K::new(*k, *o), V::new(*v, *o)))),
        COp::TryIns(k, v, o) => {
            let f = |r: Result<&V, flurry::TryInsertError<'_, V>>| match r {
                Ok(_) => "none".to_string(),
                Err(e) => format!("exists {} {}", e.current.payload, e.current.origin),
            };
            with!(|mm, g| f(mm.try_insert(K::new(*k, *o), V::new(*v, *o), &g)), |p| f(p.try_insert(K::new(*k, *o), V::new(*v, *o))))
        }
        COp::Get(k) => {
            let key = K::new(*k, 0);
            with!(|mm, g| fmt_v(mm.get(&key, &g)), |p| fmt_v(p.get(&key)))
        }
        COp::GetKv(k) => {
            let key = K::new(*k, 0);
            let f = |r: Option<(&K, &V)>| match r {
                Some((kk, v)) => {
                    assert_eq!(kk.id, *k, "get_key_value returned another key");
                    format!("some {} {}", v.payload, v.origin)
                }
                None => "none".into(),
            };
            with!(|mm, g| f(mm.get_key_value(&key, &g)), |p| f(p.get_key_value(&key)))
        }
        COp::Has(k) => {
            let key = K::new(*k, 0);
            with!(|mm, g| mm.contains_key(&key, &g).to_string(), |p| p.contains_key(&key).to_string())
        }
        COp::Rm(k) => {
            let key = K::new(*k, 0);
            with!(|mm, g| fmt_v(mm.remove(&key, &g)), |p| fmt_v(p.remove(&key)))
        }
        COp::Rme(k) => {
            let key = K::new(*k, 0);
            let f = |r: Option<(&K, &V)>| match r {
                Some((_, v)) => format!("some {} {}", v.payload, v.origin),
                None => "none".into(),
            };
            with!(|mm, g| f(mm.remove_entry(&key, &g)), |p| f(p.remove_entry(&key)))
        }
        COp::CipInc(k, o) => {
            let key = K::new(*k, 0);
            let mut seen = String::new();
            let mut calls = 0u32;
            let r = {
                let f = |_: &K, v: &V| {
                    calls += 1;
                    seen = format!("{} {}", v.payload, v.origin);
                    crate::sched::user_code_yield("remapping-function");
                    Some(V::new(v.payload + 1, *o))
                };
                with!(|mm, g| fmt_v(mm.compute_if_present(&key, f, &g)), |p| fmt_v(p.compute_if_present(&key, f)))
            };
            *closure_calls = calls;
            format!("{} | saw {}", r, if seen.is_empty() { "-".to_string() } else { seen })
        }
        COp::CipRm(k) => {
            let key = K::new(*k, 0);
            let mut seen = String::new();
            let mut calls = 0u32;
            let r = {
                let f = |_: &K, v: &V| -> Option<V> {
                    calls += 1;
                    seen = format!("{} {}", v.payload, v.origin);
                    crate::sched::user_code_yield("remapping-function");
                    None
                };
                with!(|mm, g| fmt_v(mm.compute_if_present(&key, f, &g)), |p| fmt_v(p.compute_if_present(&key, f)))
            };
            *closure_calls = calls;
            format!("{} | saw {}", r, if seen.is_empty() { "-".to_string() } else { seen })
        }
        COp::Reserve(n) => {
            with!(|mm, g| mm.reserve(*n, &g), |p| p.reserve(*n));
            "ok".into()
        }
        COp::Len => m.len().to_string(),
        COp::Iter => {
            let g = m.guard();
            for (k, v) in m.iter(&g) {
                yielded.push((k.id, v.payload, v.origin));
                YIELD_AT.with(|y| y.borrow_mut().push(CALL_CLOCK.fetch_add(1, std::sync::atomic::Ordering::SeqCst) as usize));
                YIELD_IX.with(|y| y.borrow_mut().push(crate::types::TRACE_POS.load(std::sync::atomic::Ordering::Relaxed) as usize));
            }
            format!("{}", yielded.len())
        }
        COp::FrozenIter => {
            let g = m.guard();
            let snap = m.verif_snapshot(&g);
            let mut tables = vec![];
            let mut cur = snap.table.as_ref();
            while let Some(t) = cur {
                let bins: Vec<String> = t
                    .bins
                    .iter()
                    .map(|b| match b {
                        flurry::verif_inspect::BinSnap::Empty => "-".to_string(),
                        flurry::verif_inspect::BinSnap::Moved => "M".to_string(),
                        flurry::verif_inspect::BinSnap::List(ns) => ns.iter().map(|n| format!("{}.{}.{}", n.key.id, n.value.map(|v| v.payload).unwrap_or(0), n.value.map(|v| v.origin).unwrap_or(0))).collect::<Vec<_>>().join("+"),
                        flurry::verif_inspect::BinSnap::Tree { nodes, .. } => {
                            if nodes.is_empty() {
                                "-".to_string()
                            } else {
                                nodes.iter().map(|n| format!("{}.{}.{}", n.node.key.id, n.node.value.map(|v| v.payload).unwrap_or(0), n.node.value.map(|v| v.origin).unwrap_or(0))).collect::<Vec<_>>().join("+")
                            }
                        }
                    })
                    .collect();
                tables.push(bins.join("|"));
                cur = t.forward.as_deref();
            }
            for (k, v) in m.iter(&g) {
                yielded.push((k.id, v.payload, v.origin));
            }
            format!("{} | chain={}", yielded.len(), if tables.is_empty() { "-".to_string() } else { tables.join(";") })
        }
        COp::Retain(pred, force) => {
            let p = crate::seq::pred_fn(pred);
            let g = m.guard();
            let mut verdicts = vec![];
            let f = |k: &K, v: &V| {
                let keep = p(k.id, v.payload);
                verdicts.push(format!("{}:{}:{}", k.id, v.origin, keep));
                keep
            };
            // through the guard-passing API or through the reference wrapper (`pin()`)
            if pin {
                drop(g);
                let r = m.pin();
                if *force {
                    r.retain_force(f)
                } else {
                    r.retain(f)
                }
            } else if *force {
                m.retain_force(f, &g)
            } else {
                m.retain(f, &g)
            }
            verdicts.join(",")
        }
        COp::Clear => {
            with!(|mm, g| mm.clear(&g), |p| p.clear());
            "ok".into()
        }
        COp::Yielded(..) | COp::CondRm(..) | COp::ForceRm(..) | COp::ClearRm(..) | COp::ClearRmOpt(..) => "-".into(),
        COp::CipPanic(k) => {
            let key = K::new(*k, 0);
            let mut calls = 0u32;
            let r = std::panic::catch_unwind(std::panic::AssertUnwindSafe(|| {
                let g = m.guard();
                let f = |_: &K, _: &V| -> Option<V> {
                    calls += 1;
                    panic!("injected")
                };
                fmt_v(m.compute_if_present(&key, f, &g))
            }));
            *closure_calls = calls;
            match r {
                Ok(s) => s,
                Err(_) => "panic".into(),
            }
        }
        COp::RetainPanic(pred, force, at) => {
            let p = crate::seq::pred_fn(pred);
            let mut verdicts = vec![];
            let r = std::panic::catch_unwind(std::panic::AssertUnwindSafe(|| {
                let g = m.guard();
                let mut i = 0usize;
                let f = |k: &K, v: &V| {
                    if i == *at {
                        panic!("injected");
                    }
                    i += 1;
                    let keep = p(k.id, v.payload);
                    verdicts.push(format!("{}:{}:{}", k.id, v.origin, keep));
                    keep
                };
                if pin {
                    drop(g);
                    let r = m.pin();
                    if *force {
                        r.retain_force(f)
                    } else {
                        r.retain(f)
                    }
                } else if *force {
                    m.retain_force(f, &g)
                } else {
                    m.retain(f, &g)
                }
            }));
            format!("{}{}", verdicts.join(","), if r.is_err() { " | panic" } else { "" })
        }
    }
}

/// every tree bin reachable from the table whose lock word has no WRITER bit: the set of nodes
/// reachable from `root` equals the set of nodes on the `first`/`next` list
fn tree_list_probe(map: &M, ev: &TraceEv) -> Vec<String> {
    use flurry::verif_inspect::BinSnap;
    let g = map.guard();
    let snap = map.verif_snapshot(&g);
    let mut out = vec![];
    let mut cur = snap.table.as_ref();
    let mut depth = 0;
    while let Some(t) = cur {
        for (i, b) in t.bins.iter().enumerate() {
            if let BinSnap::Tree { root, nodes, lock_state, .. } = b {
                if *lock_state & 1 != 0 {
                    continue; // a writer holds the tree's write lock: the two may differ
                }
                let by_addr: std::collections::HashMap<usize, _> = nodes.iter().map(|n| (n.node.addr, n)).collect();
                let mut in_tree: std::collections::BTreeSet<u32> = Default::default();
                let mut stack = vec![*root];
                let mut seen = 0usize;
                while let Some(a) = stack.pop() {
                    if a == 0 || seen > 4096 {
                        continue;
                    }
                    seen += 1;
                    match by_addr.get(&a) {
                        Some(n) => {
                            in_tree.insert(n.node.key.id);
                            stack.push(n.left);
                            stack.push(n.right);
                        }
                        None => out.push(format!("[tree-list] bin {} of table {} (lock_state {}): the tree links reach a node {:x} that is not on the traversal list (after {}:{})", i, depth, lock_state, a, ev.file, ev.line)),
                    }
                }
                let on_list: std::collections::BTreeSet<u32> = nodes.iter().map(|n| n.node.key.id).collect();
                if in_tree != on_list && out.is_empty() {
                    out.push(format!(
                        "[tree-list] bin {} of table {}: nobody holds the tree's write lock (lock_state {}), yet the tree holds keys {:?} and the traversal list keys {:?} (after the lock_state store at {}:{})",
                        i, depth, lock_state, in_tree, on_list, ev.file, ev.line
                    ));
                }
            }
        }
        cur = t.forward.as_deref();
        depth += 1;
    }
    out
}

/// The abstract content of the real structure, read off a structural dump taken while every worker
/// is suspended: for every key what a lookup started now would find (`Proto/Bin*`: `absOf`). A
/// lookup goes to the bin of the current table, follows forwarding markers into the next table
/// (bins `i` and `i + n`), and takes the first node with the key on the bin's `next` list (for a
/// tree bin "the list is the truth", `BinU.tree_eq_list_unlocked`; tree = list is probed separately).
fn abs_of(map: &M) -> BTreeMap<u32, (u64, u32)> {
    use flurry::verif_inspect::{BinSnap, TableSnap};
    fn collect(t: &TableSnap<'_, K, V>, i: usize, out: &mut BTreeMap<u32, (u64, u32)>) {
        let mut put = |k: &K, v: Option<&V>| {
            out.entry(k.id).or_insert(v.map(|v| (v.payload, v.origin)).unwrap_or((u64::MAX, 0)));
        };
        match &t.bins[i] {
            BinSnap::Empty => {}
            BinSnap::Moved => {
                if let Some(f) = &t.forward {
                    if i < f.len {
                        collect(f, i, out);
                    }
                    if i + t.len < f.len {
                        collect(f, i + t.len, out);
                    }
                }
            }
            BinSnap::List(v) => {
                for n in v {
                    put(n.key, n.value);
                }
            }
            BinSnap::Tree { nodes, .. } => {
                for n in nodes {
                    put(n.node.key, n.node.value);
                }
            }
        }
    }
    let g = map.guard();
    let snap = map.verif_snapshot(&g);
    let mut out = BTreeMap::new();
    if let Some(t) = &snap.table {
        for i in 0..t.len {
            collect(t, i, &mut out);
        }
    }
    out
}

pub fn run_conc(case: &ConcCase, record_all: bool, budget: usize) -> ConcResult {
    CALL_CLOCK.store(0, std::sync::atomic::Ordering::SeqCst);
    let th = TableHasher { table: Arc::new(case.hashes.clone()) };
    set_default_table(th.table.clone());
    if record_all {
        ledger_reset(false);
        VAL_DROPS.lock().unwrap().clear();
    }
    let map: Arc<M> = Arc::new(HashMap::with_capacity_and_hasher(case.cap, th));
    if record_all {
        crate::life::set_current_map(Some(&map));
    }
    {
        let g = map.guard();
        for (k, v, o) in &case.prefill {
            map.insert(K::new(*k, *o), V::new(*v, *o), &g);
        }
    }
    {
        // the tree bins present at the start (trigger of the Solo policy with after_store = Some(0))
        let g = map.guard();
        let sn = map.verif_snapshot(&g);
        let mut addrs = vec![];
        if let Some(t) = &sn.table {
            for b in &t.bins {
                if let flurry::verif_inspect::BinSnap::Tree { addr, .. } = b {
                    addrs.push(*addr);
                }
            }
        }
        *SOLO_TRIGGER_ADDRS.lock().unwrap() = addrs;
    }
    let field_addrs = map.verif_field_addrs();
    let (ctl_nstart, ctl_sc0, ctl_ti0) = {
        let g = map.guard();
        let sn = map.verif_snapshot(&g);
        (sn.table.as_ref().map(|t| t.len).unwrap_or(0), sn.size_ctl, sn.transfer_index)
    };
    let n = case.programs.len();
    let s = Sched::new(n, record_all);
    {
        // C06 / C01: whenever a tree bin's write lock has just been released, its tree and its
        // traversal list hold the same nodes (`Proto/BinU`: `tree_eq_list_unlocked`)
        let mp = map.clone();
        *MID_PROBE.lock().unwrap() = Some(Box::new(move |ev: &TraceEv| tree_list_probe(&mp, ev)));
    }
    // C01 / C08 / C10 / C07: the abstract content of the real structure changes only at a write of a
    // call that updates that very key, and then as the specification says (`abs_points`)
    let abs_init = abs_of(&map);
    let abs_changes: Arc<std::sync::Mutex<Vec<AbsChange>>> = Arc::new(std::sync::Mutex::new(vec![]));
    if std::env::var("VERIF_NO_ABS_PROBE").is_err() {
        let mp = map.clone();
        let prev = std::sync::Mutex::new(abs_init.clone());
        let ch = abs_changes.clone();
        *ABS_PROBE.lock().unwrap() = Some(Box::new(move |tid: usize, ix: usize, ev: &TraceEv| {
            let now = abs_of(&mp);
            let mut prev = prev.lock().unwrap();
            if *prev != now {
                let keys: std::collections::BTreeSet<u32> = prev.keys().chain(now.keys()).copied().collect();
                let mut ch = ch.lock().unwrap();
                for k in keys {
                    let (b, a) = (prev.get(&k).copied(), now.get(&k).copied());
                    if b != a {
                        ch.push(AbsChange { ix, tid, key: k, before: b, after: a, file: ev.file, line: ev.line });
                    }
                }
                *prev = now;
            }
        }));
    }
    let calls: Arc<std::sync::Mutex<Vec<Call>>> = Arc::new(std::sync::Mutex::new(vec![]));
    let mut handles = vec![];
    for (tid, prog) in case.programs.iter().cloned().enumerate() {
        let s2 = s.clone();
        let map2 = map.clone();
        let calls2 = calls.clone();
        let pin = case.pin;
        handles.push(std::thread::spawn(move || {
            let s3 = s2.clone();
            s2.run_worker(tid, move || {
                for (idx, op) in prog.iter().enumerate() {
                    // invocation and response times: a clock that ticks at every call boundary
                    // (only one thread runs at a time, so the ticks are in real-time order). The
                    // trace position alone does not separate "A returned, then B was invoked"
                    // from "B was invoked, then A returned" when no access lies in between.
                    let trace_from = s3.trace_len();
                    let inv = CALL_CLOCK.fetch_add(1, std::sync::atomic::Ordering::SeqCst) as usize;
                    let mut yielded = vec![];
                    let mut cc = 0u32;
                    YIELD_AT.with(|y| y.borrow_mut().clear());
                    YIELD_IX.with(|y| y.borrow_mut().clear());
                    let result = exec(&map2, op, pin, &mut yielded, &mut cc);
                    let resp = CALL_CLOCK.fetch_add(1, std::sync::atomic::Ordering::SeqCst) as usize;
                    let trace_to = s3.trace_len();
                    let yield_at = YIELD_AT.with(|y| std::mem::take(&mut *y.borrow_mut()));
                    let yield_ix = YIELD_IX.with(|y| std::mem::take(&mut *y.borrow_mut()));
                    calls2.lock().unwrap().push(Call { tid, idx, op: op.clone(), inv, resp, result, closure_calls: cc, yielded, yield_at, yield_ix, trace_from, trace_to });
                }
            });
        }));
    }
    let mut rng = Rng(case.seed ^ 0x5EED);
    let outcome = drive(&s, &case.policy, &mut rng, budget);
    *MID_PROBE.lock().unwrap() = None;
    *ABS_PROBE.lock().unwrap() = None;
    let abs_changes = abs_changes.lock().unwrap().clone();
    let mut panicked = vec![];
    if !outcome.deadlock && !outcome.budget_exceeded {
        for h in handles {
            let _ = h.join();
        }
    } else {
        // threads are stuck at yield points: leak them (the process exits after reporting)
        std::mem::forget(handles);
    }
    let (trace, pan, notes) = {
        let g = s.inner.lock().unwrap();
        (
            g.trace.clone(),
            g.threads.iter().enumerate().filter(|(_, t)| t.panicked).map(|(i, _)| i).collect::<Vec<_>>(),
            g.notes.iter().map(|n| n.text.clone()).collect::<Vec<_>>(),
        )
    };
    panicked.extend(pan);
    s.shutdown();
    let mut final_contents = vec![];
    let mut final_snap = String::new();
    let mut wf = vec![];
    let mut len_final = 0;
    if !outcome.deadlock && !outcome.budget_exceeded {
        let g = map.guard();
        final_contents = map.iter(&g).map(|(k, v)| (k.id, v.payload, v.origin)).collect();
        final_contents.sort();
        let snap = map.verif_snapshot(&g);
        final_snap = fmt_snap(&snap);
        wf = validate_snapshot(&snap, true);
        len_final = map.len();
        // C06 after contention: the cost of a lookup in a tree bin stays logarithmic (a tree bin
        // whose lock word is left in a "writer waiting" state answers every lookup by a linear scan)
        if let Some(t) = &snap.table {
            for b in &t.bins {
                if let flurry::verif_inspect::BinSnap::Tree { nodes, .. } = b {
                    let n = nodes.len();
                    let bound = (4.0 * ((n + 1) as f64).log2()).ceil() as u64 + 2;
                    for tn in nodes.iter() {
                        crate::types::reset_cmp_counters();
                        let _ = map.get(&K::new(tn.node.key.id, 0), &g);
                        let (eq, cmp) = crate::types::cmp_counters();
                        if n >= 8 && eq + cmp > bound {
                            wf.push(format!("lookup cost: get({}) in a tree bin of {} keys used {} key comparisons (> {}) after the run", tn.node.key.id, n, eq + cmp, bound));
                            break;
                        }
                    }
                }
            }
        }
        // every key must also be found by get()
        for (k, v, o) in &final_contents {
            match map.get(&K::new(*k, 0), &g) {
                Some(x) if x.payload == *v && x.origin == *o => {}
                other => wf.push(format!("iteration yields key {} -> ({}, {}) but get() finds {:?}", k, v, o, other.map(|x| (x.payload, x.origin)))),
            }
        }
    }
    let calls = calls.lock().unwrap().clone();
    let mut life_failures = vec![];
    let mut probe_msgs: Vec<String> = notes.iter().filter(|n| n.starts_with("[tree-list]")).cloned().collect();
    probe_msgs.dedup();
    wf.extend(probe_msgs.into_iter().take(3));
    crate::life::set_current_map(None);
    let stuck = outcome.deadlock || outcome.budget_exceeded;
    if !stuck && record_all {
        life_failures.extend(notes.into_iter().filter(|n| n.starts_with('[')));
        let spans: Vec<crate::life::GuardSpan> = calls.iter().map(|c| crate::life::GuardSpan { tid: c.tid, from: c.trace_from, to: c.trace_to }).collect();
        let drops = VAL_DROPS.lock().unwrap().clone();
        life_failures.extend(crate::life::analyze(&trace, &spans, &drops));
        life_failures.extend(crate::life::lock_discipline(&trace));
        life_failures.extend(crate::life::unlocked_writes(&trace));
        let (hbf, _st) = crate::hb::analyze(&trace, n);
        life_failures.extend(hbf);
    }
    // the projection of the event stream onto size_ctl / transfer_index / table / next_table
    let ctl_line = {
        let addr_of = |name: &str| field_addrs.iter().find(|(n, _)| *n == name).map(|(_, a)| *a).unwrap_or(0);
        let (a_tab, a_nt, a_ti, a_sc) = (addr_of("table"), addr_of("next_table"), addr_of("transfer_index"), addr_of("size_ctl"));
        let mut evs = vec![];
        for e in &trace {
            let w = if e.addr == a_sc { "sc" } else if e.addr == a_ti { "ti" } else if e.addr == a_tab { "tab" } else if e.addr == a_nt { "nt" } else { continue };
            let k = match e.kind {
                Kind::Load => "ld",
                Kind::Store => "st",
                Kind::Swap => "sw",
                Kind::Cas => "cas",
                Kind::Yield => "y",
                _ => continue,
            };
            let ptr = w == "tab" || w == "nt";
            let f = |x: usize| if ptr { (x != 0) as i64 } else { x as isize as i64 };
            evs.push(format!("{}:{}:{}:{}:{}:{}:{}", e.tid, w, k, f(e.a), f(e.b), e.ok as u8, f(e.seen)));
        }
        let nfinal: usize = final_snap.strip_prefix("len=").and_then(|x| x.split(' ').next()).and_then(|x| x.parse().ok()).unwrap_or(0);
        format!(
            "ctl ncpu={} nstart={} nfinal={} sc0={} ti0={} q={} ev={}",
            num_cpus::get_physical(),
            ctl_nstart,
            nfinal,
            ctl_sc0,
            ctl_ti0,
            (!stuck) as u8,
            if evs.is_empty() { "-".to_string() } else { evs.join(",") }
        )
    };
    // the projection of the event stream onto each tree bin's lock: `lock_state`, `waiter`,
    // park / unpark. A `waiter` / park / unpark event belongs to the bin whose `lock_state` the
    // thread touched last.
    let rw_lines = {
        let mut streams: Vec<(usize, Vec<String>)> = vec![]; // (lock_state address, records); closed ones have address 0
        let mut last_bin: std::collections::HashMap<usize, usize> = Default::default(); // tid -> stream index
        let tix = |t: usize| if t == usize::MAX { n } else { t };
        for e in &trace {
            if e.kind == Kind::Alloc {
                // a new allocation over a known lock word: that tree bin is gone, its stream ends
                for st in streams.iter_mut() {
                    if st.0 != 0 && st.0 >= e.addr && st.0 < e.addr + e.size.max(1) {
                        st.0 = 0;
                    }
                }
                continue;
            }
            let sv = |x: usize| x as isize as i64;
            if e.what == "lock_state" {
                let k = match e.kind {
                    Kind::Load => "ld",
                    Kind::Cas => "cas",
                    Kind::Yield => "y",
                    Kind::Store => "st",
                    Kind::FetchAdd => "fa",
                    _ => continue,
                };
                let ix = match streams.iter().position(|st| st.0 == e.addr) {
                    Some(i) => i,
                    None => {
                        streams.push((e.addr, vec![]));
                        streams.len() - 1
                    }
                };
                last_bin.insert(e.tid, ix);
                streams[ix].1.push(format!("{}:{}:{}:{}:{}", tix(e.tid), k, sv(e.a), sv(e.b), sv(e.seen)));
            } else if e.what.ends_with("thread::Thread") && matches!(e.kind, Kind::Load | Kind::Swap) {
                if let Some(&ix) = last_bin.get(&e.tid) {
                    let k = if e.kind == Kind::Load { "wld" } else { "wsw" };
                    streams[ix].1.push(format!("{}:{}:{}:0:{}", tix(e.tid), k, (e.a != 0) as u8, (e.seen != 0) as u8));
                }
            } else if matches!(e.kind, Kind::BeforePark | Kind::Unpark) {
                if let Some(&ix) = last_bin.get(&e.tid) {
                    let k = if e.kind == Kind::BeforePark { "park" } else { "unpark" };
                    streams[ix].1.push(format!("{}:{}:0:0:0", tix(e.tid), k));
                }
            }
        }
        streams.into_iter().map(|(_, evs)| format!("rw n={} q={} ev={}", n + 1, (!stuck) as u8, evs.join(","))).collect::<Vec<_>>()
    };
    let mut r = ConcResult { calls, trace, outcome, final_contents, final_snap, wf, panicked, len_final, life_failures, ctl_line, rw_lines, abs_changes, abs_init };
    // Judge before teardown: when the run already shows a violation the map may be corrupt
    // (an entry retired twice, a dangling bin), and dropping it would take the process down
    // before the violation is reported. Such a map is leaked instead.
    let pre_failed = stuck || !r.life_failures.is_empty() || !judge(case, &r).failures.is_empty();
    if pre_failed {
        std::mem::forget(map);
    } else {
        // teardown: the map (and the collector it owns) goes away; then every instance ever
        // created must have been dropped exactly once
        match Arc::try_unwrap(map) {
            Ok(m) => drop(m),
            Err(_) => r.life_failures.push("[drop] the map is still shared after all threads were joined".into()),
        }
        if record_all {
            r.life_failures.extend(crate::life::ledger_verdict());
        }
    }
    r
}

// ------------------------------------------------------------------------------------------
// linearizability (per key, Wing & Gong style search with memoisation)

#[derive(Clone, Copy, PartialEq, Eq, Hash, Debug, PartialOrd, Ord)]
pub struct KState(pub Option<(u64, u32)>);

/// apply `op` to the per-key state; returns (new state, expected result prefix) or None if the
/// observed result is impossible in this state
fn spec_step(st: KState, c: &Call) -> Option<KState> {
    let res = c.result.split(" | ").next().unwrap_or("");
    let cur = match st.0 {
        Some((p, o)) => format!("some {} {}", p, o),
        None => "none".into(),
    };
    match &c.op {
        COp::Ins(_, v, o) => {
            if res == cur {
                Some(KState(Some((*v, *o))))
            } else {
                None
            }
        }
        COp::TryIns(_, v, o) => match st.0 {
            None => (res == "none").then(|| KState(Some((*v, *o)))),
            Some((p, oo)) => (res == format!("exists {} {}", p, oo)).then_some(st),
        },
        COp::Get(_) | COp::GetKv(_) | COp::Yielded(_) => (res == cur).then_some(st),
        COp::Has(_) => (res == st.0.is_some().to_string()).then_some(st),
        COp::Rm(_) | COp::Rme(_) => (res == cur).then_some(KState(None)),
        COp::CipInc(_, o) => match st.0 {
            None => (res == "none" && c.closure_calls == 0).then_some(st),
            Some((p, oo)) => {
                let saw = c.result.split(" | saw ").nth(1).unwrap_or("");
                (res == format!("some {} {}", p + 1, o) && saw == format!("{} {}", p, oo) && c.closure_calls == 1).then(|| KState(Some((p + 1, *o))))
            }
        },
        COp::CipPanic(_) => match st.0 {
            None => (res == "none" && c.closure_calls == 0).then_some(st),
            Some(_) => (res == "panic" && c.closure_calls == 1).then_some(st),
        },
        COp::CondRm(_, o) => match st.0 {
            Some((_, oo)) if oo == *o => Some(KState(None)),
            _ => Some(st),
        },
        COp::ForceRm(_) | COp::ClearRm(_) | COp::ClearRmOpt(_) => Some(KState(None)),
        COp::CipRm(_) => match st.0 {
            None => (res == "none" && c.closure_calls == 0).then_some(st),
            Some((p, oo)) => {
                let saw = c.result.split(" | saw ").nth(1).unwrap_or("");
                (res == "none" && saw == format!("{} {}", p, oo) && c.closure_calls == 1).then_some(KState(None))
            }
        },
        _ => Some(st),
    }
}

/// the effect of a (completed) call on the per-key state, ignoring what it reported
fn apply_effect(st: KState, c: &Call) -> KState {
    let res = c.result.split(" | ").next().unwrap_or("");
    match &c.op {
        COp::Ins(_, v, o) => KState(Some((*v, *o))),
        COp::TryIns(_, v, o) => {
            if res == "none" {
                KState(Some((*v, *o)))
            } else {
                st
            }
        }
        COp::Rm(_) | COp::Rme(_) | COp::CipRm(_) | COp::ForceRm(_) | COp::ClearRm(_) | COp::ClearRmOpt(_) => KState(None),
        COp::CondRm(_, o) => match st.0 {
            Some((_, oo)) if oo == *o => KState(None),
            _ => st,
        },
        COp::CipInc(_, o) => match res.strip_prefix("some ") {
            Some(rest) => {
                let p: u64 = rest.split(' ').next().and_then(|x| x.parse().ok()).unwrap_or(0);
                KState(Some((p, *o)))
            }
            None => st,
        },
        _ => st,
    }
}

/// Is the history of one key linearizable from `init`, ending in `fin` (if given)?
/// Returns a witness order (indices into `calls`) if so.
pub fn linearize(calls: &[Call], init: KState, fin: Option<KState>) -> Option<Vec<usize>> {
    let n = calls.len();
    if n > 40 {
        return Some(vec![]); // too long to decide here; not judged
    }
    let mut memo: std::collections::HashSet<(u64, KState)> = Default::default();
    let mut order = vec![];
    fn go(calls: &[Call], done: u64, st: KState, fin: Option<KState>, memo: &mut std::collections::HashSet<(u64, KState)>, order: &mut Vec<usize>) -> bool {
        let n = calls.len();
        if done == (1u64 << n) - 1 {
            return fin.map(|f| f == st).unwrap_or(true);
        }
        if !memo.insert((done, st)) {
            return false;
        }
        // minimal response time among not-yet-linearized calls: a call can go next only if it
        // was invoked before every pending call responded
        let min_resp = (0..n).filter(|i| done & (1 << i) == 0).map(|i| calls[i].resp).min().unwrap();
        for i in 0..n {
            if done & (1 << i) != 0 || calls[i].inv > min_resp {
                continue;
            }
            if let Some(st2) = spec_step(st, &calls[i]) {
                order.push(i);
                if go(calls, done | (1 << i), st2, fin, memo, order) {
                    return true;
                }
                // an optional pseudo-operation may also do nothing
                if matches!(calls[i].op, COp::ClearRmOpt(_)) && st2 != st && go(calls, done | (1 << i), st, fin, memo, order) {
                    return true;
                }
                order.pop();
            }
        }
        false
    }
    if go(calls, 0, init, fin, &mut memo, &mut order) {
        Some(order)
    } else {
        None
    }
}

pub struct Verdicts {
    pub failures: Vec<String>,
    /// `[abs-point]`: effects of updates witnessed on the real structure at one write of the call /
    /// reads and effect-less updates explained by a state the key had during the call
    pub abs_points: usize,
    pub abs_reads: usize,
    /// per-key certificates whose order is the one read off the real structure (`point_order`)
    pub point_orders: usize,
    pub keys_checked: usize,
    pub witnesses: BTreeMap<u32, Vec<usize>>,
    /// one `lin init=.. fin=.. calls=.. order=..` line per key, for the Lean certificate checker
    pub lin_lines: Vec<String>,
}

fn kst_txt(s: KState) -> String {
    match s.0 {
        Some((p, o)) => format!("{}.{}", p, o),
        None => "-".into(),
    }
}

fn call_txt(c: &Call) -> Option<String> {
    let res = c.result.split(" | ").next().unwrap_or("");
    let op = match &c.op {
        COp::Ins(_, v, o) => format!("ins.{}.{}", v, o),
        COp::TryIns(_, v, o) => format!("tryins.{}.{}", v, o),
        COp::Get(_) | COp::GetKv(_) | COp::Yielded(_) => "get".into(),
        COp::Has(_) => "has".into(),
        COp::Rm(_) | COp::Rme(_) => "rm".into(),
        COp::CipInc(_, o) => format!("cipinc.{}", o),
        COp::CipRm(_) => "ciprm".into(),
        _ => return None,
    };
    let r = res.replace(' ', ".");
    Some(format!("{}:{}:{}:{}:{}", c.tid, op, r, c.inv, c.resp))
}

/// all per-key / whole-run oracles of one scheduled run
pub fn judge(case: &ConcCase, r: &ConcResult) -> Verdicts {
    let mut f = vec![];
    let mut witnesses = BTreeMap::new();
    let mut lin_lines = vec![];
    if r.outcome.deadlock {
        if r.outcome.blocked.iter().any(|(_, w)| w.contains("OUTSIDE any hook")) {
            // not a deadlock of the code: the scheduler cannot go on because a thread waits, in a lock
            // acquisition no hook announces, for a lock held by a thread the scheduler has suspended
            f.push(format!("[unhooked-lock] the run cannot be scheduled any further: {:?}", r.outcome.blocked));
        } else {
            f.push(format!("[deadlock] no unfinished thread can take a step: {:?}", r.outcome.blocked));
        }
    }
    if r.outcome.budget_exceeded {
        let in_flight: Vec<String> = r
            .outcome
            .blocked
            .iter()
            .map(|(t, _)| {
                let done = r.calls.iter().filter(|c| c.tid == *t).count();
                format!("t{} inside `{}`", t, case.programs.get(*t).and_then(|p| p.get(done)).map(|o| o.text()).unwrap_or_default())
            })
            .collect();
        f.push(format!("[livelock] step budget exceeded ({} steps); still running: {:?}; operations in flight: {}", r.outcome.steps, r.outcome.blocked, in_flight.join(", ")));
    }
    for t in &r.panicked {
        // the operation in flight: the first one of the thread's program that did not complete
        let done = r.calls.iter().filter(|c| c.tid == *t).count();
        let op = case.programs.get(*t).and_then(|p| p.get(done)).map(|o| o.text()).unwrap_or_default();
        f.push(format!("[panic] thread {} panicked inside `{}`", t, op));
    }
    if let Some(b) = &r.outcome.solo_blocked {
        f.push(format!("[read-blocks] a read running alone (all other threads suspended) was not enabled: {}", b));
    }
    if let Some(n) = r.outcome.solo_steps {
        let table_len: usize = r.final_snap.strip_prefix("len=").and_then(|x| x.split(' ').next()).and_then(|x| x.parse().ok()).unwrap_or(64);
        let nodes = case.prefill.len() + case.programs.iter().map(|p| p.len()).sum::<usize>();
        let is_iter = case.programs.first().map(|p| p.iter().any(|o| matches!(o, COp::Iter))).unwrap_or(false);
        let bound = if is_iter { 100 + 6 * (2 * table_len + 3 * nodes) } else { 100 + 12 * nodes };
        // a frozen-chain dump reads every cell of two tables: not a read of the public API
        let is_dump = case.programs.first().map(|p| p.iter().any(|o| matches!(o, COp::FrozenIter))).unwrap_or(false);
        if n > bound && !is_dump {
            f.push(format!("[read-blocks] a read running alone needed {} own steps (bound {})", n, bound));
        }
    }
    let mut keys: std::collections::BTreeSet<u32> = case.prefill.iter().map(|e| e.0).collect();
    keys.extend(r.calls.iter().filter_map(|c| c.op.key()));
    let finished = !r.outcome.deadlock && !r.outcome.budget_exceeded;
    // `clear` is, per key of the universe, an unconditional removal somewhere inside the call's
    // interval (a no-op if the key is absent at that moment)
    let whole_map_writes = false;
    // C13: a retain call is, per key it rejected, a conditional (retain) or unconditional
    // (retain_force) removal somewhere inside the call's interval
    let mut all_calls: Vec<Call> = r.calls.clone();
    for c in &r.calls {
        let force = match &c.op {
            COp::Retain(_, f) | COp::RetainPanic(_, f, _) => *f,
            _ => continue,
        };
        let verdicts = c.result.split(" | ").next().unwrap_or("");
        for v in verdicts.split(',').filter(|x| !x.is_empty()) {
            let parts: Vec<&str> = v.split(':').collect();
            if parts.len() == 3 && parts[2] == "false" {
                let (k, o) = (parts[0].parse::<u32>().unwrap_or(0), parts[1].parse::<u32>().unwrap_or(0));
                all_calls.push(Call { op: if force { COp::ForceRm(k) } else { COp::CondRm(k, o) }, result: "-".into(), yielded: vec![], ..c.clone() });
            }
        }
    }
    for c in &r.calls {
        if matches!(c.op, COp::Clear) {
            for k in &keys {
                // No property demands that `clear` removes an entry that is present during the whole
                // call, and it does not: when it meets a forwarding marker it continues on the next
                // table and never sees the bins of the old table that are transferred after it
                // passed (observed, and the same in the JDK original). So: one optional removal,
                // plus one optional further removal per insert of that key that overlaps the clear
                let again = r.calls.iter().filter(|d| matches!(d.op, COp::Ins(kk, ..) | COp::TryIns(kk, ..) if kk == *k) && d.inv <= c.resp && d.resp >= c.inv).count();
                for _ in 0..(1 + again.min(4)) {
                    all_calls.push(Call { op: COp::ClearRmOpt(*k), result: "-".into(), yielded: vec![], ..c.clone() });
                }
            }
        }
    }
    // C07 with C01: an iterator that yields (k, v) has read k = v at some moment between its
    // creation and the yield; that read must fit into the same sequential order as every other
    // operation on k (a later `get` that misses a key an iterator already showed does not)
    for c in &r.calls {
        if matches!(c.op, COp::Iter | COp::FrozenIter) {
            for (i, y) in c.yielded.iter().enumerate() {
                let at = c.yield_at.get(i).copied().unwrap_or(c.resp);
                all_calls.push(Call { op: COp::Yielded(y.0), result: format!("some {} {}", y.1, y.2), resp: at, yielded: vec![], yield_at: vec![], yield_ix: vec![], ..c.clone() });
            }
        }
    }
    let r_calls = &all_calls;
    let mut keys_checked = 0;
    let mut point_orders = 0usize;
    if finished && !whole_map_writes {
        for k in &keys {
            let init = KState(case.prefill.iter().rev().find(|e| e.0 == *k).map(|e| (e.1, e.2)));
            let fin = KState(r.final_contents.iter().find(|e| e.0 == *k).map(|e| (e.1, e.2)));
            let mut cs: Vec<Call> = r_calls.iter().filter(|c| c.op.key() == Some(*k)).cloned().collect();
            cs.sort_by_key(|c| (c.inv, c.tid));
            keys_checked += 1;
            match linearize(&cs, init, Some(fin)) {
                Some(w) => {
                    // prefer the order read off the real structure (every call at its witnessed
                    // linearization point) as the certificate the Lean checker validates
                    let w = match point_order(r, *k, &cs, init, fin) {
                        Some(wp) => {
                            point_orders += 1;
                            wp
                        }
                        None => w,
                    };
                    if cs.len() <= 40 {
                        let calls_txt: Option<Vec<String>> = cs.iter().map(call_txt).collect();
                        if let Some(ct) = calls_txt {
                            lin_lines.push(format!(
                                "lin init={} fin={} calls={} order={}",
                                kst_txt(init),
                                kst_txt(fin),
                                if ct.is_empty() { "-".to_string() } else { ct.join(",") },
                                if w.is_empty() { "-".to_string() } else { w.iter().map(|i| i.to_string()).collect::<Vec<_>>().join(".") }
                            ));
                        }
                    }
                    witnesses.insert(*k, w);
                }
                None => {
                    let hist: Vec<String> = cs.iter().map(|c| format!("t{}[{}..{}] {} -> {}", c.tid, c.inv, c.resp, c.op.text(), c.result)).collect();
                    let real: Vec<Call> = cs.iter().filter(|c| !matches!(c.op, COp::Yielded(_))).cloned().collect();
                    let tag = if real.len() < cs.len() && linearize(&real, init, Some(fin)).is_some() {
                        // the single-key operations alone are fine: it is the iterator's view that does not fit
                        "iter-lin"
                    } else if cs.iter().any(|c| matches!(c.op, COp::ClearRm(..) | COp::ClearRmOpt(..))) {
                        "clear"
                    } else if cs.iter().any(|c| matches!(c.op, COp::CondRm(..) | COp::ForceRm(..))) {
                        "retain"
                    } else {
                        "lin"
                    };
                    f.push(format!(
                        "[{}] key {}: no sequential order of its operations explains the results (initial {:?}, final {:?}): {}",
                        tag,
                        k,
                        init.0,
                        fin.0,
                        hist.join("; ")
                    ));
                }
            }
        }
        // C07: weak consistency of every completed iteration
        for it in r.calls.iter().filter(|c| matches!(c.op, COp::Iter | COp::FrozenIter)) {
            for k in &keys {
                let mut cs: Vec<&Call> = r_calls.iter().filter(|c| c.op.key() == Some(*k)).collect();
                cs.sort_by_key(|c| (c.inv, c.tid));
                let Some(w) = witnesses.get(k) else { continue };
                if w.len() != cs.len() {
                    continue;
                }
                let mutating = |c: &Call| matches!(c.op, COp::Ins(..) | COp::TryIns(..) | COp::Rm(..) | COp::Rme(..) | COp::CipInc(..) | COp::CipRm(..) | COp::CondRm(..) | COp::ForceRm(..) | COp::ClearRm(..) | COp::ClearRmOpt(..));
                let init = KState(case.prefill.iter().rev().find(|e| e.0 == *k).map(|e| (e.1, e.2)));
                // state after every operation that completed before the iterator was created
                let mut st = init;
                let mut touched = false;
                for &i in w {
                    let c = cs[i];
                    if c.resp < it.inv {
                        st = apply_effect(st, c);
                    } else if mutating(c) && c.inv <= it.resp {
                        touched = true;
                    }
                }
                let ys: Vec<&(u32, u64, u32)> = it.yielded.iter().filter(|y| y.0 == *k).collect();
                if !touched {
                    match st.0 {
                        Some((p, o)) => {
                            if ys.len() != 1 || (ys[0].1, ys[0].2) != (p, o) {
                                f.push(format!(
                                    "[iter] key {} was present with value ({}, {}) and untouched for the whole iteration of t{} [{}..{}], but the iterator yielded it {} times: {:?}",
                                    k, p, o, it.tid, it.inv, it.resp, ys.len(), ys
                                ));
                            }
                        }
                        None => {
                            if !ys.is_empty() {
                                f.push(format!("[iter] key {} was absent and untouched during the iteration of t{} [{}..{}] but was yielded: {:?}", k, it.tid, it.inv, it.resp, ys));
                            }
                        }
                    }
                } else {
                    // every yielded pair must have been in the map at some moment of the iteration
                    for y in ys {
                        let mut possible = st.0 == Some((y.1, y.2));
                        for &i in w {
                            let c = cs[i];
                            let writes = match &c.op {
                                COp::Ins(_, v, o) => c.inv <= it.resp && (*v, *o) == (y.1, y.2),
                                COp::TryIns(_, v, o) => c.inv <= it.resp && c.result.starts_with("none") && (*v, *o) == (y.1, y.2),
                                COp::CipInc(_, o) => c.inv <= it.resp && *o == y.2,
                                _ => false,
                            };
                            if writes && c.resp >= it.inv {
                                possible = true;
                            }
                        }
                        if !possible {
                            f.push(format!("[iter] the iteration of t{} [{}..{}] yielded ({}, {}, {}), which was not in the map at any moment of the iteration", it.tid, it.inv, it.resp, y.0, y.1, y.2));
                        }
                    }
                }
            }
            // nothing but keys of the universe
            for y in &it.yielded {
                if !keys.contains(&y.0) {
                    f.push(format!("[iter] the iterator yielded key {} which was never inserted", y.0));
                }
            }
        }
        // len() at quiescence
        if r.len_final != r.final_contents.len() {
            f.push(format!("[quiescent] len() = {} but iteration yields {} entries", r.len_final, r.final_contents.len()));
        }
    }
    for c in &r.calls {
        if c.closure_calls > 1 {
            f.push(format!("[cip] t{} {}: the remapping function ran {} times", c.tid, c.op.text(), c.closure_calls));
        }
        if c.op.is_read() {
            // C12: a read takes no lock, never parks, never spins
            for e in &r.trace[c.trace_from.min(r.trace.len())..c.trace_to.min(r.trace.len())] {
                if e.tid == c.tid && matches!(e.kind, Kind::BeforeLock | Kind::BeforePark | Kind::Spin) {
                    f.push(format!("[read-blocks] t{} {} performed {:?} at {}:{}", c.tid, c.op.text(), e.kind, e.file, e.line));
                    break;
                }
            }
        }
    }
    // C11: "a writer waiting for tree-bin readers to drain is always woken". The argument
    // (`Proto/RwLock`: `writer_eventually_enabled`) is that once the WAITER bit is set no further
    // reader enters the tree, so the reader count only falls. A reader that takes the read lock
    // although the lock word it loaded had WAITER (or WRITER) set overtakes the parked writer; reads
    // that keep arriving then keep it parked for ever, with the bin mutex held. A release of the
    // read lock (`fetch_add(-READER)`) whose acquisition was decided on such a word is that reader.
    {
        let mut last_decision: std::collections::HashMap<(usize, usize), usize> = Default::default(); // (tid, lock word) -> word loaded
        let mut overtakes: Vec<(usize, usize, &'static str, u32)> = vec![];
        for e in &r.trace {
            if e.what != "lock_state" {
                continue;
            }
            match e.kind {
                Kind::Yield => {
                    last_decision.insert((e.tid, e.addr), e.a);
                }
                Kind::FetchAdd if (e.a as isize) == -4 => {
                    if let Some(sv) = last_decision.remove(&(e.tid, e.addr)) {
                        if sv & 3 != 0 {
                            overtakes.push((e.tid, sv, e.file, e.line));
                        }
                    }
                }
                _ => {}
            }
        }
        if let Some((t, sv, file, line)) = overtakes.first() {
            f.push(format!(
                "[starvation] t{} took a tree bin's read lock although the lock word it had loaded was {} (WAITER = 2 / WRITER = 1 set): {} read(s) of this run entered the tree past a writer that was already waiting; while reads keep arriving the reader count never reaches zero and the parked writer - which holds the bin mutex - is never woken (release at {}:{})",
                t, sv, overtakes.len(), file, line
            ));
        }
    }
    // C14: "removing entries - by any operation - never makes it grow": a call that only removes
    // must not be the one that initiates a resize (the CAS that takes `size_ctl` from a threshold
    // to a negative resize stamp)
    for c in &r.calls {
        let removal = matches!(c.op, COp::Rm(_) | COp::Rme(_) | COp::CipRm(_) | COp::Retain(..) | COp::RetainPanic(..) | COp::Clear | COp::CipPanic(_));
        if !removal {
            continue;
        }
        for e in &r.trace[c.trace_from.min(r.trace.len())..c.trace_to.min(r.trace.len())] {
            if e.tid == c.tid && matches!(e.kind, Kind::Cas | Kind::Yield) && e.seen == e.a && e.what == "size_ctl" && (e.a as isize) >= 0 && (e.b as isize) < -1 {
                f.push(format!(
                    "[removal-grows] t{} {} (a call that only removes) initiated a resize: size_ctl {} -> {:#x} at {}:{}",
                    c.tid, c.op.text(), e.a as isize, e.b, e.file, e.line
                ));
                break;
            }
        }
    }
    for w in &r.wf {
        if w.starts_with('[') {
            f.push(w.clone()); // a mid-run probe's diagnosis carries its own tag
        } else {
            f.push(format!("[quiescent] {}", w));
        }
    }
    let (af, abs_points, abs_reads) = abs_points(case, r);
    f.extend(af);
    Verdicts { failures: f, abs_points, abs_reads, point_orders, keys_checked, witnesses, lin_lines }
}

/// The linearization of key `k`'s calls read off the real structure: an update stands at the write
/// that changed what a lookup of `k` finds, a read or an update without effect at the first moment
/// of its interval at which its result fits the state of `k`. `None` if some call has no such
/// place, if pseudo-operations are involved, or if the order does not replay (then the order found
/// by search is used as the certificate instead).
fn point_order(r: &ConcResult, k: u32, cs: &[Call], init: KState, fin: KState) -> Option<Vec<usize>> {
    if r.abs_changes.is_empty() && r.abs_init.is_empty() && cs.iter().any(|c| !c.op.is_read()) {
        return None;
    }
    let mut pos: Vec<(usize, usize, usize, usize)> = vec![];
    for (i, c) in cs.iter().enumerate() {
        if !matches!(c.op, COp::Ins(..) | COp::TryIns(..) | COp::Get(_) | COp::GetKv(_) | COp::Has(_) | COp::Rm(_) | COp::Rme(_) | COp::CipInc(..) | COp::CipRm(_)) {
            return None;
        }
        let own: Vec<&AbsChange> = r.abs_changes.iter().filter(|ch| ch.key == k && ch.tid == c.tid && c.trace_from <= ch.ix && ch.ix < c.trace_to).collect();
        let p = if own.len() == 1 && !c.op.is_read() {
            2 * own[0].ix + 1
        } else if own.is_empty() {
            let mut cur = r.abs_init.get(&k).copied();
            for ch in r.abs_changes.iter().filter(|ch| ch.key == k && ch.ix < c.trace_from) {
                cur = ch.after;
            }
            let mut found = if spec_step(KState(cur), c) == Some(KState(cur)) { Some(2 * c.trace_from) } else { None };
            if found.is_none() {
                for ch in r.abs_changes.iter().filter(|ch| ch.key == k && c.trace_from <= ch.ix && ch.ix < c.trace_to) {
                    if spec_step(KState(ch.after), c) == Some(KState(ch.after)) {
                        found = Some(2 * ch.ix + 2);
                        break;
                    }
                }
            }
            found?
        } else {
            return None;
        };
        pos.push((p, c.inv, c.tid, i));
    }
    pos.sort();
    let order: Vec<usize> = pos.iter().map(|x| x.3).collect();
    // replay: results, final state, real-time order
    let mut st = init;
    for &i in &order {
        st = spec_step(st, &cs[i])?;
    }
    if st != fin {
        return None;
    }
    for a in 0..order.len() {
        for b in a + 1..order.len() {
            if cs[order[b]].resp < cs[order[a]].inv {
                return None;
            }
        }
    }
    Some(order)
}

/// **Linearization points witnessed on the real structure** (the hypothesis of
/// `C01.linearization_points`, and the conclusions of `BinW.storeAt_eq_writerStore_reachable`,
/// `BinK.conversion_abs_invariant`, `BinX.transfer_abs_invariant`, checked on the real run).
/// `r.abs_changes` lists every change of the abstract content ("what a lookup started now would
/// find", `abs_of`) together with the write that caused it. Required:
/// * a change is caused by a write of a call that updates that very key (or by `clear` / `retain`):
///   nothing `transfer`, `help_transfer`, `treeify_bin`, `untreeify`, `init_table`, `try_presize` or
///   a read does changes the content;
/// * a single-key update changes its key at most once, and the change is what the sequential
///   specification does to the state found there, with the result the call returned (for
///   `compute_if_present`: the closure saw exactly that state);
/// * a single-key update without any effect, and every read, is explained by a state its key had
///   at some moment of the call.
/// Together these give a linearization (every call placed at its witnessed point), so this is a
/// sufficient condition checked on the structure itself; it reports what black-box histories only
/// show when some reader happens to look at the wrong moment.
pub fn abs_points(case: &ConcCase, r: &ConcResult) -> (Vec<String>, usize, usize) {
    let mut f = vec![];
    let finished = !r.outcome.deadlock && !r.outcome.budget_exceeded;
    if !finished || (r.abs_changes.is_empty() && r.calls.is_empty()) {
        return (f, 0, 0);
    }
    let _ = case;
    let fmt = |x: Option<(u64, u32)>| match x {
        Some((p, o)) => format!("({}, {})", p, o),
        None => "absent".to_string(),
    };
    let mut own: BTreeMap<(usize, usize), Vec<&AbsChange>> = BTreeMap::new(); // (tid, idx) of the call -> its changes
    let (mut points, mut reads) = (0usize, 0usize);
    for ch in &r.abs_changes {
        let Some(c) = r.calls.iter().find(|c| c.tid == ch.tid && c.trace_from <= ch.ix && ch.ix < c.trace_to) else {
            if !r.panicked.contains(&ch.tid) {
                f.push(format!("[abs-point] the write of t{} at {}:{} changed key {} from {} to {} outside any call", ch.tid, ch.file, ch.line, ch.key, fmt(ch.before), fmt(ch.after)));
            }
            continue;
        };
        let head = format!("[abs-point] t{} `{}` [{}..{}] -> {}: its write at {}:{} changed what a lookup of key {} finds from {} to {}", c.tid, c.op.text(), c.inv, c.resp, c.result, ch.file, ch.line, ch.key, fmt(ch.before), fmt(ch.after));
        match &c.op {
            COp::Ins(k, ..) | COp::TryIns(k, ..) | COp::Rm(k) | COp::Rme(k) | COp::CipInc(k, _) | COp::CipRm(k) => {
                if *k != ch.key {
                    f.push(format!("{}: not the key of the call (moving, converting or initialising bins must not change the content)", head));
                    continue;
                }
                own.entry((c.tid, c.idx)).or_default().push(ch);
                match spec_step(KState(ch.before), c) {
                    Some(st) if st == KState(ch.after) => points += 1,
                    _ => f.push(format!("{}: not what the call does to that state with the result it returned", head)),
                }
            }
            COp::Clear => {
                if ch.after.is_some() {
                    f.push(format!("{}: clear only removes", head));
                } else {
                    points += 1;
                }
            }
            COp::Retain(_, force) | COp::RetainPanic(_, force, _) => {
                let verdicts = c.result.split(" | ").next().unwrap_or("");
                let rejected = verdicts.split(',').any(|v| {
                    let p: Vec<&str> = v.split(':').collect();
                    p.len() == 3 && p[2] == "false" && p[0].parse::<u32>().ok() == Some(ch.key) && (*force || ch.before.map(|b| b.1.to_string()) == Some(p[1].to_string()))
                });
                if ch.after.is_some() || !rejected {
                    f.push(format!("{}: retain removes only an entry whose current value its predicate rejected (verdicts {})", head, verdicts));
                } else {
                    points += 1;
                }
            }
            _ => f.push(format!("{}: this call does not update the map", head)),
        }
    }
    // the states key `k` went through during the events [from, to)
    let during = |k: u32, from: usize, to: usize| -> Vec<Option<(u64, u32)>> {
        let mut cur = r.abs_init.get(&k).copied();
        let mut out = vec![];
        let mut started = false;
        for ch in r.abs_changes.iter().filter(|ch| ch.key == k) {
            if ch.ix < from {
                cur = ch.after;
            } else if ch.ix < to {
                if !started {
                    out.push(cur);
                    started = true;
                }
                out.push(ch.after);
            }
        }
        if !started {
            out.push(cur);
        }
        out
    };
    for c in &r.calls {
        let single = matches!(c.op, COp::Ins(..) | COp::TryIns(..) | COp::Rm(..) | COp::Rme(..) | COp::CipInc(..) | COp::CipRm(..) | COp::CipPanic(..));
        let read = matches!(c.op, COp::Get(_) | COp::GetKv(_) | COp::Has(_));
        let n_own = own.get(&(c.tid, c.idx)).map(|v| v.len()).unwrap_or(0);
        if single && n_own > 1 {
            f.push(format!("[abs-point] t{} `{}` [{}..{}] -> {}: the call changed its key {} times: {:?}", c.tid, c.op.text(), c.inv, c.resp, c.result, n_own, own[&(c.tid, c.idx)].iter().map(|ch| format!("{} -> {} at {}:{}", fmt(ch.before), fmt(ch.after), ch.file, ch.line)).collect::<Vec<_>>()));
        }
        if (single && n_own == 0) || read {
            let Some(k) = c.op.key() else { continue };
            let states = during(k, c.trace_from, c.trace_to);
            if states.iter().any(|st| spec_step(KState(*st), c) == Some(KState(*st))) {
                reads += 1;
            } else {
                f.push(format!(
                    "[abs-point] t{} `{}` [{}..{}] -> {}: {} and the result fits none of the states its key had during the call: {}",
                    c.tid, c.op.text(), c.inv, c.resp, c.result,
                    if read { "a read" } else { "the call never changed what a lookup finds" },
                    states.iter().map(|s| fmt(*s)).collect::<Vec<_>>().join(", ")
                ));
            }
        }
    }
    // C07 on the real structure: (a) every pair an iterator yields is what a lookup of that key would
    // have found at some moment between the iterator's creation and the yield; (b) a key whose
    // content did not change during the whole iteration and was present is yielded exactly once
    // (with that value), one that was absent throughout is not yielded. "Did not change" is read off
    // the witnessed changes, so calls that overlap the iteration without an effect do not excuse it.
    for c in r.calls.iter().filter(|c| matches!(c.op, COp::Iter)) {
        if c.yield_ix.len() != c.yielded.len() {
            continue;
        }
        for (y, &yix) in c.yielded.iter().zip(c.yield_ix.iter()) {
            let states = during(y.0, c.trace_from, yix.max(c.trace_from));
            if !states.contains(&Some((y.1, y.2))) {
                f.push(format!(
                    "[abs-iter] the iteration of t{} [{}..{}] yielded key {} with value ({}, {}), which a lookup would not have found at any moment between the iterator's creation and that yield (states of the key in that interval: {})",
                    c.tid, c.inv, c.resp, y.0, y.1, y.2, states.iter().map(|s| fmt(*s)).collect::<Vec<_>>().join(", ")
                ));
            }
        }
        let mut keys: std::collections::BTreeSet<u32> = r.abs_init.keys().copied().collect();
        keys.extend(r.abs_changes.iter().map(|ch| ch.key));
        keys.extend(c.yielded.iter().map(|y| y.0));
        for k in keys {
            let states = during(k, c.trace_from, c.trace_to);
            if states.len() != 1 {
                continue; // touched during the iteration
            }
            let n = c.yielded.iter().filter(|y| y.0 == k).count();
            match states[0] {
                Some((p, o)) => {
                    if n != 1 || !c.yielded.contains(&(k, p, o)) {
                        f.push(format!(
                            "[abs-iter] key {} held ({}, {}) and nothing changed what a lookup of it finds during the whole iteration of t{} [{}..{}], but the iterator yielded it {} time(s): {:?}",
                            k, p, o, c.tid, c.inv, c.resp, n, c.yielded.iter().filter(|y| y.0 == k).collect::<Vec<_>>()
                        ));
                    }
                }
                None => {
                    if n != 0 {
                        f.push(format!("[abs-iter] key {} was absent during the whole iteration of t{} [{}..{}] but was yielded", k, c.tid, c.inv, c.resp));
                    }
                }
            }
        }
    }
    // C05 (`len()` equals the number of entries whenever nothing is in flight): every call adds to
    // the entry counter exactly the number of entries it added to / removed from the content
    // (`Proto/Count`: `quiescent_count_eq_size`). Judged per completed call: the sum of the deltas
    // it passed to `add_count` against the net effect of its witnessed changes.
    for c in &r.calls {
        let net: i64 = r
            .abs_changes
            .iter()
            .filter(|ch| ch.tid == c.tid && c.trace_from <= ch.ix && ch.ix < c.trace_to)
            .map(|ch| ch.after.is_some() as i64 - ch.before.is_some() as i64)
            .sum();
        let counted: i64 = r.trace[c.trace_from.min(r.trace.len())..c.trace_to.min(r.trace.len())]
            .iter()
            .filter(|e| e.tid == c.tid && e.kind == Kind::FetchAdd && e.what == "count")
            .map(|e| e.a as isize as i64)
            .sum();
        if net != counted {
            f.push(format!(
                "[count] t{} `{}` [{}..{}] -> {}: the call changed the number of entries by {} but added {} to the entry counter (len() no longer equals the number of entries once everything has returned)",
                c.tid, c.op.text(), c.inv, c.resp, c.result, net, counted
            ));
        }
    }
    f.truncate(6);
    (f, points, reads)
}

// ------------------------------------------------------------------------------------------
// generator

pub fn gen_conc(id: usize, seed: u64, tier_big: bool) -> ConcCase {
    gen_conc_mode(id, seed, tier_big, "mixed")
}

/// mode: "mixed" (per-key API), "iter" (one or two iterating threads against writers that grow the
/// table and convert bins), "tree" (all threads work in one crowded bin of a table >= 64), "resize" (several
/// threads push one table over its threshold together)
pub fn gen_conc_mode(id: usize, seed: u64, tier_big: bool, mode: &str) -> ConcCase {
    let mut rng = Rng(seed ^ 0xC0C0);
    let classes: &[&'static str] = &["zero", "samebin", "fewbins", "uniform", "ident", "alternate"];
    let class = *rng.pick(classes);
    let nkeys = match rng.below(3) {
        0 => 2 + rng.below(3) as usize,
        1 => 4 + rng.below(6) as usize,
        _ => 10 + rng.below(8) as usize,
    };
    let hashes = crate::gen::gen_hashes(&mut rng, class, nkeys.max(20));
    // shapes: tiny table about to resize, table >= 64 with a crowded bin (tree), default
    let shape = rng.below(4);
    let (cap, prefill_n) = match shape {
        0 => (0usize, rng.below(3) as usize),
        1 => (1 + rng.below(3) as usize, rng.below(4) as usize),
        2 => (64, (6 + rng.below(6)) as usize), // near/over the treeify threshold when hashes collide
        _ => (rng.below(20) as usize, rng.below(12) as usize),
    };
    let mut origin = 100u32;
    let mut fresh = || {
        origin += 1;
        origin
    };
    let prefill: Vec<(u32, u64, u32)> = (0..prefill_n.min(nkeys)).map(|i| ((i + 1) as u32, rng.below(5), fresh())).collect();
    let nthreads = 2 + rng.below(if tier_big { 3 } else { 2 }) as usize;
    let key = |rng: &mut Rng| 1 + rng.below(nkeys as u64) as u32;
    let hot = key(&mut rng);
    let mut programs = vec![];
    for _ in 0..nthreads {
        let nops = 1 + rng.below(if tier_big { 5 } else { 3 }) as usize;
        let mut p = vec![];
        for _ in 0..nops {
            let k = if rng.chance(1, 2) { hot } else { key(&mut rng) };
            let op = match rng.below(20) {
                0..=5 => COp::Ins(k, rng.below(5), fresh()),
                6 => COp::TryIns(k, rng.below(5), fresh()),
                7..=9 => COp::Get(k),
                10 => COp::Has(k),
                11 => COp::GetKv(k),
                12 | 13 => COp::Rm(k),
                14 => COp::Rme(k),
                15 | 16 => COp::CipInc(k, fresh()),
                17 => COp::CipRm(k),
                18 => COp::Reserve(rng.below(40) as usize),
                _ => COp::Ins(key(&mut rng), rng.below(5), fresh()),
            };
            p.push(op);
        }
        programs.push(p);
    }
    let mut solo_freeze: Vec<(usize, usize)> = vec![];
    let mut treecase_fi = false;
    let (programs, cap, prefill, hashes, class) = match mode {
        "iter" if rng.chance(1, 4) => {
            // an iterator that lives across SEVERAL doublings: it is created (and advanced by a few of
            // its own loads), then suspended while one writer doubles the table two or three times
            // (inserts of fresh keys and reservations) and a second one touches some old keys, then it
            // runs on: every frame of its table stack is pushed, popped and re-used
            let hc = *rng.pick(&["ident", "uniform", "alternate", "fewbins"]);
            let hashes = crate::gen::gen_hashes(&mut rng, hc, 140);
            let pre = 3 + rng.below(9) as usize;
            let prefill: Vec<(u32, u64, u32)> = (0..pre).map(|i| ((i + 1) as u32, rng.below(5), fresh())).collect();
            let mut programs = vec![vec![COp::Iter]];
            let mut grow = vec![];
            let n_new = 30 + rng.below(60) as u32;
            for i in 0..n_new {
                grow.push(COp::Ins(20 + i, 1, fresh()));
                if i % 16 == 7 && rng.chance(1, 2) {
                    grow.push(COp::Reserve(20 + rng.below(100) as usize));
                }
            }
            programs.push(grow);
            let mut touch = vec![];
            for _ in 0..rng.below(4) {
                let k = 1 + rng.below(pre as u64) as u32;
                touch.push(if rng.chance(1, 2) { COp::Rm(k) } else { COp::Ins(k, rng.below(5), fresh()) });
            }
            if !touch.is_empty() {
                programs.push(touch);
            }
            let j = rng.below(14) as usize;
            let mut script = vec![];
            if j > 0 {
                script.push(ScriptStep { tid: 0, until: Until::Done { kind: Kind::Load, what: "", rel: Rel::Any, count: j } });
            }
            script.push(ScriptStep { tid: 1, until: Until::Finished });
            if programs.len() > 2 {
                script.push(ScriptStep { tid: 2, until: Until::Finished });
            }
            script.push(ScriptStep { tid: 0, until: Until::Finished });
            return ConcCase { id, seed, hash_class: "iter-across-resizes", hashes, cap: 0, prefill, programs, policy: Policy::Script(script), pin: rng.chance(1, 3) };
        }
        "iter" => {
            // one case in three: a tree bin (all-equal hashes, 128 bins, 9..12 keys), so that the
            // iterator walks `first`/`next` of a `TreeBin` while writers insert into and remove from it
            let treebin = rng.chance(1, 3);
            let class = if treebin { *rng.pick(&["zero", "samebin"]) } else { class };
            let hashes = crate::gen::gen_hashes(&mut rng, class, 40);
            let cap = if treebin { 64 } else { *rng.pick(&[0usize, 1, 2, 5, 10, 64]) };
            let pre = if treebin { 9 + rng.below(4) as usize } else { rng.below(10) as usize };
            let prefill: Vec<(u32, u64, u32)> = (0..pre).map(|i| ((i + 1) as u32, rng.below(5), fresh())).collect();
            let mut programs = vec![vec![COp::Iter]];
            if rng.chance(1, 3) {
                programs[0].push(COp::Iter);
            }
            let writers = 1 + rng.below(2) as usize;
            for _ in 0..writers {
                let mut p = vec![];
                for _ in 0..(2 + rng.below(if tier_big { 10 } else { 6 })) {
                    let k = 1 + rng.below(24) as u32;
                    p.push(match rng.below(8) {
                        0..=3 => COp::Ins(k, rng.below(5), fresh()),
                        4 => COp::Rm(k),
                        5 => COp::Reserve(8 + rng.below(60) as usize),
                        6 => COp::CipInc(k, fresh()),
                        _ => COp::Ins(10 + rng.below(20) as u32, 1, fresh()),
                    });
                }
                programs.push(p);
            }
            (programs, cap, prefill, hashes, class)
        }
        "tree" if rng.chance(1, 4) => {
            // a tree bin that is shrunk to the point where it is converted back into a list, by
            // removals of both kinds, while other writers work on the same bin
            let hc = if rng.chance(1, 2) { "zero" } else { "samebin" };
            let hashes = crate::gen::gen_hashes(&mut rng, hc, 40);
            let pre = 9 + rng.below(2) as usize;
            let prefill: Vec<(u32, u64, u32)> = (0..pre).map(|i| ((i + 1) as u32, rng.below(5), fresh())).collect();
            let mut ks: Vec<u32> = (1..=pre as u32).collect();
            for i in (1..ks.len()).rev() {
                let j = rng.below(i as u64 + 1) as usize;
                ks.swap(i, j);
            }
            let mut programs = vec![vec![], vec![]];
            for (i, k) in ks.iter().take(pre - 2).enumerate() {
                programs[i % 2].push(if rng.chance(1, 2) { COp::CipRm(*k) } else { COp::Rm(*k) });
            }
            let mut w = vec![];
            for _ in 0..(2 + rng.below(3)) {
                let k = 1 + rng.below(pre as u64 + 2) as u32;
                w.push(match rng.below(4) { 0 => COp::Ins(k, rng.below(5), fresh()), 1 => COp::CipInc(k, fresh()), 2 => COp::Get(k), _ => COp::Ins(20 + rng.below(4) as u32, 1, fresh()) });
            }
            programs.push(w);
            (programs, 64, prefill, hashes, "tree-shrink")
        }
        "tree" => {
            // all keys collide; table of 64+ bins; 7..11 keys prefilled so that threads cross the
            // treeify / untreeify boundaries together
            let hc = if rng.chance(1, 2) { "zero" } else { "samebin" };
            let hashes = crate::gen::gen_hashes(&mut rng, hc, 40);
            let pre = 6 + rng.below(6) as usize;
            let prefill: Vec<(u32, u64, u32)> = (0..pre).map(|i| ((i + 1) as u32, rng.below(5), fresh())).collect();
            let mut programs = vec![];
            for _ in 0..nthreads {
                let mut p = vec![];
                for _ in 0..(1 + rng.below(if tier_big { 5 } else { 3 })) {
                    let k = 1 + rng.below(14) as u32;
                    p.push(match rng.below(10) {
                        0..=2 => COp::Ins(k, rng.below(5), fresh()),
                        3..=5 => COp::Rm(k),
                        6 => COp::Get(k),
                        7 => COp::CipInc(k, fresh()),
                        8 => COp::CipRm(k),
                        _ => COp::Has(k),
                    });
                }
                programs.push(p);
            }
            (programs, 64usize, prefill, hashes, "collide")
        }
        "first" => {
            // the very first operations on a map without a table: threads race through
            // `init_table` (and the first growth right behind it)
            let hc = *rng.pick(&["ident", "uniform", "zero", "fewbins"]);
            let hashes = crate::gen::gen_hashes(&mut rng, hc, 40);
            let mut programs = vec![];
            let mut next_key = 0u32;
            for _ in 0..(2 + rng.below(3) as usize) {
                let mut p = vec![];
                for _ in 0..(1 + rng.below(3)) {
                    p.push(match rng.below(8) {
                        0..=4 => {
                            next_key += 1;
                            COp::Ins(next_key, 1, fresh())
                        }
                        5 => COp::Reserve(rng.below(30) as usize),
                        6 => COp::CipRm(1 + rng.below(4) as u32),
                        _ => COp::Get(1 + rng.below(4) as u32),
                    });
                }
                programs.push(p);
            }
            if rng.chance(1, 2) {
                // a reservation races the very first insert: both want to create the first table
                let n = 1 + rng.below(40) as usize;
                programs[0].insert(0, COp::Reserve(n));
                if !matches!(programs[1].first(), Some(COp::Ins(..))) {
                    next_key += 1;
                    programs[1].insert(0, COp::Ins(next_key, 1, fresh()));
                }
            }
            (programs, 0usize, vec![], hashes, "first")
        }
        "frozeniter" => {
            // thread 0 dumps the chain of tables and iterates while every other thread is suspended
            // somewhere inside its operations (typically in the middle of a resize): the yield
            // order must be exactly what the Lean traverser produces on the dumped chain
            // one case in four: a 64-bin table whose crowded bin is a tree bin that the resize splits
            let treecase = rng.chance(1, 4);
            treecase_fi = treecase;
            let hc = if treecase { *rng.pick(&["split64", "zero", "split64"]) } else { *rng.pick(&["ident", "uniform", "alternate", "fewbins", "split64", "zero"]) };
            let hashes = crate::gen::gen_hashes(&mut rng, hc, 120);
            let cap = if treecase { 42 } else { *rng.pick(&[0usize, 1, 2, 5, 10, 21, 42]) };
            let tl = if cap == 0 { 16 } else { (cap + cap / 2 + 1).next_power_of_two() };
            let pre = (tl - tl / 4).saturating_sub(1 + rng.below(4) as usize).min(60);
            let prefill: Vec<(u32, u64, u32)> = (0..pre).map(|i| ((i + 1) as u32, rng.below(5), fresh())).collect();
            let mut programs = vec![vec![COp::FrozenIter]];
            let mut next_key = pre as u32;
            for _ in 0..(1 + rng.below(2) as usize) {
                let mut p = vec![];
                for _ in 0..(2 + rng.below(4)) {
                    p.push(match rng.below(7) {
                        0..=3 => {
                            next_key += 1;
                            COp::Ins(next_key, 1, fresh())
                        }
                        4 => COp::Reserve(tl + rng.below(2 * tl as u64) as usize),
                        5 => COp::Rm(1 + rng.below(pre as u64 + 1) as u32),
                        _ => COp::Ins(1 + rng.below(pre as u64 + 1) as u32, 2, fresh()),
                    });
                }
                programs.push(p);
            }
            (programs, cap, prefill, hashes, "frozeniter")
        }
        "treeresize" => {
            // a tree bin in a 64-bin table whose keys differ in the bits the next two resizes split
            // on; one thread resizes the table while the others remove from / update / look up the
            // tree bin: operations queue on the bin lock behind the transfer of that very bin
            let hashes = crate::gen::gen_hashes(&mut rng, "split64", 60);
            let pre = 9 + rng.below(5) as usize;
            let mut prefill: Vec<(u32, u64, u32)> = (0..pre).map(|i| ((i + 1) as u32, rng.below(5), fresh())).collect();
            // filler keys in other bins, so that the count is close to the threshold (48)
            let filler = if rng.chance(1, 2) { 0 } else { (47usize.saturating_sub(pre + rng.below(3) as usize)).min(36) };
            for i in 0..filler {
                prefill.push(((21 + i) as u32, 0, fresh()));
            }
            let mut programs = vec![];
            let mut resizer = vec![];
            if filler > 0 {
                for i in 0..(1 + rng.below(3) as usize) {
                    resizer.push(COp::Ins((58 + i) as u32, 1, fresh()));
                }
            } else {
                resizer.push(COp::Reserve(60 + rng.below(200) as usize));
                if rng.chance(1, 3) {
                    resizer.push(COp::Reserve(260 + rng.below(200) as usize));
                }
            }
            programs.push(resizer);
            for _ in 0..(1 + rng.below(if tier_big { 3 } else { 2 }) as usize) {
                let mut p = vec![];
                for _ in 0..(1 + rng.below(3)) {
                    let k = 1 + rng.below(pre as u64 + 2) as u32;
                    // a key that is not in the bin yet (keys up to 20 share the bin)
                    let knew = (pre as u32 + 1 + rng.below(20 - pre as u64) as u32).min(20);
                    p.push(match rng.below(15) {
                        0..=3 => COp::Rm(k),
                        4 => COp::Rme(k),
                        5 | 6 => COp::CipInc(k, fresh()),
                        7 => COp::CipRm(k),
                        8 | 9 => COp::Ins(k, rng.below(5), fresh()),
                        10 => COp::Get(k),
                        11..=13 => COp::Ins(knew, rng.below(5), fresh()),
                        _ => COp::Has(k),
                    });
                }
                programs.push(p);
            }
            (programs, 42usize, prefill, hashes, "treeresize") // with_capacity(42) = 64 bins, threshold 48
        }
        "clear" => {
            // `clear` running bottom-up while a resize runs top-down, and concurrent inserts
            let hc = *rng.pick(&["ident", "uniform", "alternate", "zero"]);
            let hashes = crate::gen::gen_hashes(&mut rng, hc, 60);
            // 16-bin tables (one stride) and 32 / 64-bin tables (helpers forward bins out of order,
            // so `clear` can meet a forwarding marker below a bin that is being transferred)
            let cap = *rng.pick(&[0usize, 0, 1, 5, 10, 16, 16, 42]);
            let tl = if cap == 0 { 16 } else { (cap + cap / 2 + 1).next_power_of_two() };
            let thr = tl - tl / 4;
            let pre = thr.saturating_sub(1 + rng.below(3) as usize).min(47);
            let prefill: Vec<(u32, u64, u32)> = (0..pre).map(|i| ((i + 1) as u32, rng.below(5), fresh())).collect();
            let mut programs = vec![vec![COp::Clear]];
            if rng.chance(1, 4) {
                programs[0].push(COp::Len);
            }
            if rng.chance(1, 2) {
                // a reader that (mostly) starts after the clear
                programs[0].push(COp::Get(1 + rng.below(pre as u64 + 1) as u32));
            }
            let mut next_key = pre as u32;
            for _ in 0..(1 + rng.below(if tl > 16 { 3 } else { 2 }) as usize) {
                let mut p = vec![];
                for _ in 0..(1 + rng.below(4)) {
                    p.push(match rng.below(6) {
                        0..=2 => {
                            next_key += 1;
                            COp::Ins(next_key, 1, fresh())
                        }
                        3 => COp::Reserve(20 + rng.below(60) as usize),
                        4 => COp::Rm(1 + rng.below(pre as u64 + 1) as u32),
                        _ => COp::Ins(1 + rng.below(pre as u64 + 1) as u32, 2, fresh()),
                    });
                }
                programs.push(p);
            }
            (programs, cap, prefill, hashes, "clear")
        }
        "resize" => {
            // a table right below its threshold; every thread inserts fresh keys
            let hc = *rng.pick(&["ident", "uniform", "alternate"]);
            let hashes = crate::gen::gen_hashes(&mut rng, hc, 160);
            // small tables (a single stride: the initiator does everything) and tables of 64 / 128
            // bins (4 / 8 strides: helpers really claim work)
            let cap = *rng.pick(&[1usize, 2, 5, 10, 21, 42, 42, 85]);
            let mut next_key = 1u32;
            let pre = if cap >= 42 { let tl = (cap + cap / 2 + 1).next_power_of_two(); tl - tl / 4 - 1 - rng.below(3) as usize } else { (cap + cap / 2).min(20) };
            let prefill: Vec<(u32, u64, u32)> = (0..pre).map(|_| { next_key += 1; (next_key, 0, fresh()) }).collect();
            let mut programs = vec![];
            for _ in 0..(2 + rng.below(3) as usize) {
                let mut p = vec![];
                for _ in 0..(2 + rng.below(4)) {
                    next_key += 1;
                    p.push(if rng.chance(1, 6) { COp::Get(2 + rng.below(pre as u64 + 1) as u32) } else if rng.chance(1, 8) { COp::Reserve(rng.below(100) as usize) } else { COp::Ins(next_key, 1, fresh()) });
                }
                programs.push(p);
            }
            (programs, cap, prefill, hashes, "grow")
        }
        "cip" => {
            // every thread hammers one or two hot keys with compute_if_present, in a list or a tree bin
            let tree = rng.chance(1, 2);
            let hc = if tree { "zero" } else { *rng.pick(&["zero", "ident", "fewbins"]) };
            let hashes = crate::gen::gen_hashes(&mut rng, hc, 40);
            let pre = if tree { 9 + rng.below(3) as usize } else { 1 + rng.below(4) as usize };
            let prefill: Vec<(u32, u64, u32)> = (0..pre).map(|i| ((i + 1) as u32, rng.below(5), fresh())).collect();
            let hot = 1 + rng.below(pre as u64) as u32;
            let mut programs = vec![];
            for _ in 0..(2 + rng.below(3) as usize) {
                let mut p = vec![];
                for _ in 0..(1 + rng.below(4)) {
                    p.push(match rng.below(10) {
                        0..=5 => COp::CipInc(hot, fresh()),
                        6 => COp::CipRm(hot),
                        7 => COp::Ins(hot, rng.below(5), fresh()),
                        8 => COp::Get(hot),
                        _ => COp::Rm(1 + rng.below(pre as u64) as u32),
                    });
                }
                programs.push(p);
            }
            (programs, if tree { 64 } else { 0 }, prefill, hashes, "cip")
        }
        "retain" if rng.chance(1, 3) => {
            // retain while the table is resized: 11 entries in a 16-bin table (the 12th insert starts
            // the resize), one thread adds keys, one replaces the values retain is looking at; the
            // removals of retain then often go through forwarded bins
            let hc = *rng.pick(&["ident", "uniform", "alternate"]);
            let hashes = crate::gen::gen_hashes(&mut rng, hc, 40);
            let pre = 11usize;
            let prefill: Vec<(u32, u64, u32)> = (0..pre).map(|i| ((i + 1) as u32, rng.below(5), fresh())).collect();
            let preds: &[&'static str] = &["none", "none", "even", "veven", "k3"];
            let mut programs = vec![vec![COp::Retain(*rng.pick(preds), rng.chance(1, 4))]];
            let mut grow = vec![];
            for i in 0..(2 + rng.below(3) as u32) {
                grow.push(COp::Ins(12 + i, rng.below(5), fresh()));
            }
            programs.push(grow);
            // the replacers go over the keys in the order retain meets them (ascending and
            // descending bins), so that replacements land right behind the predicate
            for down in [false, true] {
                let mut repl = vec![];
                let mut ks: Vec<u32> = (1..=pre as u32).collect();
                if down {
                    ks.reverse();
                }
                for k in ks {
                    if rng.chance(2, 3) {
                        repl.push(if rng.chance(3, 4) { COp::Ins(k, rng.below(5), fresh()) } else { COp::CipInc(k, fresh()) });
                    }
                }
                if !repl.is_empty() {
                    programs.push(repl);
                }
            }
            (programs, 0, prefill, hashes, "retain")
        }
        "retain" => {
            let hc = *rng.pick(&["zero", "ident", "fewbins", "uniform"]);
            let hashes = crate::gen::gen_hashes(&mut rng, hc, 40);
            let pre = 2 + rng.below(10) as usize;
            let prefill: Vec<(u32, u64, u32)> = (0..pre).map(|i| ((i + 1) as u32, rng.below(5), fresh())).collect();
            let preds: &[&'static str] = &["even", "odd", "none", "veven", "k3"];
            let mut programs = vec![vec![COp::Retain(*rng.pick(preds), rng.chance(1, 2))]];
            for _ in 0..(1 + rng.below(2) as usize) {
                let mut p = vec![];
                for _ in 0..(1 + rng.below(4)) {
                    let k = 1 + rng.below(pre as u64 + 2) as u32;
                    p.push(match rng.below(6) {
                        0..=2 => COp::Ins(k, rng.below(5), fresh()),
                        3 => COp::Rm(k),
                        4 => COp::CipInc(k, fresh()),
                        _ => COp::Get(k),
                    });
                }
                programs.push(p);
            }
            (programs, if hc == "zero" && pre > 8 { 64 } else { 0 }, prefill, hashes, "retain")
        }
        "panic" => {
            let tree = rng.chance(1, 2);
            let hc = if tree { "zero" } else { *rng.pick(&["zero", "ident", "fewbins"]) };
            let hashes = crate::gen::gen_hashes(&mut rng, hc, 40);
            let pre = if tree { 9 + rng.below(3) as usize } else { 1 + rng.below(6) as usize };
            let prefill: Vec<(u32, u64, u32)> = (0..pre).map(|i| ((i + 1) as u32, rng.below(5), fresh())).collect();
            let k0 = 1 + rng.below(pre as u64) as u32;
            let mut first = vec![];
            if rng.chance(2, 3) {
                first.push(COp::CipPanic(k0));
            } else {
                first.push(COp::RetainPanic(*rng.pick(&["even", "none", "k3"]), rng.chance(1, 2), rng.below(pre as u64 + 1) as usize));
            }
            // the panicking thread goes on, on the same bin
            first.push(COp::Ins(k0, 4, fresh()));
            first.push(COp::Get(k0));
            let mut programs = vec![first];
            for _ in 0..(1 + rng.below(2) as usize) {
                let mut p = vec![];
                for _ in 0..(1 + rng.below(3)) {
                    let k = 1 + rng.below(pre as u64 + 1) as u32;
                    p.push(match rng.below(5) {
                        0 | 1 => COp::Ins(k, rng.below(5), fresh()),
                        2 => COp::Rm(k),
                        3 => COp::CipInc(k0, fresh()),
                        _ => COp::Get(k0),
                    });
                }
                programs.push(p);
            }
            (programs, if tree { 64 } else { 0 }, prefill, hashes, "panic")
        }
        "solo" => {
            // thread 0 performs one read; the others write into the same bin / resize the table
            let shape = rng.below(5);
            if shape == 4 {
                // a tree bin; thread 1 is a second reader that is suspended for good a few steps
                // into its lookup (often while it holds the bin's read lock); the writers then
                // park behind it with the WAITER bit set; the read of thread 0 starts only when
                // nobody else can run and must still finish on its own
                let hashes = crate::gen::gen_hashes(&mut rng, "zero", 60);
                let pre = 9 + rng.below(4) as usize;
                let prefill: Vec<(u32, u64, u32)> = (0..pre).map(|i| ((i + 1) as u32, rng.below(5), fresh())).collect();
                let rk = 1 + rng.below(pre as u64 + 1) as u32;
                let read = match rng.below(4) { 0 | 1 => COp::Get(rk), 2 => COp::Has(rk), _ => COp::GetKv(rk) };
                let k2 = 1 + rng.below(pre as u64) as u32;
                let mut programs = vec![vec![read], vec![if rng.chance(1, 2) { COp::Get(k2) } else { COp::Has(k2) }]];
                for _ in 0..(1 + rng.below(2) as usize) {
                    let k = 1 + rng.below(pre as u64) as u32;
                    programs.push(vec![match rng.below(4) { 0 | 1 => COp::Rm(k), 2 => COp::Ins(pre as u32 + 1 + rng.below(4) as u32, 1, fresh()), _ => COp::CipRm(k) }]);
                }
                let policy = Policy::Solo { reader: 0, start: 0, after: usize::MAX / 2, freeze: vec![(1usize, 5 + rng.below(14) as usize)], after_store: None };
                return ConcCase { id, seed, hash_class: "solo", hashes, cap: 64, prefill, programs, policy, pin: rng.chance(1, 3) };
            }
            let hc = if shape == 0 { "zero" } else { *rng.pick(&["ident", "fewbins", "alternate"]) };
            let hashes = crate::gen::gen_hashes(&mut rng, hc, 60);
            let pre = match shape { 0 => 7 + rng.below(5) as usize, 1 => 1 + rng.below(6) as usize, 3 => 2 + rng.below(8) as usize, _ => 9 + rng.below(6) as usize };
            let prefill: Vec<(u32, u64, u32)> = (0..pre).map(|i| ((i + 1) as u32, rng.below(5), fresh())).collect();
            let cap = match shape { 0 => 64, 1 | 3 => 0, _ => 8 };
            let rk = 1 + rng.below(pre as u64 + 2) as u32;
            let read = match rng.below(6) { 0 | 1 => COp::Get(rk), 2 => COp::Has(rk), 3 => COp::GetKv(rk), 4 => COp::Iter, _ => COp::Len };
            let mut programs = vec![vec![read]];
            if shape == 0 && rng.chance(2, 3) {
                // a second reader of the tree bin that is suspended for good somewhere inside its
                // lookup (with luck while it holds the bin's read lock): the writers below then
                // park behind it with the WAITER bit set, and the read of thread 0 must still
                // finish on its own
                let k2 = 1 + rng.below(pre as u64) as u32;
                programs.push(vec![if rng.chance(1, 2) { COp::Get(k2) } else { COp::Has(k2) }]);
                solo_freeze.push((1usize, 2 + rng.below(40) as usize));
            } else if rng.chance(1, 4) {
                // a writer that is suspended for good in the middle of its operation
                solo_freeze.push((1usize, 3 + rng.below(80) as usize));
            }
            if shape == 3 {
                // a chain of resizes while the reader is suspended in the middle of its operation:
                // it resumes on a table that has been forwarded more than once
                let mut p = vec![];
                let mut want = 13 + rng.below(12) as usize;
                for _ in 0..(2 + rng.below(2)) {
                    p.push(COp::Reserve(want));
                    if rng.chance(1, 2) {
                        p.push(COp::Ins(1 + rng.below(pre as u64 + 6) as u32, rng.below(5), fresh()));
                    }
                    want = want * 2 + rng.below(9) as usize;
                }
                programs.push(p);
            }
            for _ in 0..(if shape == 3 { rng.below(2) as usize } else { 1 + rng.below(2) as usize }) {
                let mut p = vec![];
                for _ in 0..(1 + rng.below(4)) {
                    let k = 1 + rng.below(pre as u64 + 6) as u32;
                    p.push(match rng.below(8) {
                        0..=2 => COp::Ins(k, rng.below(5), fresh()),
                        3 | 4 => COp::Rm(k),
                        5 => COp::CipInc(k, fresh()),
                        6 => COp::Reserve(rng.below(60) as usize),
                        _ => COp::CipRm(k),
                    });
                }
                programs.push(p);
            }
            (programs, cap, prefill, hashes, "solo")
        }
        _ => (programs, cap, prefill, hashes, class),
    };
    let policy = match rng.below(6) {
        0 => Policy::Random,
        1 => Policy::Pct { d: 1 + rng.below(3) as usize, horizon: 60 },
        2 => Policy::Pct { d: 2, horizon: 200 },
        3 | 4 => Policy::RandomAfterWrite,
        _ => Policy::Random,
    };
    let policy = if mode == "frozeniter" {
        // the reader does not run before it runs alone
        // half of the cases: the others are stopped right after one of their stores to a bin cell or
        // a `next` link (between two consecutive stores of a transfer / insert / removal)
        let after_store = if treecase_fi && rng.chance(2, 3) { Some(0) } else if rng.chance(1, 2) { Some(1 + rng.below(30) as usize) } else { None };
        Policy::Solo { reader: 0, start: 0, after: if rng.chance(1, 6) { usize::MAX / 2 } else { rng.below(1500) as usize }, freeze: vec![], after_store }
    } else if mode == "solo" { {
        let start = if rng.chance(1, 2) { 0 } else { 1 + rng.below(40) as usize };
        let after = if rng.chance(1, 3) { usize::MAX / 2 } else { start + rng.below(400) as usize };
        let after_store = if rng.chance(1, 3) { Some(1 + rng.below(40) as usize) } else { None };
        Policy::Solo { reader: 0, start, after, freeze: solo_freeze.clone(), after_store }
    } } else { policy };
    ConcCase { id, seed, hash_class: class, hashes, cap, prefill, programs, policy, pin: rng.chance(1, 3) }
}
