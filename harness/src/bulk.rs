//! C19: serde and rayon paths.
//!  * documents over a small key alphabet with repetitions are deserialised under catch_unwind;
//!    the result is printed in the line format the Lean driver's `deser` command prints;
//!  * round trips of generated maps / sets;
//!  * par_extend / from_par_iter on pools of 1..8 threads against the spec predicate.
use crate::types::*;
use flurry::{HashMap, HashSet};
use rayon::prelude::*;
use std::collections::BTreeMap;
use std::panic::{catch_unwind, AssertUnwindSafe};
use std::sync::Arc;

type M = HashMap<u32, u64, TableHasher>;
type S = HashSet<u32, TableHasher>;

pub struct BulkResult {
    pub ops: Vec<String>,
    pub lines: Vec<String>,
    pub failures: Vec<String>,
    pub docs: usize,
    pub docs_with_dups: usize,
    pub roundtrips: usize,
    pub par_runs: usize,
    pub samples: Vec<String>,
}

pub fn run(seed: u64, n: usize) -> BulkResult {
    let mut rng = Rng(seed ^ 0xB01C);
    let mut r = BulkResult { ops: vec![], lines: vec![], failures: vec![], docs: 0, docs_with_dups: 0, roundtrips: 0, par_runs: 0, samples: vec![] };
    for case in 0..n {
        crate::HEARTBEAT.fetch_add(1, std::sync::atomic::Ordering::Relaxed);
        // hasher: all-equal, few bins or spread
        let table: Vec<u64> = match rng.below(3) {
            0 => vec![0; 64],
            1 => (0..64u64).map(|k| k % 3).collect(),
            _ => (0..64u64).map(|k| k.wrapping_mul(0x9E3779B97F4A7C15)).collect(),
        };
        set_default_table(Arc::new(table));
        let nkeys = 1 + rng.below(12) as u32;
        let len = rng.below(24) as usize;
        let doc: Vec<(u32, u64)> = (0..len).map(|_| (1 + rng.below(nkeys as u64) as u32, rng.below(50))).collect();
        let has_dup = {
            let mut s = std::collections::BTreeSet::new();
            doc.iter().any(|(k, _)| !s.insert(*k))
        };
        // ---- map document
        let json = format!("{{{}}}", doc.iter().map(|(k, v)| format!("\"{}\":{}", k, v)).collect::<Vec<_>>().join(","));
        let pairs = if doc.is_empty() { "-".to_string() } else { doc.iter().map(|(k, v)| format!("{}:{}", k, v)).collect::<Vec<_>>().join(",") };
        r.ops.push(format!("deser map {}", pairs));
        r.docs += 1;
        if has_dup {
            r.docs_with_dups += 1;
        }
        let out = catch_unwind(AssertUnwindSafe(|| serde_json::from_str::<M>(&json)));
        let line = match out {
            Err(_) => {
                r.failures.push(format!("[serde-panic] case {}: deserialising the well-formed document {} panicked", case, json));
                "panic".to_string()
            }
            Ok(Err(_)) => "err".to_string(),
            Ok(Ok(m)) => {
                let g = m.guard();
                let mut v: Vec<(u32, u64)> = m.iter(&g).map(|(k, v)| (*k, *v)).collect();
                v.sort();
                // independent oracle: std's HashMap semantics (last value wins)
                let want: BTreeMap<u32, u64> = doc.iter().cloned().collect();
                if v != want.iter().map(|(k, v)| (*k, *v)).collect::<Vec<_>>() {
                    r.failures.push(format!("[serde-contents] case {}: {} deserialised to {:?}, expected {:?}", case, json, v, want));
                }
                if m.len() != v.len() {
                    r.failures.push(format!("[serde-contents] case {}: len() = {} after deserialising {} entries", case, m.len(), v.len()));
                }
                format!("ok {}", v.iter().map(|(k, v)| format!("{}:{}", k, v)).collect::<Vec<_>>().join(","))
            }
        };
        if r.samples.len() < 3 && has_dup {
            r.samples.push(format!("{} -> {}", json, line));
        }
        r.lines.push(line);
        // ---- set document
        let sjson = format!("[{}]", doc.iter().map(|(k, _)| k.to_string()).collect::<Vec<_>>().join(","));
        let spairs = if doc.is_empty() { "-".to_string() } else { doc.iter().map(|(k, _)| format!("{}:0", k)).collect::<Vec<_>>().join(",") };
        r.ops.push(format!("deser set {}", spairs));
        let out = catch_unwind(AssertUnwindSafe(|| serde_json::from_str::<S>(&sjson)));
        let line = match out {
            Err(_) => {
                r.failures.push(format!("[serde-panic] case {}: deserialising the well-formed document {} panicked", case, sjson));
                "panic".to_string()
            }
            Ok(Err(_)) => "err".to_string(),
            Ok(Ok(s)) => {
                let g = s.guard();
                let mut v: Vec<u32> = s.iter(&g).cloned().collect();
                v.sort();
                let want: std::collections::BTreeSet<u32> = doc.iter().map(|(k, _)| *k).collect();
                if v != want.iter().cloned().collect::<Vec<_>>() {
                    r.failures.push(format!("[serde-contents] case {}: {} deserialised to {:?}", case, sjson, v));
                }
                format!("ok {}", v.iter().map(|k| format!("{}:0", k)).collect::<Vec<_>>().join(","))
            }
        };
        r.lines.push(line);
        // ---- round trip of the map built from the document
        {
            let m: M = M::default();
            {
                let g = m.guard();
                for (k, v) in &doc {
                    m.insert(*k, *v, &g);
                }
            }
            let out = catch_unwind(AssertUnwindSafe(|| {
                let s = serde_json::to_string(&m).map_err(|e| e.to_string())?;
                let back: M = serde_json::from_str(&s).map_err(|e| e.to_string())?;
                Ok::<(bool, String), String>((back == m && m == back, s))
            }));
            r.roundtrips += 1;
            match out {
                Ok(Ok((true, _))) => {}
                Ok(Ok((false, s))) => r.failures.push(format!("[serde-roundtrip] case {}: {} deserialises to a different map", case, s)),
                Ok(Err(e)) => r.failures.push(format!("[serde-roundtrip] case {}: round trip failed: {}", case, e)),
                Err(_) => r.failures.push(format!("[serde-panic] case {}: round trip panicked", case)),
            }
            let set: S = S::default();
            {
                let g = set.guard();
                for (k, _) in &doc {
                    set.insert(*k, &g);
                }
            }
            let out = catch_unwind(AssertUnwindSafe(|| {
                let s = serde_json::to_string(&set).map_err(|e| e.to_string())?;
                let back: S = serde_json::from_str(&s).map_err(|e| e.to_string())?;
                Ok::<bool, String>(back == set)
            }));
            match out {
                Ok(Ok(true)) => {}
                _ => r.failures.push(format!("[serde-roundtrip] case {}: set round trip failed", case)),
            }
        }
        // ---- rayon
        if case % 4 == 0 {
            let threads = 1 + rng.below(8) as usize;
            let pool = rayon::ThreadPoolBuilder::new().num_threads(threads).build().unwrap();
            let base: Vec<(u32, u64)> = (0..rng.below(10)).map(|_| (1 + rng.below(nkeys as u64 + 3) as u32, 1000 + rng.below(50))).collect();
            let items: Vec<(u32, u64)> = (0..(10 + rng.below(60))).map(|_| (1 + rng.below(nkeys as u64 + 3) as u32, rng.below(50))).collect();
            let check = |what: &str, got: Vec<(u32, u64)>, base: &[(u32, u64)], items: &[(u32, u64)], fails: &mut Vec<String>| {
                let mut want_keys: std::collections::BTreeSet<u32> = base.iter().map(|e| e.0).collect();
                want_keys.extend(items.iter().map(|e| e.0));
                let got_keys: std::collections::BTreeSet<u32> = got.iter().map(|e| e.0).collect();
                if got_keys != want_keys || got.len() != want_keys.len() {
                    fails.push(format!("[rayon] case {} {} on {} threads: key set {:?}, expected {:?}", case, what, threads, got_keys, want_keys));
                }
                let base_last: BTreeMap<u32, u64> = base.iter().cloned().collect();
                for (k, v) in &got {
                    let supplied: Vec<u64> = items.iter().filter(|e| e.0 == *k).map(|e| e.1).collect();
                    let ok = if supplied.is_empty() { base_last.get(k) == Some(v) } else { supplied.contains(v) };
                    if !ok {
                        fails.push(format!("[rayon] case {} {} on {} threads: key {} maps to {}, which was not supplied for it", case, what, threads, k, v));
                    }
                }
            };
            let out = catch_unwind(AssertUnwindSafe(|| {
                pool.install(|| {
                    let m: M = M::default();
                    {
                        let g = m.guard();
                        for (k, v) in &base {
                            m.insert(*k, *v, &g);
                        }
                    }
                    (&m).par_extend(items.clone().into_par_iter());
                    let g = m.guard();
                    let got: Vec<(u32, u64)> = m.iter(&g).map(|(k, v)| (*k, *v)).collect();
                    let len_ok = m.len() == got.len();
                    let c: M = items.clone().into_par_iter().collect();
                    let g2 = c.guard();
                    let got2: Vec<(u32, u64)> = c.iter(&g2).map(|(k, v)| (*k, *v)).collect();
                    let s: S = items.iter().map(|e| e.0).collect::<Vec<_>>().into_par_iter().collect();
                    let g3 = s.guard();
                    let got3: Vec<(u32, u64)> = s.iter(&g3).map(|k| (*k, 0)).collect();
                    (got, len_ok, got2, got3)
                })
            }));
            r.par_runs += 1;
            match out {
                Err(_) => r.failures.push(format!("[rayon] case {}: parallel extend/collect panicked on {} threads", case, threads)),
                Ok((got, len_ok, got2, got3)) => {
                    if !len_ok {
                        r.failures.push(format!("[rayon] case {}: len() disagrees with iteration after par_extend", case));
                    }
                    check("par_extend", got, &base, &items, &mut r.failures);
                    check("from_par_iter", got2, &[], &items, &mut r.failures);
                    let set_items: Vec<(u32, u64)> = items.iter().map(|e| (e.0, 0)).collect();
                    check("set from_par_iter", got3, &[], &set_items, &mut r.failures);
                }
            }
        }
    }
    r
}
