//! C15: happens-before by vector clocks over a recorded trace, under the C++11/Rust rules for
//! the orderings the code *actually passed* (reported by the hooks):
//!  * a store / RMW with ordering >= Release publishes the writer's clock at the location
//!    (an RMW continues the release sequence it reads from; a Relaxed store by a thread starts a
//!    sequence with no clock);
//!  * a load / RMW with ordering >= Acquire (every load through a protected guard is SeqCst:
//!    seize's `protect`) joins the location's clock into the reader's;
//!  * mutex unlock -> next lock of the same mutex; thread start.
//! Oracle: every dereference of an allocation made by another thread must be ordered after that
//! allocation (the object was initialised before `Shared::boxed` returned, in program order).
use crate::sched::TraceEv;
use flurry::verif::Kind;
use std::collections::HashMap as StdMap;
use std::sync::atomic::Ordering;

fn rel(o: Option<Ordering>) -> bool {
    matches!(o, Some(Ordering::Release) | Some(Ordering::AcqRel) | Some(Ordering::SeqCst))
}
fn acq(o: Option<Ordering>) -> bool {
    matches!(o, Some(Ordering::Acquire) | Some(Ordering::AcqRel) | Some(Ordering::SeqCst))
}

type VC = Vec<u32>;
fn join(a: &mut VC, b: &VC) {
    for (x, y) in a.iter_mut().zip(b.iter()) {
        *x = (*x).max(*y);
    }
}
fn leq(a: &VC, b: &VC) -> bool {
    a.iter().zip(b.iter()).all(|(x, y)| x <= y)
}

pub struct HbStats {
    pub derefs_checked: usize,
    pub cross_thread: usize,
}

pub fn analyze(trace: &[TraceEv], nthreads: usize) -> (Vec<String>, HbStats) {
    let n = nthreads + 1; // last slot: the controller / setup thread (prefill happens-before all)
    let mut clocks: Vec<VC> = (0..n).map(|_| vec![0u32; n]).collect();
    let mut loc: StdMap<usize, VC> = StdMap::new();
    let mut mutex: StdMap<usize, VC> = StdMap::new();
    let mut alloc: StdMap<usize, (usize, VC, &'static str)> = StdMap::new();
    let mut f = vec![];
    let mut seen = std::collections::HashSet::new();
    let mut stats = HbStats { derefs_checked: 0, cross_thread: 0 };
    for (i, e) in trace.iter().enumerate() {
        let t = if e.tid == usize::MAX { nthreads } else { e.tid.min(nthreads) };
        clocks[t][t] += 1;
        // loads through a protected guard are SeqCst whatever ordering was written
        let eff_load = if e.guarded == 1 { Some(Ordering::SeqCst) } else { e.ord };
        // the raw control words (size_ctl, transfer_index, count, lock_state): their hooks do not
        // report the ordering; Props/C15 `control_words_synchronise` proves on the regenerated
        // site table that stores release, loads acquire and RMWs/CASes do both
        let raw_word = !e.what.contains("::") && e.ord.is_none();
        let mut e = e.clone();
        if raw_word {
            e.ord = Some(match e.kind {
                Kind::Store => Ordering::Release,
                Kind::Load => Ordering::Acquire,
                _ => Ordering::SeqCst,
            });
            e.ord_fail = Some(Ordering::Relaxed);
        }
        let eff_load = if raw_word { e.ord } else { eff_load };
        let e = &e;
        match e.kind {
            Kind::Alloc => {
                alloc.insert(e.addr, (t, clocks[t].clone(), e.what));
            }
            Kind::Store => {
                if rel(e.ord) {
                    loc.insert(e.addr, clocks[t].clone());
                } else {
                    loc.remove(&e.addr);
                }
            }
            Kind::Swap | Kind::FetchAdd => {
                if acq(e.ord) {
                    if let Some(c) = loc.get(&e.addr).cloned() {
                        join(&mut clocks[t], &c);
                    }
                }
                if rel(e.ord) {
                    let mut c = loc.get(&e.addr).cloned().unwrap_or_else(|| vec![0; n]);
                    join(&mut c, &clocks[t]);
                    loc.insert(e.addr, c);
                }
            }
            Kind::Cas => {
                let o = if e.ok { e.ord } else { e.ord_fail };
                if acq(o) {
                    if let Some(c) = loc.get(&e.addr).cloned() {
                        join(&mut clocks[t], &c);
                    }
                }
                if e.ok && rel(e.ord) {
                    let mut c = loc.get(&e.addr).cloned().unwrap_or_else(|| vec![0; n]);
                    join(&mut c, &clocks[t]);
                    loc.insert(e.addr, c);
                }
            }
            Kind::Load | Kind::CloneLoad => {
                let o = if e.kind == Kind::CloneLoad { e.ord } else { eff_load };
                if acq(o) {
                    if let Some(c) = loc.get(&e.addr).cloned() {
                        join(&mut clocks[t], &c);
                    }
                }
            }
            Kind::Yield => {
                // a `Yield` record announces an access that sits inside a condition and cannot carry
                // a hook of its own; the orderings at these three sites are fixed in the source
                // (SeqCst; the site table of Props/C15 checks that) and the access is:
                //  * `lock_state` (a -> a + READER): the reader's CAS, performed iff no writer/waiter
                //    bit is set in `a`; it succeeds iff the word still holds `a`;
                //  * `size_ctl` (a -> b): `add_count`'s initiating CAS, performed iff `a >= 0`;
                //  * `transfer_index`: a plain load.
                let performed_rmw = match e.what {
                    "lock_state" => (e.a & 3) == 0 && e.b == e.a.wrapping_add(4) && e.seen == e.a,
                    "size_ctl" => (e.a as isize) >= 0 && e.seen == e.a,
                    _ => false,
                };
                if e.what == "lock_state" || e.what == "size_ctl" || e.what == "transfer_index" {
                    if let Some(c) = loc.get(&e.addr).cloned() {
                        join(&mut clocks[t], &c);
                    }
                }
                if performed_rmw {
                    let mut c = loc.get(&e.addr).cloned().unwrap_or_else(|| vec![0; n]);
                    join(&mut c, &clocks[t]);
                    loc.insert(e.addr, c);
                }
            }
            Kind::BeforeLock => {
                if let Some(c) = mutex.get(&e.addr).cloned() {
                    join(&mut clocks[t], &c);
                }
            }
            Kind::Unlock => {
                mutex.insert(e.addr, clocks[t].clone());
            }
            Kind::Deref => {
                if let Some((at, ac, what)) = alloc.get(&e.addr) {
                    stats.derefs_checked += 1;
                    if *at != t {
                        stats.cross_thread += 1;
                        if !leq(ac, &clocks[t]) && *at != nthreads {
                            let key = (e.file, e.line, *what);
                            if seen.insert(key) {
                                f.push(format!(
                                    "[hb] thread {} dereferences a {} at {}:{} (event {}) that thread {} allocated and initialised, without a happens-before edge from the initialisation (orderings as passed at run time)",
                                    t,
                                    what.replace("flurry_harness::types::", "").replace("flurry::node::", "").replace("flurry::raw::", ""),
                                    e.file.rsplit('/').next().unwrap_or(e.file),
                                    e.line,
                                    i,
                                    at
                                ));
                            }
                        }
                    }
                }
            }
            _ => {}
        }
    }
    (f, stats)
}
