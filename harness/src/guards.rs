//! C09 runtime differential: every public guard-accepting method of HashMap / HashSet and every
//! method of the `with_guard` wrappers is called with a guard of an unrelated collector, on an
//! empty and on a populated collection, under `catch_unwind`. Expected: a panic and an unchanged
//! snapshot (on a populated collection the panic is mandatory: the method would have to read
//! through the guard).
use crate::seq::fmt_snap;
use crate::types::*;
use flurry::{Guard, HashMap, HashSet};
use std::panic::{catch_unwind, AssertUnwindSafe};
use std::sync::Arc;

type M = HashMap<K, V, TableHasher>;
type S = HashSet<K, TableHasher>;

pub struct Outcome {
    pub ty: &'static str,
    pub func: &'static str,
    pub param: &'static str,
    pub populated: bool,
    pub panicked: bool,
    pub changed: bool,
}

fn snap_m(m: &M) -> String {
    let g = m.guard();
    fmt_snap(&m.verif_snapshot(&g))
}
fn snap_s(s: &S) -> String {
    let m = s.verif_inner();
    let g = m.guard();
    fmt_snap(&m.verif_snapshot(&g))
}

fn mk_map(populated: bool, th: &TableHasher, treeify: bool) -> M {
    let m = M::with_hasher(th.clone());
    if populated {
        let g = m.guard();
        let n = if treeify { 12 } else { 5 };
        for k in 1..=n {
            m.insert(K::new(k, k), V::new(k as u64, 100 + k), &g);
        }
    }
    m
}
fn mk_set(populated: bool, th: &TableHasher) -> S {
    let s = S::with_hasher(th.clone());
    if populated {
        let g = s.guard();
        for k in 1..=5 {
            s.insert(K::new(k, k), &g);
        }
    }
    s
}

pub fn run() -> Vec<Outcome> {
    let mut out = vec![];
    for populated in [false, true] {
        for (hash_all_zero, treeify) in [(false, false), (true, true)] {
            let table: Vec<u64> = (0..40u64).map(|k| if hash_all_zero { 0 } else { k.wrapping_mul(0x9E3779B97F4A7C15) }).collect();
            let th = TableHasher { table: Arc::new(table) };
            set_default_table(th.table.clone());
            let evil = seize::Collector::new();

            macro_rules! on_map {
                ($ty:expr, $name:expr, $param:expr, |$m:ident, $g:ident| $body:expr) => {{
                    let $m = mk_map(populated, &th, treeify);
                    let before = snap_m(&$m);
                    let $g: Guard<'_> = evil.enter();
                    let r = catch_unwind(AssertUnwindSafe(|| {
                        let _ = $body;
                    }));
                    drop($g);
                    let after = snap_m(&$m);
                    out.push(Outcome { ty: $ty, func: $name, param: $param, populated, panicked: r.is_err(), changed: before != after });
                }};
            }
            macro_rules! on_set {
                ($ty:expr, $name:expr, $param:expr, |$s:ident, $o:ident, $g:ident| $body:expr) => {{
                    let $s = mk_set(populated, &th);
                    let $o = mk_set(populated, &th);
                    let before = (snap_s(&$s), snap_s(&$o));
                    let $g: Guard<'_> = evil.enter();
                    let r = catch_unwind(AssertUnwindSafe(|| {
                        let _ = $body;
                    }));
                    drop($g);
                    let after = (snap_s(&$s), snap_s(&$o));
                    out.push(Outcome { ty: $ty, func: $name, param: $param, populated, panicked: r.is_err(), changed: before != after });
                }};
            }
            let key = || K::new(3, 0);
            let nk = || K::new(30, 30);
            // ---- HashMap, guard-passing API
            on_map!("HashMap", "iter", "guard", |m, g| m.iter(&g).count());
            on_map!("HashMap", "keys", "guard", |m, g| m.keys(&g).count());
            on_map!("HashMap", "values", "guard", |m, g| m.values(&g).count());
            on_map!("HashMap", "reserve", "guard", |m, g| m.reserve(100, &g));
            on_map!("HashMap", "contains_key", "guard", |m, g| m.contains_key(&key(), &g));
            on_map!("HashMap", "get", "guard", |m, g| m.get(&key(), &g).map(|v| v.payload));
            on_map!("HashMap", "get_key_value", "guard", |m, g| m.get_key_value(&key(), &g).map(|v| v.1.payload));
            on_map!("HashMap", "clear", "guard", |m, g| m.clear(&g));
            on_map!("HashMap", "insert", "guard", |m, g| m.insert(nk(), V::new(1, 1), &g).map(|v| v.payload));
            on_map!("HashMap", "insert", "guard", |m, g| m.insert(key(), V::new(1, 1), &g).map(|v| v.payload));
            on_map!("HashMap", "try_insert", "guard", |m, g| m.try_insert(nk(), V::new(1, 1), &g).is_ok());
            on_map!("HashMap", "try_insert", "guard", |m, g| m.try_insert(key(), V::new(1, 1), &g).is_ok());
            on_map!("HashMap", "compute_if_present", "guard", |m, g| m.compute_if_present(&key(), |_, _| None, &g).map(|v| v.payload));
            on_map!("HashMap", "remove", "guard", |m, g| m.remove(&key(), &g).map(|v| v.payload));
            on_map!("HashMap", "remove_entry", "guard", |m, g| m.remove_entry(&key(), &g).map(|v| v.1.payload));
            on_map!("HashMap", "retain", "guard", |m, g| m.retain(|_, _| false, &g));
            on_map!("HashMap", "retain_force", "guard", |m, g| m.retain_force(|_, _| false, &g));
            // the same single-key calls for a key that is ABSENT (the call still reads the table and a
            // bin through the guard; a check that only happens once a node was found is no check)
            on_map!("HashMap", "contains_key", "guard", |m, g| m.contains_key(&nk(), &g));
            on_map!("HashMap", "get", "guard", |m, g| m.get(&nk(), &g).map(|v| v.payload));
            on_map!("HashMap", "get_key_value", "guard", |m, g| m.get_key_value(&nk(), &g).map(|v| v.1.payload));
            on_map!("HashMap", "compute_if_present", "guard", |m, g| m.compute_if_present(&nk(), |_, _| None, &g).map(|v| v.payload));
            on_map!("HashMap", "remove", "guard", |m, g| m.remove(&nk(), &g).map(|v| v.payload));
            on_map!("HashMap", "remove_entry", "guard", |m, g| m.remove_entry(&nk(), &g).map(|v| v.1.payload));
            on_map!("HashMapRef", "contains_key", "self.guard", |m, g| m.with_guard(&g).contains_key(&nk()));
            on_map!("HashMapRef", "get", "self.guard", |m, g| m.with_guard(&g).get(&nk()).map(|v| v.payload));
            on_map!("HashMapRef", "get_key_value", "self.guard", |m, g| m.with_guard(&g).get_key_value(&nk()).map(|v| v.1.payload));
            on_map!("HashMapRef", "compute_if_present", "self.guard", |m, g| m.with_guard(&g).compute_if_present(&nk(), |_, _| None).map(|v| v.payload));
            on_map!("HashMapRef", "remove", "self.guard", |m, g| m.with_guard(&g).remove(&nk()).map(|v| v.payload));
            on_map!("HashMapRef", "remove_entry", "self.guard", |m, g| m.with_guard(&g).remove_entry(&nk()).map(|v| v.1.payload));
            // ---- HashMapRef made by with_guard
            on_map!("HashMapRef", "iter", "self.guard", |m, g| m.with_guard(&g).iter().count());
            on_map!("HashMapRef", "keys", "self.guard", |m, g| m.with_guard(&g).keys().count());
            on_map!("HashMapRef", "values", "self.guard", |m, g| m.with_guard(&g).values().count());
            on_map!("HashMapRef", "reserve", "self.guard", |m, g| m.with_guard(&g).reserve(100));
            on_map!("HashMapRef", "contains_key", "self.guard", |m, g| m.with_guard(&g).contains_key(&key()));
            on_map!("HashMapRef", "get", "self.guard", |m, g| m.with_guard(&g).get(&key()).map(|v| v.payload));
            on_map!("HashMapRef", "get_key_value", "self.guard", |m, g| m.with_guard(&g).get_key_value(&key()).map(|v| v.1.payload));
            on_map!("HashMapRef", "clear", "self.guard", |m, g| m.with_guard(&g).clear());
            on_map!("HashMapRef", "insert", "self.guard", |m, g| m.with_guard(&g).insert(nk(), V::new(1, 1)).map(|v| v.payload));
            on_map!("HashMapRef", "try_insert", "self.guard", |m, g| m.with_guard(&g).try_insert(nk(), V::new(1, 1)).is_ok());
            on_map!("HashMapRef", "compute_if_present", "self.guard", |m, g| m.with_guard(&g).compute_if_present(&key(), |_, _| None).map(|v| v.payload));
            on_map!("HashMapRef", "remove", "self.guard", |m, g| m.with_guard(&g).remove(&key()).map(|v| v.payload));
            on_map!("HashMapRef", "remove_entry", "self.guard", |m, g| m.with_guard(&g).remove_entry(&key()).map(|v| v.1.payload));
            on_map!("HashMapRef", "retain", "self.guard", |m, g| m.with_guard(&g).retain(|_, _| false));
            on_map!("HashMapRef", "retain_force", "self.guard", |m, g| m.with_guard(&g).retain_force(|_, _| false));
            on_map!("HashMapRef", "into_iter", "self.guard", |m, g| (&m.with_guard(&g)).into_iter().count());
            on_map!("HashMapRef", "fmt", "self.guard", |m, g| format!("{:?}", m.with_guard(&g)));
            on_map!("HashMapRef", "index", "self.guard", |m, g| m.with_guard(&g)[&key()].payload);
            on_map!("HashMapRef", "eq", "self.guard", |m, g| m.with_guard(&g) == m.pin());
            on_map!("HashMapRef", "eq", "other.guard", |m, g| m.pin() == m.with_guard(&g));
            on_map!("HashMapRef", "eq", "self.guard", |m, g| m.with_guard(&g) == m);
            on_map!("HashMap", "eq", "other.guard", |m, g| m == m.with_guard(&g));
            // ---- HashSet
            on_set!("HashSet", "iter", "guard", |s, _o, g| s.iter(&g).count());
            on_set!("HashSet", "contains", "guard", |s, _o, g| s.contains(&key(), &g));
            on_set!("HashSet", "get", "guard", |s, _o, g| s.get(&key(), &g).map(|k| k.id));
            on_set!("HashSet", "is_disjoint", "our_guard", |s, o, g| s.is_disjoint(&o, &g, &o.guard()));
            on_set!("HashSet", "is_disjoint", "their_guard", |s, o, g| s.is_disjoint(&o, &s.guard(), &g));
            on_set!("HashSet", "is_subset", "our_guard", |s, o, g| s.is_subset(&o, &g, &o.guard()));
            on_set!("HashSet", "is_subset", "their_guard", |s, o, g| s.is_subset(&o, &s.guard(), &g));
            on_set!("HashSet", "is_superset", "our_guard", |s, o, g| s.is_superset(&o, &g, &o.guard()));
            on_set!("HashSet", "is_superset", "their_guard", |s, o, g| s.is_superset(&o, &s.guard(), &g));
            on_set!("HashSet", "insert", "guard", |s, _o, g| s.insert(nk(), &g));
            on_set!("HashSet", "remove", "guard", |s, _o, g| s.remove(&key(), &g));
            on_set!("HashSet", "take", "guard", |s, _o, g| s.take(&key(), &g).map(|k| k.id));
            on_set!("HashSet", "retain", "guard", |s, _o, g| s.retain(|_| false, &g));
            on_set!("HashSet", "clear", "guard", |s, _o, g| s.clear(&g));
            on_set!("HashSet", "reserve", "guard", |s, _o, g| s.reserve(100, &g));
            on_set!("HashSet", "contains", "guard", |s, _o, g| s.contains(&nk(), &g));
            on_set!("HashSet", "get", "guard", |s, _o, g| s.get(&nk(), &g).map(|k| k.id));
            on_set!("HashSet", "remove", "guard", |s, _o, g| s.remove(&nk(), &g));
            on_set!("HashSet", "take", "guard", |s, _o, g| s.take(&nk(), &g).map(|k| k.id));
            on_set!("HashSetRef", "contains", "self.guard", |s, _o, g| s.with_guard(&g).contains(&nk()));
            on_set!("HashSetRef", "get", "self.guard", |s, _o, g| s.with_guard(&g).get(&nk()).map(|k| k.id));
            on_set!("HashSetRef", "remove", "self.guard", |s, _o, g| s.with_guard(&g).remove(&nk()));
            on_set!("HashSetRef", "take", "self.guard", |s, _o, g| s.with_guard(&g).take(&nk()).map(|k| k.id));
            // ---- HashSetRef made by with_guard
            on_set!("HashSetRef", "iter", "self.guard", |s, _o, g| s.with_guard(&g).iter().count());
            on_set!("HashSetRef", "contains", "self.guard", |s, _o, g| s.with_guard(&g).contains(&key()));
            on_set!("HashSetRef", "get", "self.guard", |s, _o, g| s.with_guard(&g).get(&key()).map(|k| k.id));
            on_set!("HashSetRef", "is_disjoint", "self.guard", |s, o, g| s.with_guard(&g).is_disjoint(&o.pin()));
            on_set!("HashSetRef", "is_disjoint", "other.guard", |s, o, g| s.pin().is_disjoint(&o.with_guard(&g)));
            on_set!("HashSetRef", "is_subset", "self.guard", |s, o, g| s.with_guard(&g).is_subset(&o.pin()));
            on_set!("HashSetRef", "is_subset", "other.guard", |s, o, g| s.pin().is_subset(&o.with_guard(&g)));
            on_set!("HashSetRef", "is_superset", "self.guard", |s, o, g| s.with_guard(&g).is_superset(&o.pin()));
            on_set!("HashSetRef", "is_superset", "other.guard", |s, o, g| s.pin().is_superset(&o.with_guard(&g)));
            on_set!("HashSetRef", "insert", "self.guard", |s, _o, g| s.with_guard(&g).insert(nk()));
            on_set!("HashSetRef", "remove", "self.guard", |s, _o, g| s.with_guard(&g).remove(&key()));
            on_set!("HashSetRef", "take", "self.guard", |s, _o, g| s.with_guard(&g).take(&key()).map(|k| k.id));
            on_set!("HashSetRef", "retain", "self.guard", |s, _o, g| s.with_guard(&g).retain(|_| false));
            on_set!("HashSetRef", "clear", "self.guard", |s, _o, g| s.with_guard(&g).clear());
            on_set!("HashSetRef", "reserve", "self.guard", |s, _o, g| s.with_guard(&g).reserve(100));
            on_set!("HashSetRef", "into_iter", "self.guard", |s, _o, g| (&s.with_guard(&g)).into_iter().count());
            on_set!("HashSetRef", "fmt", "self.guard", |s, _o, g| format!("{:?}", s.with_guard(&g)));
            on_set!("HashSetRef", "eq_ref_ref", "self.guard", |s, o, g| s.with_guard(&g) == o.pin());
            on_set!("HashSetRef", "eq_ref_ref", "other.guard", |s, o, g| s.pin() == o.with_guard(&g));
            on_set!("HashSetRef", "eq", "self.guard", |s, o, g| s.with_guard(&g) == o);
            on_set!("HashSet", "eq", "other.guard", |s, o, g| s == o.with_guard(&g));
        }
    }
    out
}
