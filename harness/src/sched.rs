//! Deterministic baton scheduler. Real OS threads run the real flurry code, but only the thread
//! holding the baton runs; every verification hook that is a *yield point* hands the baton back
//! to the controller, which picks the next thread (seeded random walk, PCT-style priorities, or a
//! caller-supplied policy). Blocking is visible: a thread about to `lock()` is enabled iff the
//! mutex is free, a thread about to `park()` iff it holds an unpark token, a spinning thread only
//! after some other thread has made a step.
use flurry::verif::{Event, Hooks, Kind};
use std::cell::Cell;
use std::collections::BTreeMap;
use std::sync::atomic::{AtomicUsize, Ordering};
use std::sync::{Arc, Condvar, Mutex};

#[derive(Clone, Debug)]
pub struct TraceEv {
    pub tid: usize,
    pub kind: Kind,
    pub addr: usize,
    pub a: usize,
    pub b: usize,
    /// value found at `addr` immediately before the access (loads: the value read)
    pub seen: usize,
    pub ok: bool, // CAS success
    pub what: &'static str,
    pub ord: Option<std::sync::atomic::Ordering>,
    pub ord_fail: Option<std::sync::atomic::Ordering>,
    pub guarded: u8,
    pub size: usize,
    pub file: &'static str,
    pub line: u32,
    /// length of the allocator's free log when the event happened: blocks with a smaller log
    /// index were freed before this event
    pub qlen: usize,
    /// for `Retire` of a value: the instance id of the `V` behind the pointer
    pub inst: u64,
}

#[derive(Clone, Copy, Debug, PartialEq, Eq)]
pub enum Status {
    NotStarted,
    Ready,    // waiting at a yield point (or at its start) for the baton
    Running,  // holds the baton
    Finished,
}

#[derive(Clone, Debug)]
pub struct Pending {
    pub kind: Kind,
    pub addr: usize,
    pub a: usize,
    pub b: usize,
    pub what: &'static str,
    pub file: &'static str,
    pub line: u32,
}

pub struct TState {
    pub status: Status,
    pub pending: Option<Pending>,
    pub token: bool,
    pub thread_key: usize,
    /// value of the global write epoch when this thread last went through a spin point
    pub spin_epoch: usize,
    pub steps: usize,
    pub panicked: bool,
}

/// user-level records written by worker closures (operation boundaries, guard lifetimes, …)
#[derive(Clone, Debug)]
pub struct Note {
    pub tid: usize,
    pub at: usize, // trace length when written
    pub text: String,
}

pub struct Inner {
    pub threads: Vec<TState>,
    pub current: Option<usize>,
    pub trace: Vec<TraceEv>,
    pub notes: Vec<Note>,
    pub record_nonyield: bool,
    /// number of shared-memory changes so far (stores, swaps, successful CAS, RMW, unlocks): a
    /// thread in a busy-wait loop is re-enabled only when this has moved since its last spin
    pub write_epoch: usize,
}

pub struct Sched {
    pub inner: Mutex<Inner>,
    pub cv: Condvar,
}

thread_local! {
    /// scheduler thread id of this OS thread (None = not scheduled)
    static TID: Cell<Option<usize>> = const { Cell::new(None) };
    /// record events of an unscheduled thread into the global trace (sequential ledger mode)
    static RECORD: Cell<bool> = const { Cell::new(false) };
}

static CURRENT: Mutex<Option<Arc<Sched>>> = Mutex::new(None);

/// A probe the controller runs (on its own thread, while every worker is suspended at a yield
/// point) right after a worker has executed an access the filter accepts. It may inspect the
/// data structure and returns diagnoses, which become notes of the run.
pub type Probe = Box<dyn Fn(&TraceEv) -> Vec<String> + Send>;
pub static MID_PROBE: Mutex<Option<Probe>> = Mutex::new(None);
/// Called by the controller right after a worker has performed a *write* (store, swap, successful
/// CAS) and is suspended again at its next hook, every other worker being suspended too:
/// (thread, index of the write's event in the trace, the event). `conc::run_conc` uses it to
/// recompute the abstract content of the real structure ("what a lookup started now would find")
/// and to record every change of it with the access that caused it (`[abs-point]`).
pub type AbsProbe = Box<dyn Fn(usize, usize, &TraceEv) + Send>;
pub static ABS_PROBE: Mutex<Option<AbsProbe>> = Mutex::new(None);
/// how long the controller waits for a worker to reach its next hook before it calls the run stuck
pub const STEP_WATCHDOG_SECS: u64 = 6;
/// runs of this process that ended that way (the process stops generating cases after a few)
pub static STUCK_OUTSIDE_HOOKS: AtomicUsize = AtomicUsize::new(0);
/// Solo policy with `after_store = Some(0)`: the reader starts to run alone right after another
/// thread has overwritten a cell that held one of these objects (the tree bins present when the
/// run started): the moment a tree bin has just been forwarded / replaced
pub static SOLO_TRIGGER_ADDRS: Mutex<Vec<usize>> = Mutex::new(Vec::new());
static ACTIVE: AtomicUsize = AtomicUsize::new(0);

pub struct GlobalHooks;
pub static GLOBAL_HOOKS: GlobalHooks = GlobalHooks;

pub fn install() {
    flurry::verif::install(&GLOBAL_HOOKS);
}

/// A preemption point inside user code that the map calls back (the remapping function of
/// `compute_if_present`, the predicate of `retain`): user code may take arbitrarily long, so the
/// scheduler may run any other thread here. Whatever the map promises to hold across the callback
/// (C08: no update of the same key takes effect between the read and the write) must hold then.
#[track_caller]
pub fn user_code_yield(what: &'static str) {
    use flurry::verif::{Event, Hooks};
    GLOBAL_HOOKS.event(&Event { kind: Kind::Yield, addr: 0, a: 0, b: 0, ord: None, ord_fail: None, what, size: 0, guarded: 2, loc: std::panic::Location::caller() });
}

fn current() -> Option<Arc<Sched>> {
    if ACTIVE.load(Ordering::SeqCst) == 0 {
        return None;
    }
    CURRENT.lock().unwrap().clone()
}

fn is_yield(k: Kind) -> bool {
    matches!(
        k,
        Kind::Load | Kind::Store | Kind::Swap | Kind::Cas | Kind::FetchAdd | Kind::BeforeLock | Kind::BeforePark | Kind::Unpark | Kind::Spin | Kind::Yield
    )
}

unsafe fn peek(addr: usize) -> usize {
    if addr == 0 {
        0
    } else {
        (*(addr as *const AtomicUsize)).load(Ordering::SeqCst)
    }
}

impl Hooks for GlobalHooks {
    fn event(&self, e: &Event) {
        let tid = TID.with(|t| t.get());
        let rec = RECORD.with(|r| r.get());
        if tid.is_none() && !rec {
            return;
        }
        let Some(s) = current() else { return };
        match tid {
            Some(tid) => s.on_event(tid, e),
            None => s.record_only(usize::MAX, e),
        }
    }
}

fn mk_ev(tid: usize, e: &Event) -> TraceEv {
    let peekable = matches!(e.kind, Kind::Load | Kind::Store | Kind::Swap | Kind::Cas | Kind::FetchAdd | Kind::CloneLoad | Kind::Yield);
    let seen = if peekable { unsafe { peek(e.addr) } } else { 0 };
    TraceEv {
        tid,
        kind: e.kind,
        addr: e.addr,
        a: e.a,
        b: e.b,
        seen,
        ok: e.kind != Kind::Cas || seen == e.a,
        what: e.what,
        ord: e.ord,
        ord_fail: e.ord_fail,
        guarded: e.guarded,
        size: e.size,
        file: e.loc.file(),
        line: e.loc.line(),
        qlen: crate::qalloc::log_len(),
        inst: if e.kind == Kind::Retire && e.what.ends_with("types::V") && e.addr != 0 {
            // safety: the pointer is being retired, not yet freed
            unsafe { (**(e.addr as *const seize::Linked<crate::types::V>)).inst }
        } else {
            0
        },
    }
}

impl Sched {
    pub fn new(nthreads: usize, record_nonyield: bool) -> Arc<Sched> {
        let threads = (0..nthreads)
            .map(|_| TState { status: Status::NotStarted, pending: None, token: false, thread_key: 0, spin_epoch: 0, steps: 0, panicked: false })
            .collect();
        let s = Arc::new(Sched {
            inner: Mutex::new(Inner { threads, current: None, trace: vec![], notes: vec![], record_nonyield, write_epoch: 1 }),
            cv: Condvar::new(),
        });
        *CURRENT.lock().unwrap() = Some(s.clone());
        ACTIVE.store(1, Ordering::SeqCst);
        s
    }

    pub fn shutdown(&self) {
        ACTIVE.store(0, Ordering::SeqCst);
        *CURRENT.lock().unwrap() = None;
    }

    fn record_only(&self, tid: usize, e: &Event) {
        if e.kind == Kind::Retire {
            if let Some(msg) = crate::life::check_retire_reachable(e.addr, e.what) {
                self.note(format!("[retire-reachable] {} at {}:{}", msg, e.loc.file(), e.loc.line()));
            }
        }
        let mut g = self.inner.lock().unwrap();
        if g.record_nonyield || is_yield(e.kind) {
            let ev = mk_ev(tid, e);
            g.trace.push(ev);
            crate::types::TRACE_POS.store(g.trace.len() as u64, Ordering::Relaxed);
        }
    }

    fn on_event(&self, tid: usize, e: &Event) {
        if !is_yield(e.kind) {
            if e.kind == Kind::Retire {
                if let Some(msg) = crate::life::check_retire_reachable(e.addr, e.what) {
                    self.note(format!("[retire-reachable] {} at {}:{}", msg, e.loc.file(), e.loc.line()));
                }
            }
            let mut g = self.inner.lock().unwrap();
            if e.kind == Kind::Unlock {
                g.write_epoch += 1;
            }
            if g.record_nonyield {
                let ev = mk_ev(tid, e);
                g.trace.push(ev);
                crate::types::TRACE_POS.store(g.trace.len() as u64, Ordering::Relaxed);
            }
            return;
        }
        // hand the baton back and wait for our turn
        let mut g = self.inner.lock().unwrap();
        g.threads[tid].pending = Some(Pending { kind: e.kind, addr: e.addr, a: e.a, b: e.b, what: e.what, file: e.loc.file(), line: e.loc.line() });
        g.threads[tid].status = Status::Ready;
        if e.kind == Kind::BeforePark {
            g.threads[tid].thread_key = e.a;
        }
        g.current = None;
        self.cv.notify_all();
        while g.current != Some(tid) {
            g = self.cv.wait(g).unwrap();
        }
        g.threads[tid].status = Status::Running;
        g.threads[tid].pending = None;
        g.threads[tid].steps += 1;
        // effects of being scheduled at this point
        match e.kind {
            Kind::Unpark => {
                let key = e.a;
                for t in g.threads.iter_mut() {
                    if t.thread_key == key {
                        t.token = true;
                    }
                }
            }
            Kind::BeforePark => {
                g.threads[tid].token = false;
            }
            Kind::Spin => {
                g.threads[tid].spin_epoch = g.write_epoch;
            }
            _ => {}
        }
        let ev = mk_ev(tid, e);
        crate::types::TRACE_POS.store(g.trace.len() as u64 + 1, Ordering::Relaxed);
        if matches!(ev.kind, Kind::Store | Kind::Swap | Kind::FetchAdd) || (ev.kind == Kind::Cas && ev.ok) || ev.kind == Kind::Yield {
            g.write_epoch += 1;
        }
        g.trace.push(ev);
    }

    /// worker side: register, wait for the first baton, run, finish
    pub fn run_worker<F: FnOnce()>(self: &Arc<Self>, tid: usize, f: F) {
        TID.with(|t| t.set(Some(tid)));
        {
            let mut g = self.inner.lock().unwrap();
            g.threads[tid].status = Status::Ready;
            g.threads[tid].thread_key = flurry::verif::thread_key(&std::thread::current());
            self.cv.notify_all();
            while g.current != Some(tid) {
                g = self.cv.wait(g).unwrap();
            }
            g.threads[tid].status = Status::Running;
        }
        let r = std::panic::catch_unwind(std::panic::AssertUnwindSafe(f));
        let mut g = self.inner.lock().unwrap();
        g.threads[tid].status = Status::Finished;
        g.threads[tid].pending = None;
        g.threads[tid].panicked = r.is_err();
        g.current = None;
        TID.with(|t| t.set(None));
        self.cv.notify_all();
    }

    pub fn note(&self, text: String) {
        let tid = TID.with(|t| t.get()).unwrap_or(usize::MAX);
        let mut g = self.inner.lock().unwrap();
        let at = g.trace.len();
        g.notes.push(Note { tid, at, text });
    }

    /// controller: wait until every worker has started and is waiting for the baton
    pub fn wait_all_ready(&self) {
        let mut g = self.inner.lock().unwrap();
        while g.threads.iter().any(|t| t.status == Status::NotStarted) {
            g = self.cv.wait(g).unwrap();
        }
    }

    pub fn enabled(&self, g: &Inner, tid: usize) -> bool {
        let t = &g.threads[tid];
        if t.status != Status::Ready {
            return false;
        }
        match &t.pending {
            None => true,
            Some(p) => match p.kind {
                Kind::BeforeLock => !unsafe { flurry::verif::mutex_is_locked(p.addr) },
                Kind::BeforePark => t.token,
                Kind::Spin => g.write_epoch > t.spin_epoch,
                _ => true,
            },
        }
    }

    pub fn enabled_set(&self) -> Vec<usize> {
        let g = self.inner.lock().unwrap();
        (0..g.threads.len()).filter(|i| self.enabled(&g, *i)).collect()
    }

    pub fn unfinished(&self) -> Vec<usize> {
        let g = self.inner.lock().unwrap();
        (0..g.threads.len()).filter(|i| g.threads[*i].status != Status::Finished).collect()
    }

    pub fn pending_of(&self, tid: usize) -> Option<Pending> {
        self.inner.lock().unwrap().threads[tid].pending.clone()
    }

    /// controller: let `tid` run until its next yield point (or its end)
    pub fn step(&self, tid: usize) -> bool {
        let mut g = self.inner.lock().unwrap();
        assert!(g.current.is_none());
        g.current = Some(tid);
        self.cv.notify_all();
        // A worker that holds the baton must come back at its next hook. One that does not — it
        // blocks in a real lock acquisition that no hook announces, e.g. re-taking a mutex it had
        // released around a call-back while the thread that holds it now is suspended — would hang
        // the whole process: give up after a while and report it (`false`).
        let t0 = std::time::Instant::now();
        while g.current.is_some() {
            let (g2, _) = self.cv.wait_timeout(g, std::time::Duration::from_millis(200)).unwrap();
            g = g2;
            if g.current.is_some() && t0.elapsed() > std::time::Duration::from_secs(STEP_WATCHDOG_SECS) {
                return false;
            }
        }
        true
    }

    pub fn trace_len(&self) -> usize {
        self.inner.lock().unwrap().trace.len()
    }
}

/// record hook events of the *calling* (unscheduled) thread while `f` runs
pub fn with_recording<R>(f: impl FnOnce() -> R) -> R {
    RECORD.with(|r| r.set(true));
    let out = f();
    RECORD.with(|r| r.set(false));
    out
}

#[derive(Clone, Debug)]
pub enum Policy {
    /// uniformly random among enabled threads
    Random,
    /// random, but a thread that has just written shared memory (store, swap, successful CAS) is
    /// held back for a few steps with high probability: other threads get to look at the state
    /// *between* two consecutive writes of one thread (publish-then-link, forward-then-fill windows)
    RandomAfterWrite,
    /// PCT: random priorities, `d` priority change points at random steps
    Pct { d: usize, horizon: usize },
    /// run thread 0 .. n-1 to completion in order (sequential baseline)
    Sequential,
    /// round robin over enabled threads
    RoundRobin,
    /// C12: run the other threads for `after` steps (randomly), then run `reader` alone until it
    /// finishes; it must never be disabled while it runs alone
    /// run everything at random for `start` steps, then suspend `reader` (possibly in the middle of
    /// its operation) until step `after` or until nobody else can run, then run `reader` alone.
    /// `freeze`: (thread, k): that thread is suspended for good after `k` steps of its own - a
    /// writer stopped while it holds a bin lock or restructures a tree, another reader stopped
    /// while it holds a tree bin's read lock (so that a later writer parks behind it) - and is
    /// released only after `reader` has finished
    /// `after_store = Some(n)`: the reader also starts to run alone right after the other threads
    /// have performed their n-th store / swap / successful CAS that OVERWRITES a non-null bin cell or
    /// `next` / `first` link (an `Atomic<BinEntry>`): it then sees the state *between* two consecutive stores of a
    /// writer (publish-then-link, forward-then-fill windows)
    Solo { reader: usize, start: usize, after: usize, freeze: Vec<(usize, usize)>, after_store: Option<usize> },
    /// a scripted schedule (regression scenarios): run the named thread until a condition on its
    /// next pending access or on the accesses it has performed holds; afterwards round robin
    Script(Vec<ScriptStep>),
}

/// how two values of an access relate (for `size_ctl` / `transfer_index` words)
#[derive(Clone, Copy, Debug, PartialEq, Eq)]
pub enum Rel {
    Any,
    /// `b == a + 1`
    Inc,
    /// `b == a - 1`
    Dec,
}

#[derive(Clone, Debug)]
pub enum Until {
    /// the thread's next access is of this kind on a word whose name contains `what`
    Pending { kind: Kind, what: &'static str, rel: Rel },
    /// the thread has performed `count` (successful, for CAS) accesses of this kind
    Done { kind: Kind, what: &'static str, rel: Rel, count: usize },
    Finished,
}

#[derive(Clone, Debug)]
pub struct ScriptStep {
    pub tid: usize,
    pub until: Until,
}

fn rel_holds(rel: Rel, a: usize, b: usize) -> bool {
    match rel {
        Rel::Any => true,
        Rel::Inc => b == a.wrapping_add(1),
        Rel::Dec => b == a.wrapping_sub(1),
    }
}

pub struct RunOutcome {
    pub deadlock: bool,
    pub budget_exceeded: bool,
    pub steps: usize,
    pub schedule: Vec<usize>,
    pub blocked: Vec<(usize, String)>,
    /// Solo policy: own steps the reader needed while everybody else was suspended
    pub solo_steps: Option<usize>,
    /// Solo policy: the reader was not enabled although it ran alone
    pub solo_blocked: Option<String>,
}

/// drive all workers to completion under a policy
pub fn drive(s: &Arc<Sched>, policy: &Policy, rng: &mut crate::types::Rng, budget: usize) -> RunOutcome {
    s.wait_all_ready();
    let n = s.inner.lock().unwrap().threads.len();
    let mut prio: Vec<u64> = (0..n).map(|_| rng.next()).collect();
    let mut change_points: BTreeMap<usize, ()> = BTreeMap::new();
    if let Policy::Pct { d, horizon } = policy {
        for _ in 0..*d {
            change_points.insert(rng.below(*horizon as u64 + 1) as usize, ());
        }
    }
    let mut steps = 0usize;
    let mut schedule = vec![];
    let mut rr = 0usize;
    let mut fair_phase = false;
    let mut solo_steps: Option<usize> = None;
    let mut solo_blocked: Option<String> = None;
    let mut solo_done = false;
    let mut hold: Option<(usize, usize)> = None; // (thread held back, steps left)
    let mut script_pos = 0usize;
    // steps spent in the current script step: a step whose thread only spins (it waits for a
    // thread the script holds back) is abandoned after a while
    let mut script_spent = 0usize;
    let mut own: Vec<usize> = vec![0; n];
    let mut bin_stores = 0usize;
    loop {
        let unfinished = s.unfinished();
        if unfinished.is_empty() {
            return RunOutcome { deadlock: false, budget_exceeded: false, steps, schedule, blocked: vec![], solo_steps, solo_blocked };
        }
        let en = s.enabled_set();
        if en.is_empty() {
            let blocked = unfinished
                .iter()
                .map(|t| (*t, s.pending_of(*t).map(|p| format!("{:?} {} at {}:{}", p.kind, p.what, p.file, p.line)).unwrap_or_default()))
                .collect();
            return RunOutcome { deadlock: true, budget_exceeded: false, steps, schedule, blocked, solo_steps, solo_blocked };
        }
        if steps >= budget && !matches!(policy, Policy::RoundRobin | Policy::Random | Policy::RandomAfterWrite) && !fair_phase {
            // priority schedules are unfair by design: finish under a fair policy before
            // calling anything a livelock
            fair_phase = true;
        }
        if steps >= 2 * budget || (steps >= budget && matches!(policy, Policy::RoundRobin | Policy::Random | Policy::RandomAfterWrite)) {
            let blocked = unfinished
                .iter()
                .map(|t| (*t, s.pending_of(*t).map(|p| format!("{:?} {} at {}:{}", p.kind, p.what, p.file, p.line)).unwrap_or_default()))
                .collect();
            return RunOutcome { deadlock: false, budget_exceeded: true, steps, schedule, blocked, solo_steps, solo_blocked };
        }
        let pick = if fair_phase {
            rr += 1;
            en[rr % en.len()]
        } else { match policy {
            Policy::Solo { reader, start, after, freeze, after_store } => {
                let after = &(if after_store.map(|k| bin_stores >= k.max(1)).unwrap_or(false) { 0usize } else { *after });
                let frozen = |t: usize| !solo_done && freeze.iter().any(|(ft, k)| *ft == t && own[t] >= *k);
                let others: Vec<usize> = en.iter().copied().filter(|t| t != reader && !frozen(*t)).collect();
                let reader_unfinished = unfinished.contains(reader);
                if steps < *start && !solo_done && solo_steps.is_none() {
                    en[rng.below(en.len() as u64) as usize]
                } else if !solo_done && reader_unfinished && (steps >= *after || others.is_empty()) {
                    // the reader runs alone from here
                    if en.contains(reader) {
                        solo_steps = Some(solo_steps.unwrap_or(0) + 1);
                        *reader
                    } else {
                        solo_blocked = Some(s.pending_of(*reader).map(|p| format!("{:?} {} at {}:{}", p.kind, p.what, p.file, p.line)).unwrap_or_default());
                        solo_done = true;
                        others[rng.below(others.len() as u64) as usize]
                    }
                } else {
                    if !reader_unfinished {
                        solo_done = true;
                    }
                    if others.is_empty() { en[0] } else { others[rng.below(others.len() as u64) as usize] }
                }
            }
            Policy::Script(script) => {
                let mut pick = None;
                while script_pos < script.len() {
                    let st = &script[script_pos];
                    let met = match &st.until {
                        Until::Finished => !unfinished.contains(&st.tid),
                        Until::Pending { kind, what, rel } => s
                            .pending_of(st.tid)
                            .map(|p| p.kind == *kind && p.what.contains(what) && rel_holds(*rel, p.a, p.b))
                            .unwrap_or(false),
                        Until::Done { kind, what, rel, count } => {
                            let g = s.inner.lock().unwrap();
                            g.trace.iter().filter(|e| e.tid == st.tid && e.kind == *kind && e.ok && e.what.contains(what) && rel_holds(*rel, e.a, e.b)).count() >= *count
                        }
                    };
                    if met || !unfinished.contains(&st.tid) || !en.contains(&st.tid) || script_spent > 20_000 {
                        script_pos += 1;
                        script_spent = 0;
                        continue;
                    }
                    script_spent += 1;
                    pick = Some(st.tid);
                    break;
                }
                match pick {
                    Some(t) => t,
                    None => {
                        rr += 1;
                        en[rr % en.len()]
                    }
                }
            }
            Policy::Random => en[rng.below(en.len() as u64) as usize],
            Policy::RandomAfterWrite => {
                let others: Vec<usize> = match hold {
                    Some((t, left)) if left > 0 => en.iter().copied().filter(|x| *x != t).collect(),
                    _ => vec![],
                };
                if let Some((t, left)) = hold {
                    hold = if left > 1 { Some((t, left - 1)) } else { None };
                }
                if !others.is_empty() { others[rng.below(others.len() as u64) as usize] } else { en[rng.below(en.len() as u64) as usize] }
            }
            Policy::Sequential => en[0],
            Policy::RoundRobin => {
                rr += 1;
                en[rr % en.len()]
            }
            Policy::Pct { .. } => {
                if change_points.contains_key(&steps) {
                    // demote the currently highest enabled thread
                    if let Some(top) = en.iter().max_by_key(|t| prio[**t]) {
                        prio[*top] = rng.below(1 << 20);
                    }
                }
                *en.iter().max_by_key(|t| prio[**t]).unwrap()
            }
        } };
        if !s.step(pick) {
            let at = {
                let g = s.inner.lock().unwrap();
                g.trace.iter().rev().find(|e| e.tid == pick).map(|e| format!("{:?} {} at {}:{}", e.kind, e.what, e.file, e.line)).unwrap_or_default()
            };
            STUCK_OUTSIDE_HOOKS.fetch_add(1, Ordering::SeqCst);
            // if no other unfinished thread can move either, nobody will ever release that lock: a
            // deadlock of the code, not a limit of the scheduler
            let others: Vec<usize> = s.enabled_set().into_iter().filter(|t| *t != pick).collect();
            if others.is_empty() {
                let mut blocked: Vec<(usize, String)> = s
                    .unfinished()
                    .iter()
                    .filter(|t| **t != pick)
                    .map(|t| (*t, s.pending_of(*t).map(|p| format!("{:?} {} at {}:{}", p.kind, p.what, p.file, p.line)).unwrap_or_default()))
                    .collect();
                blocked.push((pick, format!("blocked in a lock acquisition after its access `{}` (no other thread can move, so the lock is never released)", at)));
                return RunOutcome { deadlock: true, budget_exceeded: false, steps, schedule, blocked, solo_steps, solo_blocked };
            }
            let blocked = vec![(pick, format!("blocked OUTSIDE any hook for {} s after its access `{}` while every other thread is suspended: it waits for a lock no hook announces (a mutex released around a call-back and re-taken, a lock taken in an unexpected place) that a suspended thread holds", STEP_WATCHDOG_SECS, at))];
            return RunOutcome { deadlock: true, budget_exceeded: false, steps, schedule, blocked, solo_steps, solo_blocked };
        }
        if matches!(policy, Policy::RandomAfterWrite) && hold.is_none() {
            let wrote = {
                let g = s.inner.lock().unwrap();
                g.trace.last().map(|e| e.tid == pick && (matches!(e.kind, Kind::Store | Kind::Swap) || (e.kind == Kind::Cas && e.ok)) && e.what.contains("::")).unwrap_or(false)
            };
            if wrote && rng.chance(3, 4) {
                hold = Some((pick, 1 + rng.below(8) as usize));
            }
        }
        {
            // abstract-content probe: the write `pick` has just performed
            let last_w = {
                let g = s.inner.lock().unwrap();
                g.trace.iter().enumerate().rev().take(64).find(|(_, e)| e.tid == pick && is_yield(e.kind)).map(|(i, e)| (i, e.clone()))
            };
            if let Some((ix, ev)) = last_w {
                if matches!(ev.kind, Kind::Store | Kind::Swap) || (ev.kind == Kind::Cas && ev.ok) {
                    if let Some(p) = ABS_PROBE.lock().unwrap().as_ref() {
                        p(pick, ix, &ev);
                    }
                }
            }
        }
        {
            // mid-run probe: the access `pick` has just performed
            let last = {
                let g = s.inner.lock().unwrap();
                g.trace.iter().rev().take(12).find(|e| e.tid == pick && is_yield(e.kind)).cloned()
            };
            if let Some(ev) = last {
                // an *overwriting* store: the cell held something (a bin is replaced, forwarded,
                // unlinked from), which is when a reader can be led astray
                if ev.what.contains("BinEntry") && ev.seen != 0 && (matches!(ev.kind, Kind::Store | Kind::Swap) || (ev.kind == Kind::Cas && ev.ok)) {
                    if let Policy::Solo { reader, after_store, .. } = policy {
                        if pick != *reader {
                            if *after_store == Some(0) {
                                if SOLO_TRIGGER_ADDRS.lock().unwrap().contains(&ev.seen) {
                                    bin_stores = usize::MAX;
                                }
                            } else {
                                bin_stores += 1;
                            }
                        }
                    }
                }
                if ev.what == "lock_state" && ev.kind == Kind::Store {
                    let msgs = MID_PROBE.lock().unwrap().as_ref().map(|p| p(&ev)).unwrap_or_default();
                    for m in msgs {
                        s.note(m);
                    }
                }
            }
        }
        schedule.push(pick);
        own[pick] += 1;
        steps += 1;
    }
}
