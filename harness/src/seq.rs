//! Sequential mode: generated operation sequences run on the real flurry (four facades) and on a
//! `BTreeMap` oracle; every answer and a canonical structural snapshot after each step is printed
//! in the line format the Lean driver (`flurry-model`) also prints.
use crate::types::*;
use flurry::verif_inspect::{BinSnap, Snapshot, TableSnap};
use flurry::{HashMap, HashSet};
use std::collections::BTreeMap;
use std::fmt::Write as _;
use std::panic::{catch_unwind, AssertUnwindSafe};
use std::sync::Arc;

pub type Item = (u32, u32, u64, u32); // key id, key origin, payload, value origin

#[derive(Clone, Debug)]
pub enum CipFn {
    Inc(u32),
    Same(u32),
    Rm,
    Panic,
}

#[derive(Clone, Debug)]
pub enum Op {
    New { slot: usize, cap: usize },
    Use(usize),
    Ins(Item),
    TryIns(Item),
    Get(u32),
    GetKv(u32),
    Has(u32),
    Rm(u32),
    Rme(u32),
    Cip(u32, CipFn),
    Retain { force: bool, pred: &'static str, panic_at: Option<usize> },
    Clear,
    Reserve(usize),
    Len,
    IsEmpty,
    Iter,
    Snap,
    Extend { hint: usize, items: Vec<Item> },
    Collect { slot: usize, hint: usize, items: Vec<Item> },
    CloneTo(usize),
    Rel(&'static str, usize, usize),
}

#[derive(Clone, Copy, Debug, PartialEq, Eq)]
pub enum Facade {
    MapGuard,
    MapPin,
    SetGuard,
    SetPin,
}

#[derive(Clone, Debug)]
pub struct Case {
    pub id: usize,
    pub seed: u64,
    pub facade: Facade,
    pub hash_class: &'static str,
    pub hashes: Vec<u64>, // index = key id
    pub ops: Vec<Op>,
}

fn fmt_items(items: &[Item]) -> String {
    items
        .iter()
        .map(|(k, ki, v, vi)| format!("{}:{}:{}:{}", k, ki, v, vi))
        .collect::<Vec<_>>()
        .join(",")
}

pub fn fmt_hashes(h: &[u64]) -> String {
    h.iter()
        .enumerate()
        .skip(1)
        .map(|(k, h)| format!("{}:{}", k, h))
        .collect::<Vec<_>>()
        .join(",")
}

impl Op {
    pub fn line(&self, case: &Case) -> String {
        match self {
            Op::New { slot, cap } => format!("new {} cap={} hash={}", slot, cap, fmt_hashes(&case.hashes)),
            Op::Use(s) => format!("use {}", s),
            Op::Ins((k, ki, v, vi)) => format!("ins {} {} {} {}", k, ki, v, vi),
            Op::TryIns((k, ki, v, vi)) => format!("tryins {} {} {} {}", k, ki, v, vi),
            Op::Get(k) => format!("get {}", k),
            Op::GetKv(k) => format!("getkv {}", k),
            Op::Has(k) => format!("has {}", k),
            Op::Rm(k) => format!("rm {}", k),
            Op::Rme(k) => format!("rme {}", k),
            Op::Cip(k, f) => match f {
                CipFn::Inc(n) => format!("cip {} inc:{}", k, n),
                CipFn::Same(n) => format!("cip {} same:{}", k, n),
                CipFn::Rm => format!("cip {} rm", k),
                CipFn::Panic => format!("cip {} panic", k),
            },
            Op::Retain { force, pred, panic_at } => {
                let mut s = format!("{} {}", if *force { "retainf" } else { "retain" }, pred);
                if let Some(i) = panic_at {
                    let _ = write!(s, " panicat={}", i);
                }
                s
            }
            Op::Clear => "clear".into(),
            Op::Reserve(n) => format!("reserve {}", n),
            Op::Len => "len".into(),
            Op::IsEmpty => "isempty".into(),
            Op::Iter => "iter".into(),
            Op::Snap => "snap".into(),
            Op::Extend { hint, items } => format!("extend hint={} items={}", hint, fmt_items(items)),
            Op::Collect { slot, hint, items } => format!(
                "collect {} hint={} hash={} items={}",
                slot,
                hint,
                fmt_hashes(&case.hashes),
                fmt_items(items)
            ),
            Op::CloneTo(d) => format!("clone {}", d),
            Op::Rel(r, a, b) => format!("{} {} {}", r, a, b),
        }
    }
}

pub fn pred_fn(name: &str) -> fn(u32, u64) -> bool {
    match name {
        "even" => |k, _| k % 2 == 0,
        "odd" => |k, _| k % 2 == 1,
        "all" => |_, _| true,
        "none" => |_, _| false,
        "veven" => |_, v| v % 2 == 0,
        "k3" => |k, _| k % 3 != 0,
        _ => panic!("unknown predicate"),
    }
}

// ------------------------------------------------------------------------------------------
// snapshot formatting (must match Flurry/Driver.lean `fmtSnap`)

pub trait ValFmt {
    fn pv(&self) -> (u64, u32);
}
impl ValFmt for V {
    fn pv(&self) -> (u64, u32) {
        (self.payload, self.origin)
    }
}
impl ValFmt for () {
    fn pv(&self) -> (u64, u32) {
        (0, 0)
    }
}

fn fmt_node<VV: ValFmt>(n: &flurry::verif_inspect::NodeSnap<'_, K, VV>) -> String {
    let (p, o) = n.value.map(|v| v.pv()).unwrap_or((u64::MAX, u32::MAX));
    format!("{},{},{},{},{}", n.hash, n.key.id, n.key.origin, p, o)
}

fn fmt_tree<VV: ValFmt>(
    addr: usize,
    nodes: &std::collections::HashMap<usize, &flurry::verif_inspect::TreeNodeSnap<'_, K, VV>>,
    depth: usize,
    out: &mut String,
) {
    if addr == 0 {
        out.push('-');
        return;
    }
    if depth > 64 {
        out.push_str("<cycle>");
        return;
    }
    match nodes.get(&addr) {
        None => out.push_str("<unlisted>"),
        Some(n) => {
            let _ = write!(out, "({} {} ", if n.red { "r" } else { "b" }, n.node.key.id);
            fmt_tree(n.left, nodes, depth + 1, out);
            out.push(' ');
            fmt_tree(n.right, nodes, depth + 1, out);
            out.push(')');
        }
    }
}

pub fn fmt_table<VV: ValFmt>(t: &TableSnap<'_, K, VV>) -> Vec<String> {
    let mut v = vec![];
    for (i, b) in t.bins.iter().enumerate() {
        match b {
            BinSnap::Empty => {}
            BinSnap::Moved => v.push(format!("{}:M", i)),
            BinSnap::List(ns) => v.push(format!(
                "{}:L[{}]",
                i,
                ns.iter().map(fmt_node).collect::<Vec<_>>().join(";")
            )),
            BinSnap::Tree { root, nodes, .. } => {
                let map: std::collections::HashMap<usize, _> = nodes.iter().map(|n| (n.node.addr, n)).collect();
                let mut s = String::new();
                fmt_tree(*root, &map, 0, &mut s);
                v.push(format!(
                    "{}:T[{}|{}]",
                    i,
                    s,
                    nodes.iter().map(|n| fmt_node(&n.node)).collect::<Vec<_>>().join(";")
                ));
            }
        }
    }
    v
}

pub fn fmt_snap<VV: ValFmt>(s: &Snapshot<'_, K, VV>) -> String {
    let (len, bins) = match &s.table {
        None => (0, vec![]),
        Some(t) => (t.len, fmt_table(t)),
    };
    format!("len={} sc={} count={} {}", len, s.size_ctl, s.count, bins.join(" "))
}

/// C10, sequential runs only: when an operation has returned, the entry count is below the growth
/// threshold (`add_count` loops until it is) unless the table has its maximum length. With
/// concurrent inserters this need not hold at quiescence (an inserter that finds a resize in its
/// final phase neither joins it nor starts the next one), so the scheduled suites do not use it.
pub fn seq_growth_due<VV: ValFmt>(s: &Snapshot<'_, K, VV>) -> Vec<String> {
    let mut errs = vec![];
    if let Some(t) = &s.table {
        if s.size_ctl > 0 && s.count >= s.size_ctl && t.len < (1 << 30) {
            errs.push(format!(
                "count {} has reached size_ctl {} (the growth threshold of a {}-bin table) after the operation returned, but the table was not replaced by one of twice the length",
                s.count, s.size_ctl, t.len
            ));
        }
    }
    errs
}

/// Structural validator on a snapshot (implementation-level oracle for C05/C06).
/// Returns a list of problems (empty = well formed).
pub fn validate_snapshot<VV: ValFmt>(s: &Snapshot<'_, K, VV>, quiescent: bool) -> Vec<String> {
    let mut errs = vec![];
    let Some(t) = &s.table else {
        if s.count != 0 {
            errs.push(format!("no table but count={}", s.count));
        }
        return errs;
    };
    if !t.len.is_power_of_two() {
        errs.push(format!("table length {} is not a power of two", t.len));
    }
    if t.len > (1 << 30) {
        errs.push("table longer than 2^30".into());
    }
    let mut seen = std::collections::HashSet::new();
    let mut total = 0usize;
    for (i, b) in t.bins.iter().enumerate() {
        let mut check_node = |hash: u64, key: u32, errs: &mut Vec<String>| {
            total += 1;
            if (hash as usize) & (t.len - 1) != i {
                errs.push(format!("key {} with hash {} sits in bin {} of {}", key, hash, i, t.len));
            }
            if !seen.insert(key) {
                errs.push(format!("key {} occurs twice", key));
            }
        };
        match b {
            BinSnap::Empty => {}
            BinSnap::Moved => {
                if quiescent {
                    errs.push(format!("forwarding marker left in bin {}", i));
                }
            }
            BinSnap::List(ns) => {
                for n in ns {
                    check_node(n.hash, n.key.id, &mut errs);
                    if quiescent && n.locked {
                        errs.push(format!("bin {} lock held at quiescence", i));
                    }
                }
            }
            BinSnap::Tree { root, first, nodes, locked, lock_state, .. } => {
                for n in nodes {
                    check_node(n.node.hash, n.node.key.id, &mut errs);
                }
                if quiescent && (*locked || *lock_state != 0) {
                    errs.push(format!("tree bin {} locked/lock_state={} at quiescence", i, lock_state));
                }
                errs.extend(validate_tree(i, *root, *first, nodes));
            }
        }
    }
    if quiescent {
        if s.next_table_addr != 0 {
            errs.push("next_table not null at quiescence".into());
        }
        if s.size_ctl < 0 {
            errs.push(format!("size_ctl={} at quiescence", s.size_ctl));
        }
        if s.count != total as isize {
            errs.push(format!("count={} but {} entries", s.count, total));
        }
        let want = (t.len - (t.len >> 2)) as isize;
        if s.size_ctl != want {
            errs.push(format!("size_ctl={} but 0.75*len={}", s.size_ctl, want));
        }
    }
    errs
}

/// red-black / BST / link consistency of one dumped tree bin
pub fn validate_tree<VV>(
    bin: usize,
    root: usize,
    first: usize,
    nodes: &[flurry::verif_inspect::TreeNodeSnap<'_, K, VV>],
) -> Vec<String> {
    let mut errs = vec![];
    let map: std::collections::HashMap<usize, _> = nodes.iter().map(|n| (n.node.addr, n)).collect();
    // list links
    if nodes.first().map(|n| n.node.addr).unwrap_or(0) != first {
        errs.push(format!("bin {}: first does not point at the first listed node", bin));
    }
    for w in nodes.windows(2) {
        if w[1].prev != w[0].node.addr {
            errs.push(format!("bin {}: prev link of key {} inconsistent", bin, w[1].node.key.id));
        }
    }
    if let Some(f) = nodes.first() {
        if f.prev != 0 {
            errs.push(format!("bin {}: first node has a prev", bin));
        }
    }
    // tree walk
    fn walk<VV>(
        a: usize,
        parent: usize,
        map: &std::collections::HashMap<usize, &flurry::verif_inspect::TreeNodeSnap<'_, K, VV>>,
        lo: Option<(u64, u32)>,
        hi: Option<(u64, u32)>,
        errs: &mut Vec<String>,
        count: &mut usize,
        depth: usize,
        bin: usize,
    ) -> usize {
        if a == 0 {
            return 1;
        }
        if depth > 64 {
            errs.push(format!("bin {}: tree deeper than 64", bin));
            return 1;
        }
        let Some(n) = map.get(&a) else {
            errs.push(format!("bin {}: tree node {:x} not in the traversal list", bin, a));
            return 1;
        };
        *count += 1;
        let me = (n.node.hash, n.node.key.id);
        if n.parent != parent {
            errs.push(format!("bin {}: parent link of key {} wrong", bin, me.1));
        }
        if let Some(lo) = lo {
            if !(lo < me) {
                errs.push(format!("bin {}: order violated at key {}", bin, me.1));
            }
        }
        if let Some(hi) = hi {
            if !(me < hi) {
                errs.push(format!("bin {}: order violated at key {}", bin, me.1));
            }
        }
        if n.red {
            for c in [n.left, n.right] {
                if let Some(cn) = map.get(&c) {
                    if cn.red {
                        errs.push(format!("bin {}: red key {} has a red child", bin, me.1));
                    }
                }
            }
        }
        let bl = walk(n.left, a, map, lo, Some(me), errs, count, depth + 1, bin);
        let br = walk(n.right, a, map, Some(me), hi, errs, count, depth + 1, bin);
        if bl != br {
            errs.push(format!("bin {}: black heights differ under key {}", bin, me.1));
        }
        bl + if n.red { 0 } else { 1 }
    }
    let mut count = 0;
    if let Some(r) = map.get(&root) {
        if r.red {
            errs.push(format!("bin {}: red root", bin));
        }
    }
    walk(root, 0, &map, None, None, &mut errs, &mut count, 0, bin);
    if count != nodes.len() {
        errs.push(format!("bin {}: tree has {} nodes, traversal list {}", bin, count, nodes.len()));
    }
    errs
}

// ------------------------------------------------------------------------------------------
// execution

#[derive(Default)]
pub struct RunResult {
    pub lines: Vec<String>,
    /// tagged: "[answer:<op>] ..", "[final] ..", "[panic] ..", "[retain] ..", "[cost] ..", "[cap] .."
    pub failures: Vec<String>,
    pub max_tree_cmp: u64,
    pub tree_lookups: u64,
    pub max_bin: usize,
    pub tree_bins_seen: u64,
    pub resizes_seen: u64,
    pub promise_checks: u64,
}

type Oracle = BTreeMap<u32, (u32, u64, u32)>; // key -> (key origin, payload, value origin)

fn opt_v(v: Option<&V>) -> String {
    match v {
        Some(v) => format!("some {} {}", v.payload, v.origin),
        None => "none".into(),
    }
}
fn opt_kv(r: Option<(&K, &V)>) -> String {
    match r {
        Some((kk, v)) => format!("somekv {} {} {}", kk.origin, v.payload, v.origin),
        None => "none".into(),
    }
}

/// iterator with a chosen lower size hint
pub struct HintIter<T> {
    pub inner: std::vec::IntoIter<T>,
    pub hint: usize,
}
impl<T> Iterator for HintIter<T> {
    type Item = T;
    fn next(&mut self) -> Option<T> {
        let r = self.inner.next();
        if r.is_some() && self.hint > 0 {
            self.hint -= 1;
        }
        r
    }
    fn size_hint(&self) -> (usize, Option<usize>) {
        (self.hint, None)
    }
}

/// What a slot holds: a map or a set, driven through the guard or the pin facade.
pub trait Target: Sized {
    fn new(cap: usize, th: TableHasher) -> Self;
    fn collect(items: &[Item], hint: usize) -> Self;
    fn clone_(&self) -> Self;
    fn ins(&self, pin: bool, it: &Item) -> String;
    fn tryins(&self, pin: bool, it: &Item) -> String;
    fn get(&self, pin: bool, k: u32) -> String;
    fn getkv(&self, pin: bool, k: u32) -> String;
    fn has(&self, pin: bool, k: u32) -> String;
    fn rm(&self, pin: bool, k: u32) -> String;
    fn rme(&self, pin: bool, k: u32) -> String;
    fn cip(&self, pin: bool, k: u32, f: &CipFn) -> String;
    fn retain(&self, pin: bool, force: bool, pred: &'static str, panic_at: Option<usize>);
    fn clear(&self, pin: bool);
    fn reserve(&self, pin: bool, n: usize);
    fn len(&self, pin: bool) -> usize;
    fn is_empty(&self, pin: bool) -> bool;
    /// (hash,key,ki,v,vi) lines in iteration order + whether keys()/values() agree with iter()
    fn iter(&self, pin: bool, hashes: &[u64]) -> (Vec<String>, bool);
    fn contents(&self) -> Vec<(u32, u32, u64, u32)>;
    fn snap(&self) -> (String, Vec<String>, SnapStats);
    fn extend(&self, items: &[Item], hint: usize);
    fn eq(&self, other: &Self, pin: bool) -> bool;
    fn rel(&self, other: &Self, rel: &str) -> Option<bool>;
    /// key comparisons used by one `get`, with the size/kind of the bin searched
    fn lookup_cost(&self, k: u32, hashes: &[u64]) -> Option<(u64, usize, bool, usize)>;
}

#[derive(Default, Clone, Copy)]
pub struct SnapStats {
    pub count: isize,
    pub size_ctl: isize,
    pub len: usize,
    pub max_bin: usize,
    pub tree_bins: usize,
}

fn snap_stats<VV>(s: &Snapshot<'_, K, VV>) -> SnapStats {
    let mut st = SnapStats::default();
    st.count = s.count;
    st.size_ctl = s.size_ctl;
    if let Some(t) = &s.table {
        st.len = t.len;
        for b in &t.bins {
            match b {
                BinSnap::List(ns) => st.max_bin = st.max_bin.max(ns.len()),
                BinSnap::Tree { nodes, .. } => {
                    st.max_bin = st.max_bin.max(nodes.len());
                    st.tree_bins += 1;
                }
                _ => {}
            }
        }
    }
    st
}

fn mk_items(items: &[Item], hint: usize) -> HintIter<(K, V)> {
    HintIter {
        inner: items
            .iter()
            .map(|(k, ki, v, vi)| (K::new(*k, *ki), V::new(*v, *vi)))
            .collect::<Vec<_>>()
            .into_iter(),
        hint,
    }
}

fn bin_of<VV>(s: &Snapshot<'_, K, VV>, h: u64) -> Option<(usize, bool, usize)> {
    let t = s.table.as_ref()?;
    let i = (h as usize) & (t.len - 1);
    match &t.bins[i] {
        BinSnap::List(ns) => Some((ns.len(), false, t.len)),
        BinSnap::Tree { nodes, .. } => Some((nodes.len(), true, t.len)),
        _ => Some((0, false, t.len)),
    }
}

impl Target for HashMap<K, V, TableHasher> {
    fn new(cap: usize, th: TableHasher) -> Self {
        HashMap::with_capacity_and_hasher(cap, th)
    }
    fn collect(items: &[Item], hint: usize) -> Self {
        mk_items(items, hint).collect()
    }
    fn clone_(&self) -> Self {
        self.clone()
    }
    fn ins(&self, pin: bool, (k, ki, v, vi): &Item) -> String {
        if pin {
            opt_v(self.pin().insert(K::new(*k, *ki), V::new(*v, *vi)))
        } else {
            let g = self.guard();
            opt_v(self.insert(K::new(*k, *ki), V::new(*v, *vi), &g))
        }
    }
    fn tryins(&self, pin: bool, (k, ki, v, vi): &Item) -> String {
        let fmt = |r: Result<&V, flurry::TryInsertError<'_, V>>| match r {
            Ok(_) => "none".to_string(),
            Err(e) => {
                if (e.not_inserted.payload, e.not_inserted.origin) != (*v, *vi) {
                    return "refused-value-not-returned-intact".to_string();
                }
                format!("exists {} {}", e.current.payload, e.current.origin)
            }
        };
        if pin {
            fmt(self.pin().try_insert(K::new(*k, *ki), V::new(*v, *vi)))
        } else {
            let g = self.guard();
            fmt(self.try_insert(K::new(*k, *ki), V::new(*v, *vi), &g))
        }
    }
    fn get(&self, pin: bool, k: u32) -> String {
        let key = K::new(k, 0);
        if pin {
            opt_v(self.pin().get(&key))
        } else {
            let g = self.guard();
            opt_v(self.get(&key, &g))
        }
    }
    fn getkv(&self, pin: bool, k: u32) -> String {
        let key = K::new(k, 0);
        if pin {
            opt_kv(self.pin().get_key_value(&key))
        } else {
            let g = self.guard();
            opt_kv(self.get_key_value(&key, &g))
        }
    }
    fn has(&self, pin: bool, k: u32) -> String {
        let key = K::new(k, 0);
        if pin {
            self.pin().contains_key(&key).to_string()
        } else {
            let g = self.guard();
            self.contains_key(&key, &g).to_string()
        }
    }
    fn rm(&self, pin: bool, k: u32) -> String {
        let key = K::new(k, 0);
        if pin {
            opt_v(self.pin().remove(&key))
        } else {
            let g = self.guard();
            opt_v(self.remove(&key, &g))
        }
    }
    fn rme(&self, pin: bool, k: u32) -> String {
        let key = K::new(k, 0);
        if pin {
            opt_kv(self.pin().remove_entry(&key))
        } else {
            let g = self.guard();
            opt_kv(self.remove_entry(&key, &g))
        }
    }
    fn cip(&self, pin: bool, k: u32, f: &CipFn) -> String {
        let key = K::new(k, 0);
        let mut calls = 0u32;
        let f2 = |kk: &K, v: &V| -> Option<V> {
            calls += 1;
            assert_eq!(kk.id, k);
            match f {
                CipFn::Inc(n) => Some(V::new(v.payload + 1, *n)),
                CipFn::Same(n) => Some(V::new(v.payload, *n)),
                CipFn::Rm => None,
                CipFn::Panic => panic!("injected"),
            }
        };
        if pin {
            opt_v(self.pin().compute_if_present(&key, f2))
        } else {
            let g = self.guard();
            opt_v(self.compute_if_present(&key, f2, &g))
        }
    }
    fn retain(&self, pin: bool, force: bool, pred: &'static str, panic_at: Option<usize>) {
        let p = pred_fn(pred);
        let mut i = 0usize;
        let f2 = |kk: &K, v: &V| -> bool {
            if panic_at == Some(i) {
                panic!("injected");
            }
            i += 1;
            p(kk.id, v.payload)
        };
        if pin {
            if force {
                self.pin().retain_force(f2)
            } else {
                self.pin().retain(f2)
            }
        } else {
            let g = self.guard();
            if force {
                self.retain_force(f2, &g)
            } else {
                self.retain(f2, &g)
            }
        }
    }
    fn clear(&self, pin: bool) {
        if pin {
            self.pin().clear()
        } else {
            let g = self.guard();
            self.clear(&g)
        }
    }
    fn reserve(&self, pin: bool, n: usize) {
        if pin {
            self.pin().reserve(n)
        } else {
            let g = self.guard();
            self.reserve(n, &g)
        }
    }
    fn len(&self, pin: bool) -> usize {
        if pin {
            self.pin().len()
        } else {
            self.len()
        }
    }
    fn is_empty(&self, pin: bool) -> bool {
        if pin {
            self.pin().is_empty()
        } else {
            self.is_empty()
        }
    }
    fn iter(&self, pin: bool, th: &[u64]) -> (Vec<String>, bool) {
        let f = |it: &mut dyn Iterator<Item = (&K, &V)>| {
            it.map(|(k, v)| format!("{},{},{},{},{}", th[k.id as usize], k.id, k.origin, v.payload, v.origin))
                .collect::<Vec<_>>()
        };
        let items = if pin {
            let p = self.pin();
            let mut it = p.iter();
            f(&mut it)
        } else {
            let g = self.guard();
            let mut it = self.iter(&g);
            f(&mut it)
        };
        let g = self.guard();
        let ks: Vec<u32> = self.keys(&g).map(|k| k.id).collect();
        let vs: Vec<u32> = self.values(&g).map(|v| v.origin).collect();
        let ik: Vec<u32> = self.iter(&g).map(|(k, _)| k.id).collect();
        let iv: Vec<u32> = self.iter(&g).map(|(_, v)| v.origin).collect();
        // Index and Debug see the same entries
        let mut agree = ks == ik && vs == iv;
        {
            let p = self.pin();
            for (k, v) in self.iter(&g) {
                if p[k].origin != v.origin {
                    agree = false;
                }
            }
            let dbg = format!("{:?}", self);
            if dbg.matches("K {").count() != ik.len() {
                agree = false;
            }
        }
        (items, agree)
    }
    fn contents(&self) -> Vec<(u32, u32, u64, u32)> {
        let g = self.guard();
        let mut a: Vec<_> = self.iter(&g).map(|(k, v)| (k.id, k.origin, v.payload, v.origin)).collect();
        a.sort();
        a
    }
    fn snap(&self) -> (String, Vec<String>, SnapStats) {
        let g = self.guard();
        let s = self.verif_snapshot(&g);
        (fmt_snap(&s), { let mut e = validate_snapshot(&s, true); e.extend(seq_growth_due(&s)); e }, snap_stats(&s))
    }
    fn extend(&self, items: &[Item], hint: usize) {
        let mut r = self;
        std::iter::Extend::extend(&mut r, mk_items(items, hint));
    }
    fn eq(&self, other: &Self, pin: bool) -> bool {
        if pin {
            self.pin() == other.pin()
        } else {
            self == other
        }
    }
    fn rel(&self, _other: &Self, _rel: &str) -> Option<bool> {
        None
    }
    fn lookup_cost(&self, k: u32, hashes: &[u64]) -> Option<(u64, usize, bool, usize)> {
        let key = K::new(k, 0);
        let g = self.guard();
        reset_cmp_counters();
        let _ = self.get(&key, &g);
        let (e, c) = cmp_counters();
        let s = self.verif_snapshot(&g);
        let (n, tree, len) = bin_of(&s, hashes.get(k as usize).copied().unwrap_or(0))?;
        Some((e + c, n, tree, len))
    }
}

impl Target for HashSet<K, TableHasher> {
    fn new(cap: usize, th: TableHasher) -> Self {
        HashSet::with_capacity_and_hasher(cap, th)
    }
    fn collect(items: &[Item], hint: usize) -> Self {
        HintIter {
            inner: items.iter().map(|(k, ki, _, _)| K::new(*k, *ki)).collect::<Vec<_>>().into_iter(),
            hint,
        }
        .collect()
    }
    fn clone_(&self) -> Self {
        self.clone()
    }
    fn ins(&self, pin: bool, (k, ki, _, _): &Item) -> String {
        let fresh = if pin {
            self.pin().insert(K::new(*k, *ki))
        } else {
            let g = self.guard();
            self.insert(K::new(*k, *ki), &g)
        };
        if fresh { "none".into() } else { "some 0 0".into() }
    }
    fn tryins(&self, _pin: bool, _it: &Item) -> String {
        "unsupported".into()
    }
    fn get(&self, pin: bool, k: u32) -> String {
        let key = K::new(k, 0);
        let r = if pin {
            self.pin().get(&key).is_some()
        } else {
            let g = self.guard();
            self.get(&key, &g).is_some()
        };
        if r { "some 0 0".into() } else { "none".into() }
    }
    fn getkv(&self, pin: bool, k: u32) -> String {
        let key = K::new(k, 0);
        let f = |r: Option<&K>| match r {
            Some(kk) => format!("somekv {} 0 0", kk.origin),
            None => "none".into(),
        };
        if pin {
            f(self.pin().get(&key))
        } else {
            let g = self.guard();
            f(self.get(&key, &g))
        }
    }
    fn has(&self, pin: bool, k: u32) -> String {
        let key = K::new(k, 0);
        if pin {
            self.pin().contains(&key).to_string()
        } else {
            let g = self.guard();
            self.contains(&key, &g).to_string()
        }
    }
    fn rm(&self, pin: bool, k: u32) -> String {
        let key = K::new(k, 0);
        let r = if pin {
            self.pin().remove(&key)
        } else {
            let g = self.guard();
            self.remove(&key, &g)
        };
        if r { "some 0 0".into() } else { "none".into() }
    }
    fn rme(&self, pin: bool, k: u32) -> String {
        let key = K::new(k, 0);
        let f = |r: Option<&K>| match r {
            Some(kk) => format!("somekv {} 0 0", kk.origin),
            None => "none".into(),
        };
        if pin {
            f(self.pin().take(&key))
        } else {
            let g = self.guard();
            f(self.take(&key, &g))
        }
    }
    fn cip(&self, _pin: bool, _k: u32, _f: &CipFn) -> String {
        "unsupported".into()
    }
    fn retain(&self, pin: bool, _force: bool, pred: &'static str, panic_at: Option<usize>) {
        let p = pred_fn(pred);
        let mut i = 0usize;
        let f2 = |kk: &K| -> bool {
            if panic_at == Some(i) {
                panic!("injected");
            }
            i += 1;
            p(kk.id, 0)
        };
        if pin {
            self.pin().retain(f2)
        } else {
            let g = self.guard();
            self.retain(f2, &g)
        }
    }
    fn clear(&self, pin: bool) {
        if pin {
            self.pin().clear()
        } else {
            let g = self.guard();
            self.clear(&g)
        }
    }
    fn reserve(&self, pin: bool, n: usize) {
        if pin {
            self.pin().reserve(n)
        } else {
            let g = self.guard();
            self.reserve(n, &g)
        }
    }
    fn len(&self, pin: bool) -> usize {
        if pin {
            self.pin().len()
        } else {
            self.len()
        }
    }
    fn is_empty(&self, pin: bool) -> bool {
        if pin {
            self.pin().is_empty()
        } else {
            self.is_empty()
        }
    }
    fn iter(&self, pin: bool, th: &[u64]) -> (Vec<String>, bool) {
        let f = |it: &mut dyn Iterator<Item = &K>| {
            it.map(|k| format!("{},{},{},0,0", th[k.id as usize], k.id, k.origin)).collect::<Vec<_>>()
        };
        let items = if pin {
            let p = self.pin();
            let mut it = p.iter();
            f(&mut it)
        } else {
            let g = self.guard();
            let mut it = self.iter(&g);
            f(&mut it)
        };
        let dbg = format!("{:?}", self);
        (items.clone(), dbg.matches("K {").count() == items.len())
    }
    fn contents(&self) -> Vec<(u32, u32, u64, u32)> {
        let g = self.guard();
        let mut a: Vec<_> = self.iter(&g).map(|k| (k.id, k.origin, 0, 0)).collect();
        a.sort();
        a
    }
    fn snap(&self) -> (String, Vec<String>, SnapStats) {
        let m = self.verif_inner();
        let g = m.guard();
        let s = m.verif_snapshot(&g);
        (fmt_snap(&s), { let mut e = validate_snapshot(&s, true); e.extend(seq_growth_due(&s)); e }, snap_stats(&s))
    }
    fn extend(&self, items: &[Item], hint: usize) {
        let mut r = self;
        std::iter::Extend::extend(&mut r, HintIter {
            inner: items.iter().map(|(k, ki, _, _)| K::new(*k, *ki)).collect::<Vec<_>>().into_iter(),
            hint,
        });
    }
    fn eq(&self, other: &Self, pin: bool) -> bool {
        if pin {
            self.pin() == other.pin()
        } else {
            self == other
        }
    }
    fn rel(&self, other: &Self, rel: &str) -> Option<bool> {
        let (g1, g2) = (self.guard(), other.guard());
        match rel {
            "disjoint" => Some(self.is_disjoint(other, &g1, &g2)),
            "subset" => Some(self.is_subset(other, &g1, &g2)),
            "superset" => Some(self.is_superset(other, &g1, &g2)),
            _ => None,
        }
    }
    fn lookup_cost(&self, _k: u32, _hashes: &[u64]) -> Option<(u64, usize, bool, usize)> {
        None
    }
}

pub fn run_case(case: &Case) -> RunResult {
    match case.facade {
        Facade::MapGuard => run_case_on::<HashMap<K, V, TableHasher>>(case, false),
        Facade::MapPin => run_case_on::<HashMap<K, V, TableHasher>>(case, true),
        Facade::SetGuard => run_case_on::<HashSet<K, TableHasher>>(case, false),
        Facade::SetPin => run_case_on::<HashSet<K, TableHasher>>(case, true),
    }
}

fn oracle_put(o: &mut Oracle, (k, ki, v, vi): &Item) -> String {
    match o.get_mut(k) {
        Some(e) => {
            let s = format!("some {} {}", e.1, e.2);
            e.1 = *v;
            e.2 = *vi;
            s
        }
        None => {
            o.insert(*k, (*ki, *v, *vi));
            "none".into()
        }
    }
}

pub fn run_case_on<T: Target>(case: &Case, pin: bool) -> RunResult {
    let th = TableHasher {
        table: Arc::new(case.hashes.clone()),
    };
    set_default_table(th.table.clone());
    let mut slots: Vec<Option<T>> = vec![None, None, None, None];
    let mut oracles: Vec<Oracle> = vec![Oracle::new(), Oracle::new(), Oracle::new(), Oracle::new()];
    let mut cur = 0usize;
    let mut res = RunResult::default();
    // per slot: the statistics of the previous snapshot (None after the slot is (re)created)
    let mut last: Vec<Option<SnapStats>> = vec![None, None, None, None];
    let mut prev_op: Option<&Op> = None;
    // per slot: the room promised by `with_capacity(c)` / `reserve(a)`: (table length when the
    // call returned, entry count up to which that table has to do, which call)
    // the first operation of this case whose closure / predicate panicked (C18)
    let mut panicked_before: Option<String> = None;
    let mut promise: Vec<Option<(usize, isize, String)>> = vec![None, None, None, None];
    // the latest operation that was not a dump / read of the whole map: when the first difference of
    // a case shows up in the dump that follows it, that operation is the one that went wrong
    let mut prev_mut_op = String::new();
    let mut pending_prev: Option<String> = None;
    for (opi, op) in case.ops.iter().enumerate() {
        if let Some(p) = pending_prev.take() {
            prev_mut_op = p;
        }
        {
            let this_line = op.line(case);
            let head = this_line.split(' ').next().unwrap_or("");
            let read_only = ["snap", "len", "isempty", "iter", "keys", "values", "get", "getkv", "has", "contains", "debug", "eq", "index", "subset", "superset", "disjoint"].contains(&head);
            if !read_only {
                pending_prev = Some(this_line);
            }
        }
        crate::HEARTBEAT.fetch_add(1, std::sync::atomic::Ordering::Relaxed);
        let mut expect: Option<String> = None;
        let outcome = catch_unwind(AssertUnwindSafe(|| -> String {
            macro_rules! m {
                () => {
                    match &slots[cur] {
                        Some(m) => m,
                        None => return "bad-op no-map".to_string(),
                    }
                };
            }
            match op {
                Op::New { slot, cap } => {
                    slots[*slot] = Some(T::new(*cap, th.clone()));
                    last[*slot] = None;
                    oracles[*slot].clear();
                    cur = *slot;
                    promise[cur] = None;
                    if let Some(m) = &slots[cur] {
                        let (_, _, st) = m.snap();
                        if *cap == 0 && st.len != 0 {
                            res.failures.push(format!("[cap] case {} op {}: with_capacity(0) allocated a table of {} bins", case.id, opi, st.len));
                        }
                        if *cap > 0 && *cap < (1 << 29) {
                            promise[cur] = Some((st.len, *cap as isize, format!("with_capacity({})", cap)));
                        }
                    }
                    "ok".into()
                }
                Op::Use(s) => {
                    cur = *s;
                    "ok".into()
                }
                Op::Ins(it) => {
                    let m = m!();
                    expect = Some(oracle_put(&mut oracles[cur], it));
                    m.ins(pin, it)
                }
                Op::TryIns(it) => {
                    let m = m!();
                    let o = &mut oracles[cur];
                    expect = Some(match o.get(&it.0) {
                        Some(e) => format!("exists {} {}", e.1, e.2),
                        None => {
                            o.insert(it.0, (it.1, it.2, it.3));
                            "none".into()
                        }
                    });
                    m.tryins(pin, it)
                }
                Op::Get(k) => {
                    let m = m!();
                    expect = Some(match oracles[cur].get(k) {
                        Some(e) => format!("some {} {}", e.1, e.2),
                        None => "none".into(),
                    });
                    if let Some((cmps, n, tree, len)) = m.lookup_cost(*k, &case.hashes) {
                        if len >= 64 && n >= 8 {
                            res.tree_lookups += 1;
                            res.max_tree_cmp = res.max_tree_cmp.max(cmps);
                            let bound = (4.0 * ((n + 1) as f64).log2()).ceil() as u64 + 2;
                            if tree && cmps > bound {
                                res.failures.push(format!(
                                    "[cost] case {} op {}: get({}) in a tree bin of {} keys used {} key comparisons (> {})",
                                    case.id, opi, k, n, cmps, bound
                                ));
                            }
                            if !tree && n > 10 {
                                res.failures.push(format!(
                                    "[cost] case {} op {}: a list bin holds {} keys in a table of {} bins",
                                    case.id, opi, n, len
                                ));
                            }
                        }
                    }
                    m.get(pin, *k)
                }
                Op::GetKv(k) => {
                    let m = m!();
                    expect = Some(match oracles[cur].get(k) {
                        Some(e) => format!("somekv {} {} {}", e.0, e.1, e.2),
                        None => "none".into(),
                    });
                    m.getkv(pin, *k)
                }
                Op::Has(k) => {
                    let m = m!();
                    expect = Some(oracles[cur].contains_key(k).to_string());
                    m.has(pin, *k)
                }
                Op::Rm(k) => {
                    let m = m!();
                    expect = Some(match oracles[cur].remove(k) {
                        Some(e) => format!("some {} {}", e.1, e.2),
                        None => "none".into(),
                    });
                    m.rm(pin, *k)
                }
                Op::Rme(k) => {
                    let m = m!();
                    expect = Some(match oracles[cur].remove(k) {
                        Some(e) => format!("somekv {} {} {}", e.0, e.1, e.2),
                        None => "none".into(),
                    });
                    m.rme(pin, *k)
                }
                Op::Cip(k, f) => {
                    let m = m!();
                    let o = &mut oracles[cur];
                    expect = Some(match (o.get_mut(k), f) {
                        (None, _) => "none".into(),
                        (Some(_), CipFn::Panic) => "panic".into(),
                        (Some(e), CipFn::Inc(n)) => {
                            e.1 += 1;
                            e.2 = *n;
                            format!("some {} {}", e.1, e.2)
                        }
                        (Some(e), CipFn::Same(n)) => {
                            e.2 = *n;
                            format!("some {} {}", e.1, e.2)
                        }
                        (Some(_), CipFn::Rm) => {
                            o.remove(k);
                            "none".into()
                        }
                    });
                    m.cip(pin, *k, f)
                }
                Op::Retain { force, pred, panic_at } => {
                    let m = m!();
                    if panic_at.is_none() {
                        let p = pred_fn(pred);
                        oracles[cur].retain(|k, e| p(*k, e.1));
                        expect = Some("ok".into());
                    } else {
                        // which entries were processed before the panic depends on iteration
                        // order: the oracle is re-synchronised from the implementation below,
                        // the model must predict the state exactly
                    }
                    m.retain(pin, *force, pred, *panic_at);
                    "ok".into()
                }
                Op::Clear => {
                    let m = m!();
                    oracles[cur].clear();
                    m.clear(pin);
                    "ok".into()
                }
                Op::Reserve(n) => {
                    let m = m!();
                    m.reserve(pin, *n);
                    let (_, _, st) = m.snap();
                    promise[cur] = Some((st.len, st.count + *n as isize, format!("reserve({}) at {} entries", n, st.count)));
                    "ok".into()
                }
                Op::Len => {
                    let m = m!();
                    expect = Some(oracles[cur].len().to_string());
                    m.len(pin).to_string()
                }
                Op::IsEmpty => {
                    let m = m!();
                    expect = Some(oracles[cur].is_empty().to_string());
                    m.is_empty(pin).to_string()
                }
                Op::Iter => {
                    let m = m!();
                    let (items, agree) = m.iter(pin, &case.hashes);
                    let mut a = items.clone();
                    a.sort();
                    let mut b: Vec<String> = oracles[cur]
                        .iter()
                        .map(|(k, e)| format!("{},{},{},{},{}", case.hashes[*k as usize], k, e.0, e.1, e.2))
                        .collect();
                    b.sort();
                    if a != b {
                        expect = Some(format!("<the multiset {:?}>", b));
                    } else if !agree {
                        expect = Some("<keys()/values()/Index/Debug agreeing with iter()>".into());
                    }
                    items.join(";")
                }
                Op::Snap => {
                    let m = m!();
                    let (s, errs, st) = m.snap();
                    if !errs.is_empty() {
                        expect = Some(format!("<a well-formed table; problems: {:?}>", errs));
                    }
                    res.max_bin = res.max_bin.max(st.max_bin);
                    res.tree_bins_seen += st.tree_bins as u64;
                    if let (Some((plen, limit, what)), Some(p)) = (promise[cur].clone(), last[cur]) {
                        // "holds that many entries without growing its table": while the count is
                        // within the promise, only an overfull bin in a small table may grow it
                        let overfull = p.len < 64 && p.max_bin >= 8;
                        if st.len > plen && st.count <= limit && !overfull && matches!(prev_op, Some(Op::Ins(_)) | Some(Op::TryIns(_))) {
                            res.failures.push(format!(
                                "[cap] case {} op {}: {} left a table of {} bins that had to hold {} entries, but the insert `{}` that brought the count to {} grew it to {} bins (largest bin before: {})",
                                case.id, opi, what, plen, limit, prev_op.map(|o| o.line(case)).unwrap_or_default(), st.count, st.len, p.max_bin
                            ));
                        }
                        if st.len > plen || st.count > limit {
                            promise[cur] = None;
                        } else {
                            res.promise_checks += 1;
                        }
                    }
                    if let Some(p) = last[cur] {
                        if p.len != 0 && st.len > p.len {
                            res.resizes_seen += 1;
                        }
                        for e in capacity_rules(&p, &st, prev_op) {
                            res.failures.push(format!(
                                "[cap] case {} op {} after `{}`: {}",
                                case.id,
                                opi,
                                prev_op.map(|o| o.line(case)).unwrap_or_default(),
                                e
                            ));
                        }
                    }
                    if st.len != 0 && st.len < (1 << 30) && st.count >= st.size_ctl {
                        res.failures.push(format!(
                            "[cap] case {} op {}: at rest count={} has reached the growth threshold {} of a {}-bin table",
                            case.id, opi, st.count, st.size_ctl, st.len
                        ));
                    }
                    last[cur] = Some(st);
                    s
                }
                Op::Extend { hint, items } => {
                    let m = m!();
                    for it in items {
                        oracle_put(&mut oracles[cur], it);
                    }
                    m.extend(items, *hint);
                    "ok".into()
                }
                Op::Collect { slot, hint, items } => {
                    let o = &mut oracles[*slot];
                    o.clear();
                    for it in items {
                        oracle_put(o, it);
                    }
                    slots[*slot] = Some(T::collect(items, *hint));
                    last[*slot] = None;
                    cur = *slot;
                    "ok".into()
                }
                Op::CloneTo(d) => {
                    let c = m!().clone_();
                    slots[*d] = Some(c);
                    last[*d] = None;
                    oracles[*d] = oracles[cur].clone();
                    "ok".into()
                }
                Op::Rel(rel, a, b) => match (&slots[*a], &slots[*b]) {
                    (Some(ma), Some(mb)) => {
                        let (oa, ob) = (&oracles[*a], &oracles[*b]);
                        let want = match *rel {
                            "eq" => oa.len() == ob.len() && oa.iter().all(|(k, e)| ob.get(k).map(|f| f.1 == e.1).unwrap_or(false)),
                            "disjoint" => oa.keys().all(|k| !ob.contains_key(k)),
                            "subset" => oa.keys().all(|k| ob.contains_key(k)),
                            "superset" => ob.keys().all(|k| oa.contains_key(k)),
                            _ => return "bad-op".into(),
                        };
                        expect = Some(want.to_string());
                        if *rel == "eq" {
                            ma.eq(mb, pin).to_string()
                        } else {
                            match ma.rel(mb, rel) {
                                Some(b) => b.to_string(),
                                None => want.to_string(), // maps have no set relations: answered by the oracle
                            }
                        }
                    }
                    _ => "bad-op no-map".into(),
                },
            }
        }));
        let line = match outcome {
            Ok(s) => s,
            Err(_) => "panic".to_string(),
        };
        if let Some(e) = expect {
            if e != line {
                res.failures.push(format!(
                    "[answer:{}] case {} op {} `{}`: implementation answered `{}`, reference answered `{}`{}{}",
                    op.line(case).split(' ').next().unwrap_or(""),
                    case.id,
                    opi,
                    op.line(case),
                    line,
                    e,
                    panicked_before.as_ref().map(|p| format!(" (after a panic in op {})", p)).unwrap_or_default(),
                    if res.failures.is_empty() && !prev_mut_op.is_empty() { format!(" [first difference of the case; the preceding operation was `{}`]", prev_mut_op) } else { String::new() }
                ));
            }
        } else if let (Op::Retain { pred, panic_at: Some(_), .. }, "ok") = (op, line.as_str()) {
            // the injected index was beyond the number of predicate calls: a complete retain
            let p = pred_fn(pred);
            oracles[cur].retain(|k, e| p(*k, e.1));
        } else if line == "panic" {
            let injected = matches!(op, Op::Retain { panic_at: Some(_), .. });
            if !injected {
                res.failures
                    .push(format!("[panic] case {} op {} `{}` panicked", case.id, opi, op.line(case)));
            } else if let Some(m) = &slots[cur] {
                // re-synchronise the oracle: entries may only have been *removed*, and only ones
                // the predicate rejects
                let now = m.contents();
                let Op::Retain { pred, .. } = op else { unreachable!() };
                let p = pred_fn(pred);
                let o = &mut oracles[cur];
                let keys_now: std::collections::BTreeSet<u32> = now.iter().map(|e| e.0).collect();
                for (k, e) in o.clone() {
                    if !keys_now.contains(&k) {
                        if p(k, e.1) {
                            res.failures.push(format!(
                                "[retain] case {} op {}: retain removed key {} although the predicate accepts it",
                                case.id, opi, k
                            ));
                        }
                        o.remove(&k);
                    }
                }
            }
        }
        if line == "panic" && panicked_before.is_none() {
            panicked_before = Some(format!("{} `{}`", opi, op.line(case)));
        }
        res.lines.push(line);
        if !matches!(op, Op::Snap) {
            prev_op = Some(op);
        }
    }
    for (si, s) in slots.iter().enumerate() {
        if let Some(m) = s {
            let a = m.contents();
            let b: Vec<(u32, u32, u64, u32)> = oracles[si].iter().map(|(k, e)| (*k, e.0, e.1, e.2)).collect();
            if a != b {
                res.failures.push(format!(
                    "[final] case {} slot {}: final contents {:?} differ from the reference {:?}",
                    case.id, si, a, b
                ));
            }
            if m.len(false) != b.len() {
                res.failures.push(format!(
                    "[final] case {} slot {}: len() = {} but the reference has {}",
                    case.id,
                    si,
                    m.len(false),
                    b.len()
                ));
            }
        }
    }
    res
}

/// C14 oracle on two consecutive snapshots of one map and the operation between them.
/// "grows" = an existing table is replaced by a longer one (the first allocation is not growth).
pub fn capacity_rules(p: &SnapStats, n: &SnapStats, op: Option<&Op>) -> Vec<String> {
    let mut e = vec![];
    if n.len < p.len {
        e.push(format!("the table shrank from {} to {} bins", p.len, n.len));
    }
    if p.len == 0 || n.len == p.len {
        return e;
    }
    if n.len % p.len != 0 || !(n.len / p.len).is_power_of_two() {
        e.push(format!("the table went from {} to {} bins, not by doubling", p.len, n.len));
    }
    let thr = (p.len - (p.len >> 2)) as isize;
    match op {
        Some(Op::Ins(_)) | Some(Op::TryIns(_)) => {
            let crossed = n.count >= thr;
            let overfull = p.len < 64 && p.max_bin >= 8;
            if !crossed && !overfull {
                e.push(format!(
                    "an insert grew the table from {} to {} bins although the count ({}) is below three quarters of {} and no bin was overfull (largest bin before: {})",
                    p.len, n.len, n.count, p.len, p.max_bin
                ));
            }
        }
        Some(Op::Extend { .. }) | Some(Op::Reserve(_)) => {}
        Some(other) => {
            let removal = matches!(other, Op::Rm(_) | Op::Rme(_) | Op::Cip(..) | Op::Retain { .. } | Op::Clear);
            e.push(format!(
                "{} grew the table from {} to {} bins",
                if removal { "an operation that only removes or updates entries" } else { "a non-inserting operation" },
                p.len,
                n.len
            ));
        }
        None => {}
    }
    e
}
