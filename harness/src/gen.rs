//! Case generator for the sequential mode. Every choice derives from one PRNG state.
use crate::seq::*;
use crate::types::Rng;

pub const HASH_CLASSES: &[&str] = &[
    "uniform", "zero", "max", "const", "samebin", "fewbins", "highbits", "alternate", "ident", "split1side",
];

pub fn gen_hashes(rng: &mut Rng, class: &str, nkeys: usize) -> Vec<u64> {
    let mut v = vec![0u64; nkeys + 1];
    let c = rng.next();
    for k in 1..=nkeys {
        let kk = k as u64;
        v[k] = match class {
            "uniform" => rng.next(),
            "zero" => 0,
            "max" => u64::MAX,
            "const" => c,
            // same bin in every table up to 2^12 bins, different hashes
            "samebin" => (c & 0xfff) | (kk << 12),
            "fewbins" => rng.below(4),
            "highbits" => kk << 50,
            // consecutive resizes send neighbours to different halves
            "alternate" => (kk & 1) << 4 | (kk & 2) << 4 | (kk & 4) << 4 | (c & 0xf),
            "ident" => kk,
            // everything stays in the low half for several doublings, then all move at once
            "split1side" => (c & 0x7) | 0x1000,
            // keys 1..=20: one bin of a 64-bin table, different hashes, split by the next two
            // doublings; larger keys: spread over the other bins
            "split64" => {
                if kk <= 20 {
                    (c & 0x3f) | ((kk & 3) << 6) | (kk << 12)
                } else {
                    (((c & 0x3f) + kk - 20) & 0x3f) | ((kk & 1) << 6) | (kk << 12)
                }
            }
            _ => unreachable!(),
        };
    }
    v
}

pub struct GenCfg {
    pub max_ops: usize,
    pub max_keys: usize,
}

/// Capacity cases (C14): `with_capacity(c)` followed by `c` inserts of distinct well-distributed
/// keys, or some inserts, `reserve(a)`, and `a` further inserts, with a snapshot after each; `a`
/// is biased towards the values for which `len + a` is exactly a growth threshold.
fn gen_room_case(id: usize, seed: u64, rng: &mut Rng) -> Case {
    let facade = match rng.below(4) {
        0 | 1 => Facade::MapGuard,
        2 => Facade::MapPin,
        _ => Facade::SetGuard,
    };
    let is_set = matches!(facade, Facade::SetGuard | Facade::SetPin);
    let class = *rng.pick(&["uniform", "ident", "highbits"]);
    let nkeys = 140usize;
    let hashes = gen_hashes(rng, class, nkeys);
    let mut next_origin: u32 = 1;
    let mut next_key: u32 = 0;
    let mut ops = vec![];
    let mut ins = |ops: &mut Vec<Op>, rng: &mut Rng| {
        next_key += 1;
        next_origin += 2;
        let it = if is_set { (next_key, next_origin, 0, 0) } else { (next_key, next_origin, rng.below(6), next_origin + 1) };
        ops.push(Op::Ins(it));
        ops.push(Op::Snap);
    };
    if rng.chance(1, 3) {
        let c = 1 + rng.below(100) as usize;
        ops.push(Op::New { slot: 0, cap: c });
        ops.push(Op::Snap);
        for _ in 0..c {
            ins(&mut ops, rng);
        }
    } else {
        let cap = match rng.below(4) { 0 => 0, 1 => 1 + rng.below(20) as usize, _ => 0 };
        ops.push(Op::New { slot: 0, cap });
        ops.push(Op::Snap);
        let n0 = rng.below(30) as usize;
        for _ in 0..n0 {
            ins(&mut ops, rng);
        }
        let a = if rng.chance(2, 3) {
            // len + a on a threshold (three quarters of a power of two) or next to one
            let thr = *rng.pick(&[6usize, 12, 24, 48, 96]);
            let d = rng.below(3) as usize; // thr-1, thr, thr+1
            (thr + d).saturating_sub(1 + n0).max(1)
        } else {
            1 + rng.below(100) as usize
        };
        let a = a.min(nkeys - n0 - 2);
        ops.push(Op::Reserve(a));
        ops.push(Op::Snap);
        for _ in 0..a {
            ins(&mut ops, rng);
        }
    }
    // one more insert (may grow), a removal and a re-insert (must not grow)
    ins(&mut ops, rng);
    ops.push(Op::Rm(1));
    ops.push(Op::Snap);
    ops.push(Op::Len);
    Case { id, seed, facade, hash_class: class, hashes, ops }
}

/// Tree-bin life-cycle cases: fill one bin of a table with >= 64 bins until it is a tree, shrink
/// it by removals (in a removal order that may or may not trip the "too small" shape test), then
/// resize the table so that the bin is split / moved / untreeified, then keep using the map.
fn gen_tree_resize_case(id: usize, seed: u64, rng: &mut Rng) -> Case {
    let facade = match rng.below(4) {
        0 | 1 => Facade::MapGuard,
        2 => Facade::MapPin,
        _ => Facade::SetGuard,
    };
    let is_set = matches!(facade, Facade::SetGuard | Facade::SetPin);
    let class = *rng.pick(&["zero", "const", "max", "samebin", "split1side", "alternate", "split64"]);
    let nkeys = 9 + rng.below(12) as usize;
    let hashes = gen_hashes(rng, class, nkeys);
    let mut next_origin: u32 = 1;
    let mut fresh = || {
        next_origin += 1;
        next_origin
    };
    let cap = *rng.pick(&[64usize, 43, 100, 170]);
    let mut ops = vec![Op::New { slot: 0, cap }, Op::Snap];
    let mut order: Vec<u32> = (1..=nkeys as u32).collect();
    match rng.below(3) {
        0 => {}
        1 => order.reverse(),
        _ => {
            for i in (1..order.len()).rev() {
                order.swap(i, rng.below(i as u64 + 1) as usize);
            }
        }
    }
    for k in &order {
        let it = if is_set { (*k, fresh(), 0, 0) } else { (*k, fresh(), rng.below(6), fresh()) };
        ops.push(Op::Ins(it));
        ops.push(Op::Snap);
    }
    // shrink: remove from the top, from the bottom, or at random, down to 1..=8 entries
    let keep = 1 + rng.below(8) as usize;
    let mut victims: Vec<u32> = (1..=nkeys as u32).collect();
    match rng.below(3) {
        0 => victims.reverse(),
        1 => {}
        _ => {
            for i in (1..victims.len()).rev() {
                victims.swap(i, rng.below(i as u64 + 1) as usize);
            }
        }
    }
    for k in victims.iter().take(nkeys.saturating_sub(keep)) {
        ops.push(match rng.below(4) {
            0 if !is_set => Op::Cip(*k, CipFn::Rm),
            1 => Op::Rme(*k),
            _ => Op::Rm(*k),
        });
        ops.push(Op::Snap);
    }
    // resize (possibly twice)
    for _ in 0..(1 + rng.below(2)) {
        ops.push(Op::Reserve(60 + rng.below(200) as usize));
        ops.push(Op::Snap);
        if rng.chance(1, 2) {
            let k = 1 + rng.below(nkeys as u64) as u32;
            let it = if is_set { (k, fresh(), 0, 0) } else { (k, fresh(), rng.below(6), fresh()) };
            ops.push(Op::Ins(it));
            ops.push(Op::Snap);
        }
    }
    for _ in 0..rng.below(4) {
        let k = 1 + rng.below(nkeys as u64) as u32;
        ops.push(if rng.chance(1, 2) { Op::Rm(k) } else { Op::Get(k) });
        ops.push(Op::Snap);
    }
    ops.push(Op::Iter);
    ops.push(Op::Len);
    Case { id, seed, facade, hash_class: class, hashes, ops }
}

pub fn gen_case(id: usize, seed: u64, cfg: &GenCfg) -> Case {
    let mut rng = Rng(seed ^ 0xC0FFEE);
    if rng.chance(1, 10) {
        return gen_room_case(id, seed, &mut rng);
    }
    if rng.chance(1, 9) {
        return gen_tree_resize_case(id, seed, &mut rng);
    }
    let facade = match rng.below(8) {
        0..=3 => Facade::MapGuard,
        4 | 5 => Facade::MapPin,
        6 => Facade::SetGuard,
        _ => Facade::SetPin,
    };
    let is_set = matches!(facade, Facade::SetGuard | Facade::SetPin);
    let class = *rng.pick(HASH_CLASSES);
    let nkeys = match rng.below(4) {
        0 => 4 + rng.below(5) as usize,
        1 => 9 + rng.below(8) as usize,
        _ => 12 + rng.below((cfg.max_keys - 12) as u64 + 1) as usize,
    };
    let hashes = gen_hashes(&mut rng, class, nkeys);
    let cap = match rng.below(6) {
        0 => 0,
        1 => 1 + rng.below(4) as usize,
        2 => rng.below(41) as usize,
        3 => 64,
        4 => 43 + rng.below(60) as usize,
        _ => 0,
    };
    let nops = 8 + rng.below((cfg.max_ops - 8) as u64 + 1) as usize;
    let mut ops = vec![Op::New { slot: 0, cap }, Op::Snap];
    let mut next_origin: u32 = 1;
    let mut fresh = || {
        next_origin += 1;
        next_origin
    };
    // degenerate stream: mostly lookups/removals on an empty or tiny map
    let degenerate = rng.chance(1, 12);
    // a case that fills a bin: insert-heavy
    let insert_heavy = rng.chance(1, 3);
    let key = |rng: &mut Rng| 1 + rng.below(nkeys as u64) as u32;
    let mut slot1 = false;
    for _ in 0..nops {
        let r = rng.below(100);
        let item = |rng: &mut Rng, fresh: &mut dyn FnMut() -> u32| -> Item {
            let k = key(rng);
            if is_set {
                (k, fresh(), 0, 0)
            } else {
                (k, fresh(), rng.below(6), fresh())
            }
        };
        let (w_ins, w_rm) = if degenerate { (5, 40) } else if insert_heavy { (55, 8) } else { (32, 16) };
        let op = if r < w_ins {
            Op::Ins(item(&mut rng, &mut fresh))
        } else if r < w_ins + w_rm {
            if rng.chance(1, 2) { Op::Rm(key(&mut rng)) } else { Op::Rme(key(&mut rng)) }
        } else {
            match rng.below(30) {
                0..=2 if !is_set => Op::TryIns(item(&mut rng, &mut fresh)),
                3..=5 => Op::Get(key(&mut rng)),
                6 => Op::GetKv(key(&mut rng)),
                7 => Op::Has(key(&mut rng)),
                8..=11 if !is_set => {
                    let k = key(&mut rng);
                    let f = match rng.below(8) {
                        0..=2 => CipFn::Inc(fresh()),
                        3 => CipFn::Same(fresh()),
                        4..=6 => CipFn::Rm,
                        _ => CipFn::Panic,
                    };
                    Op::Cip(k, f)
                }
                12 | 13 => {
                    let preds: &[&'static str] = if is_set { &["even", "odd", "all", "none", "k3"] } else { &["even", "odd", "all", "none", "veven", "k3"] };
                    let pred = *rng.pick(preds);
                    let panic_at = if rng.chance(1, 3) { Some(rng.below(6) as usize) } else { None };
                    Op::Retain { force: !is_set && rng.chance(1, 2), pred, panic_at }
                }
                14 => if rng.chance(1, 3) { Op::Clear } else { Op::Len },
                15 => Op::Reserve(rng.below(40) as usize),
                16 => Op::Len,
                17 => Op::IsEmpty,
                18 | 19 => Op::Iter,
                20 => {
                    let n = rng.below(12) as usize;
                    let items: Vec<Item> = (0..n).map(|_| item(&mut rng, &mut fresh)).collect();
                    let hint = match rng.below(3) { 0 => 0, 1 => n, _ => rng.below(n as u64 + 1) as usize };
                    Op::Extend { hint, items }
                }
                21 => {
                    slot1 = true;
                    Op::CloneTo(1)
                }
                22 | 23 if slot1 => {
                    let rels: &[&'static str] = &["eq", "disjoint", "subset", "superset"];
                    let (a, b) = if rng.chance(1, 2) { (0, 1) } else { (1, 0) };
                    Op::Rel(*rng.pick(rels), a, b)
                }
                24 => {
                    let n = rng.below(30) as usize;
                    let items: Vec<Item> = (0..n).map(|_| item(&mut rng, &mut fresh)).collect();
                    let hint = match rng.below(3) { 0 => 0, 1 => n.saturating_sub(1), _ => rng.below(n as u64 + 1) as usize };
                    ops.push(Op::Collect { slot: 2, hint, items });
                    ops.push(Op::Snap);
                    ops.push(Op::Iter);
                    Op::Use(0)
                }
                _ => Op::Get(key(&mut rng)),
            }
        };
        let mutating = matches!(
            op,
            Op::Ins(_) | Op::TryIns(_) | Op::Rm(_) | Op::Rme(_) | Op::Cip(..) | Op::Retain { .. } | Op::Clear | Op::Reserve(_) | Op::Extend { .. }
        );
        let is_clone = matches!(op, Op::CloneTo(_));
        ops.push(op);
        if mutating {
            ops.push(Op::Snap);
        }
        if is_clone {
            ops.push(Op::Use(1));
            ops.push(Op::Snap);
            ops.push(Op::Use(0));
            ops.push(Op::Rel("eq", 0, 1));
        }
    }
    ops.push(Op::Iter);
    ops.push(Op::Len);
    Case { id, seed, facade, hash_class: class, hashes, ops }
}
