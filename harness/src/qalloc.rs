//! Quarantine allocator: while quarantine is on, freed blocks are not returned to the system
//! allocator but logged and poisoned, so that (a) a use-after-free cannot corrupt the heap of the
//! harness, (b) a second free of the same block is seen as such, (c) the ledger can tell whether
//! an address reported by a hook lies in a block that has been freed.
use std::alloc::{GlobalAlloc, Layout, System};
use std::collections::BTreeMap;
use std::sync::atomic::{AtomicBool, AtomicUsize, Ordering};
use std::sync::Mutex;

const CAP: usize = 1 << 20;

pub struct QAlloc;

static ON: AtomicBool = AtomicBool::new(false);
static LEN: AtomicUsize = AtomicUsize::new(0);
static PTRS: [AtomicUsize; CAP] = [const { AtomicUsize::new(0) }; CAP];
static SIZES: [AtomicUsize; CAP] = [const { AtomicUsize::new(0) }; CAP];
static ALIGNS: [AtomicUsize; CAP] = [const { AtomicUsize::new(0) }; CAP];

unsafe impl GlobalAlloc for QAlloc {
    unsafe fn alloc(&self, l: Layout) -> *mut u8 {
        System.alloc(l)
    }
    unsafe fn dealloc(&self, p: *mut u8, l: Layout) {
        if ON.load(Ordering::Relaxed) && l.size() >= 8 {
            let i = LEN.fetch_add(1, Ordering::SeqCst);
            if i < CAP {
                PTRS[i].store(p as usize, Ordering::SeqCst);
                SIZES[i].store(l.size(), Ordering::SeqCst);
                ALIGNS[i].store(l.align(), Ordering::SeqCst);
                // poison everything: a stale pointer read from here is not dereferenceable
                std::ptr::write_bytes(p, 0xDD, l.size());
                return;
            }
        }
        System.dealloc(p, l)
    }
    unsafe fn realloc(&self, p: *mut u8, l: Layout, new_size: usize) -> *mut u8 {
        System.realloc(p, l, new_size)
    }
}

/// freed blocks known so far: start -> (size, log index)
pub struct Freed {
    pub map: BTreeMap<usize, (usize, usize)>,
    pub consumed: usize,
    pub double_frees: Vec<usize>,
}

pub static FREED: Mutex<Freed> = Mutex::new(Freed { map: BTreeMap::new(), consumed: 0, double_frees: vec![] });

pub fn begin() {
    end();
    ON.store(true, Ordering::SeqCst);
}

/// pull new log entries into the map (call from harness code, never from the allocator)
pub fn sync() {
    let n = LEN.load(Ordering::SeqCst).min(CAP);
    let mut f = FREED.lock().unwrap();
    while f.consumed < n {
        let i = f.consumed;
        let p = PTRS[i].load(Ordering::SeqCst);
        let s = SIZES[i].load(Ordering::SeqCst);
        if p != 0 {
            if f.map.contains_key(&p) {
                f.double_frees.push(p);
            } else {
                f.map.insert(p, (s, i));
            }
        }
        f.consumed += 1;
    }
}

/// is `addr` inside a block that has been freed? returns (block start, size, log index)
pub fn freed_block_of(addr: usize) -> Option<(usize, usize, usize)> {
    let f = FREED.lock().unwrap();
    let (start, (size, idx)) = f.map.range(..=addr).next_back()?;
    if addr < start + size {
        Some((*start, *size, *idx))
    } else {
        None
    }
}

pub fn log_len() -> usize {
    LEN.load(Ordering::SeqCst)
}

pub fn take_double_frees() -> Vec<usize> {
    sync();
    std::mem::take(&mut FREED.lock().unwrap().double_frees)
}

/// stop quarantining and really free everything that was held back
pub fn end() {
    ON.store(false, Ordering::SeqCst);
    sync();
    let mut f = FREED.lock().unwrap();
    let n = LEN.load(Ordering::SeqCst).min(CAP);
    let mut seen = std::collections::HashSet::new();
    for i in 0..n {
        let p = PTRS[i].swap(0, Ordering::SeqCst);
        let s = SIZES[i].load(Ordering::SeqCst);
        let a = ALIGNS[i].load(Ordering::SeqCst);
        if p != 0 && seen.insert(p) {
            unsafe { System.dealloc(p as *mut u8, Layout::from_size_align_unchecked(s, a)) };
        }
    }
    LEN.store(0, Ordering::SeqCst);
    f.map.clear();
    f.consumed = 0;
    f.double_frees.clear();
}
