//! Unscheduled stress runs (supporting search, never a proof): real OS threads, heavily
//! oversubscribed, hammer fresh small maps so that threads are preempted inside the resize and
//! bin protocols. Every thread owns a disjoint set of keys, so
//!  * every answer on an own key is determined by the thread's own history (checked on the spot),
//!  * the final contents are the union of the threads' private models (checked at quiescence
//!    together with `len()`, iteration, the structural validator and the control words),
//!  * dropping the map must not panic.
//! A round that does not finish within the watchdog time is reported as a hang.
use crate::seq::validate_snapshot;
use crate::types::*;
use flurry::HashMap;
use std::collections::BTreeMap;
use std::sync::atomic::{AtomicBool, Ordering};
use std::sync::{Arc, Barrier};

type M = HashMap<K, V, TableHasher>;

const SLOTS: usize = 64;

#[derive(Clone, Copy)]
enum SOp {
    Ins(usize),
    Rm(usize),
    Cip(usize),
    Get(usize),
    Foreign(u32),
    Reserve(usize),
}

fn key_of(t: usize, slot: usize) -> u32 {
    (t * SLOTS + slot + 1) as u32
}

pub struct StressReport {
    pub rounds: usize,
    pub ops: usize,
    pub failures: Vec<String>,
    pub max_table: usize,
    pub rounds_with_resize: usize,
    pub rounds_with_tree: usize,
}

pub fn run(seed: u64, secs: u64, threads: usize) -> StressReport {
    let deadline = std::time::Instant::now() + std::time::Duration::from_secs(secs);
    let mut rep = StressReport { rounds: 0, ops: 0, failures: vec![], max_table: 0, rounds_with_resize: 0, rounds_with_tree: 0 };
    LEDGER_OFF.store(true, Ordering::SeqCst);
    let mut rng = Rng(seed ^ 0x57AE55);
    while std::time::Instant::now() < deadline && rep.failures.is_empty() {
        let rseed = rng.next();
        rep.rounds += 1;
        let mut r = Rng(rseed);
        let nkeys = threads * SLOTS + 1;
        let class = *r.pick(&["ident", "ident", "clustered", "fewbins", "uniform"]);
        let c = r.next();
        let hashes: Vec<u64> = (0..=nkeys as u64)
            .map(|k| match class {
                "ident" => k,
                "uniform" => k.wrapping_mul(0x9E3779B97F4A7C15) ^ c,
                // few bins, different hashes: tree bins and their splits
                "clustered" => (k % 5) | ((k & 0x3) << 8) | (k << 20),
                _ => k % 7,
            })
            .collect();
        let th = TableHasher { table: Arc::new(hashes) };
        let cap = *r.pick(&[0usize, 0, 0, 1, 8, 40]);
        let per = 8 + r.below(32) as usize;
        let insert_heavy = r.chance(2, 3);
        let map: Arc<M> = Arc::new(HashMap::with_capacity_and_hasher(cap, th));
        let start_len = {
            let g = map.guard();
            map.verif_snapshot(&g).table.as_ref().map(|t| t.len).unwrap_or(0)
        };
        let barrier = Arc::new(Barrier::new(threads));
        let failed = Arc::new(AtomicBool::new(false));
        let mut handles = vec![];
        for t in 0..threads {
            let mut tr = Rng(rseed ^ (t as u64).wrapping_mul(0xA24BAED4963EE407));
            let prog: Vec<SOp> = (0..per)
                .map(|i| {
                    let slot = if insert_heavy { i % SLOTS } else { tr.below(12) as usize };
                    match tr.below(20) {
                        0..=9 => SOp::Ins(slot),
                        10..=12 if !insert_heavy => SOp::Rm(slot),
                        10 => SOp::Rm(tr.below(SLOTS as u64) as usize),
                        13 | 14 => SOp::Cip(slot),
                        15 => SOp::Foreign(1 + tr.below((threads * SLOTS) as u64) as u32),
                        16 if tr.chance(1, 8) => SOp::Reserve(tr.below(200) as usize),
                        17 | 18 => SOp::Get(slot),
                        _ => SOp::Ins(slot),
                    }
                })
                .collect();
            let map = map.clone();
            let barrier = barrier.clone();
            let failed = failed.clone();
            handles.push(std::thread::spawn(move || -> (BTreeMap<u32, (u64, u32)>, Vec<String>, usize) {
                let mut model: BTreeMap<u32, (u64, u32)> = BTreeMap::new();
                let mut errs = vec![];
                let mut version = 0u32;
                barrier.wait();
                let mut n = 0;
                for op in &prog {
                    if failed.load(Ordering::Relaxed) {
                        break;
                    }
                    n += 1;
                    let g = map.guard();
                    let fmt = |v: Option<&V>| v.map(|v| (v.payload, v.origin));
                    match *op {
                        SOp::Ins(s) => {
                            let k = key_of(t, s);
                            version += 1;
                            let o = k * 1000 + version % 1000;
                            let got = fmt(map.insert(K::new(k, o), V::new(version as u64, o), &g));
                            let want = model.insert(k, (version as u64, o));
                            if got != want {
                                errs.push(format!("own-key history: insert({}) returned {:?}, this thread's own history says {:?}", k, got, want));
                            }
                        }
                        SOp::Rm(s) => {
                            let k = key_of(t, s);
                            let got = fmt(map.remove(&K::new(k, 0), &g));
                            let want = model.remove(&k);
                            if got != want {
                                errs.push(format!("own-key history: remove({}) returned {:?}, this thread's own history says {:?}", k, got, want));
                            }
                        }
                        SOp::Cip(s) => {
                            let k = key_of(t, s);
                            version += 1;
                            let o = k * 1000 + version % 1000;
                            let got = fmt(map.compute_if_present(&K::new(k, 0), |_, v| Some(V::new(v.payload + 1000, o)), &g));
                            let want = model.get(&k).map(|(p, _)| (p + 1000, o));
                            if let Some(w) = want {
                                model.insert(k, w);
                            }
                            if got != want {
                                errs.push(format!("own-key history: compute_if_present({}) returned {:?}, this thread's own history says {:?}", k, got, want));
                            }
                        }
                        SOp::Get(s) => {
                            let k = key_of(t, s);
                            let got = fmt(map.get(&K::new(k, 0), &g));
                            let want = model.get(&k).copied();
                            if got != want {
                                errs.push(format!("own-key history: get({}) returned {:?}, this thread's own history says {:?}", k, got, want));
                            }
                        }
                        SOp::Foreign(k) => {
                            if let Some(v) = map.get(&K::new(k, 0), &g) {
                                if v.origin / 1000 != k {
                                    errs.push(format!("foreign read: get({}) returned a value written for key {}", k, v.origin / 1000));
                                }
                            }
                        }
                        SOp::Reserve(a) => map.reserve(a, &g),
                    }
                    if !errs.is_empty() {
                        failed.store(true, Ordering::Relaxed);
                        break;
                    }
                }
                (model, errs, n)
            }));
        }
        // watchdog
        let t0 = std::time::Instant::now();
        while handles.iter().any(|h| !h.is_finished()) {
            if t0.elapsed().as_secs() > 40 {
                rep.failures.push(format!("[stress-hang] a round of {} threads x {} operations did not finish within 40 s [round-seed {}] cap={} hash={}", threads, per, rseed, cap, class));
                std::mem::forget(map);
                return rep;
            }
            std::thread::sleep(std::time::Duration::from_millis(2));
        }
        let mut expected: BTreeMap<u32, (u64, u32)> = BTreeMap::new();
        let mut errs = vec![];
        for h in handles {
            match h.join() {
                Ok((m, e, n)) => {
                    expected.extend(m);
                    errs.extend(e);
                    rep.ops += n;
                }
                Err(_) => errs.push("a worker thread panicked inside a map operation".into()),
            }
        }
        if errs.is_empty() {
            let g = map.guard();
            let mut got: BTreeMap<u32, (u64, u32)> = BTreeMap::new();
            let mut dup = 0;
            for (k, v) in map.iter(&g) {
                if got.insert(k.id, (v.payload, v.origin)).is_some() {
                    dup += 1;
                }
            }
            if dup > 0 {
                errs.push(format!("quiescent: iteration yields {} keys twice", dup));
            }
            if got != expected {
                let missing: Vec<u32> = expected.keys().filter(|k| !got.contains_key(k)).copied().take(5).collect();
                let extra: Vec<u32> = got.keys().filter(|k| !expected.contains_key(k)).copied().take(5).collect();
                errs.push(format!("quiescent: contents differ from the union of the threads' histories: {} expected, {} found, missing e.g. {:?}, unexpected e.g. {:?}", expected.len(), got.len(), missing, extra));
            }
            for (k, e) in expected.iter().take(4000) {
                let v = map.get(&K::new(*k, 0), &g).map(|v| (v.payload, v.origin));
                if v != Some(*e) {
                    errs.push(format!("quiescent: get({}) = {:?}, expected {:?}", k, v, e));
                    break;
                }
            }
            if map.len() != expected.len() {
                errs.push(format!("quiescent: len() = {} but {} entries", map.len(), expected.len()));
            }
            let snap = map.verif_snapshot(&g);
            for w in validate_snapshot(&snap, true) {
                errs.push(format!("quiescent: {}", w));
            }
            if let Some(t) = &snap.table {
                rep.max_table = rep.max_table.max(t.len);
                if t.len > start_len.max(16) {
                    rep.rounds_with_resize += 1;
                }
                if t.bins.iter().any(|b| matches!(b, flurry::verif_inspect::BinSnap::Tree { .. })) {
                    rep.rounds_with_tree += 1;
                }
            }
        }
        if errs.is_empty() {
            match Arc::try_unwrap(map) {
                Ok(m) => {
                    if std::panic::catch_unwind(std::panic::AssertUnwindSafe(move || drop(m))).is_err() {
                        errs.push("drop: dropping the map panicked".into());
                    }
                }
                Err(m) => std::mem::forget(m),
            }
        } else {
            std::mem::forget(map);
        }
        for e in errs.into_iter().take(5) {
            rep.failures.push(format!("[stress] {} [round-seed {}] threads={} ops/thread={} cap={} hash={}", e, rseed, threads, per, cap, class));
        }
    }
    rep
}
