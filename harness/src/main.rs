mod bulk;
mod conc;
mod gen;
mod guards;
mod hb;
mod life;
mod qalloc;
mod sched;
mod scenarios;
mod seq;
mod stress;
mod types;

#[global_allocator]
static GLOBAL: qalloc::QAlloc = qalloc::QAlloc;

use std::fmt::Write as _;
use std::io::Write as _;

fn arg(args: &[String], name: &str) -> Option<String> {
    args.iter().position(|a| a == name).and_then(|i| args.get(i + 1).cloned())
}

fn json_str(s: &str) -> String {
    let mut o = String::from("\"");
    for c in s.chars() {
        match c {
            '"' => o.push_str("\\\""),
            '\\' => o.push_str("\\\\"),
            '\n' => o.push_str("\\n"),
            c if (c as u32) < 0x20 => { let _ = write!(o, "\\u{:04x}", c as u32); }
            c => o.push(c),
        }
    }
    o.push('"');
    o
}
fn json_list(v: &[String]) -> String {
    format!("[{}]", v.iter().map(|s| json_str(s)).collect::<Vec<_>>().join(","))
}

/// progress counter of the unscheduled suites (bumped per operation); the watchdog turns a
/// sequential operation that never returns into a report instead of a hung check
pub static HEARTBEAT: std::sync::atomic::AtomicU64 = std::sync::atomic::AtomicU64::new(0);
pub static WATCH_PROGRESS_FILE: std::sync::Mutex<Option<String>> = std::sync::Mutex::new(None);

fn start_watchdog(limit_secs: u64) {
    std::thread::spawn(move || {
        let mut last = HEARTBEAT.load(std::sync::atomic::Ordering::Relaxed);
        let mut still = 0u64;
        loop {
            std::thread::sleep(std::time::Duration::from_secs(1));
            let now = HEARTBEAT.load(std::sync::atomic::Ordering::Relaxed);
            if now == last {
                still += 1;
            } else {
                still = 0;
                last = now;
            }
            if still >= limit_secs {
                let at = WATCH_PROGRESS_FILE.lock().ok().and_then(|g| g.clone()).and_then(|p| std::fs::read_to_string(p).ok()).unwrap_or_default();
                println!("HANG no operation returned for {} s while running {}", limit_secs, at);
                std::process::exit(97);
            }
        }
    });
}

fn main() {
    let args: Vec<String> = std::env::args().collect();
    if args.len() < 2 {
        eprintln!("usage: flurry-harness <seq|...> [options]");
        std::process::exit(2);
    }
    // injected panics are expected: keep stderr quiet
    std::panic::set_hook(Box::new(|_| {}));
    // measured on a scratch map before any hook consumer is active
    life::init_lock_offsets();
    sched::install();
    if matches!(args[1].as_str(), "seq" | "seq-replay" | "bulk") {
        start_watchdog(30);
    }
    match args[1].as_str() {
        "seq" => cmd_seq(&args),
        "seq-replay" => cmd_seq_replay(&args),
        "guards" => cmd_guards(),
        "bulk" => cmd_bulk(&args),
        "conc" => cmd_conc(&args),
        "stress" => cmd_stress(&args),
        other => {
            eprintln!("unknown command {}", other);
            std::process::exit(2);
        }
    }
}

/// stress --seed S --secs N --threads T
fn cmd_stress(args: &[String]) {
    let seed: u64 = arg(args, "--seed").and_then(|s| s.parse().ok()).unwrap_or(1);
    let secs: u64 = arg(args, "--secs").and_then(|s| s.parse().ok()).unwrap_or(5);
    let threads: usize = arg(args, "--threads").and_then(|s| s.parse().ok()).unwrap_or(4 * std::thread::available_parallelism().map(|n| n.get()).unwrap_or(4));
    let r = stress::run(seed, secs, threads);
    println!(
        "{{\"rounds\":{},\"ops\":{},\"threads\":{},\"max_table\":{},\"rounds_with_resize\":{},\"rounds_with_tree\":{},\"failures\":{}}}",
        r.rounds, r.ops, threads, r.max_table, r.rounds_with_resize, r.rounds_with_tree, json_list(&r.failures)
    );
}

/// seq --seed S --cases N --max-ops M --ops FILE --impl FILE --report FILE
fn cmd_seq(args: &[String]) {
    let seed: u64 = arg(args, "--seed").and_then(|s| s.parse().ok()).unwrap_or(1);
    let cases: usize = arg(args, "--cases").and_then(|s| s.parse().ok()).unwrap_or(100);
    let max_ops: usize = arg(args, "--max-ops").and_then(|s| s.parse().ok()).unwrap_or(60);
    let max_keys: usize = arg(args, "--max-keys").and_then(|s| s.parse().ok()).unwrap_or(40);
    let ops_path = arg(args, "--ops").unwrap_or("/tmp/ops.txt".into());
    let impl_path = arg(args, "--impl").unwrap_or("/tmp/impl.txt".into());
    let report_path = arg(args, "--report");
    let life = arg(args, "--life").map(|s| s == "1").unwrap_or(false);
    let progress = arg(args, "--progress");
    let cfg = gen::GenCfg { max_ops, max_keys };
    let mut ops_f = std::io::BufWriter::new(std::fs::File::create(&ops_path).unwrap());
    let mut impl_f = std::io::BufWriter::new(std::fs::File::create(&impl_path).unwrap());
    let mut failures: Vec<String> = vec![];
    let mut total_ops = 0usize;
    let mut by_class: std::collections::BTreeMap<String, usize> = Default::default();
    let mut by_facade: std::collections::BTreeMap<String, usize> = Default::default();
    let mut by_op: std::collections::BTreeMap<String, usize> = Default::default();
    let mut promise_checks = 0u64;
    let (mut max_tree_cmp, mut tree_lookups, mut max_bin, mut tree_bins, mut resizes) = (0u64, 0u64, 0usize, 0u64, 0u64);
    let mut nontrivial = std::collections::HashSet::new();
    let mut samples = vec![];
    types::ledger_reset(false);
    for i in 0..cases {
        let cseed = seed.wrapping_mul(0x9E3779B97F4A7C15).wrapping_add(i as u64);
        let case = gen::gen_case(i, cseed, &cfg);
        let header = format!("# case {} seed={} facade={:?} hash={}", i, cseed, case.facade, case.hash_class);
        writeln!(ops_f, "{}", header).unwrap();
        writeln!(impl_f, "{}", header).unwrap();
        if let Some(p) = &progress {
            let _ = std::fs::write(p, format!("seq case-seed {}", cseed));
            *WATCH_PROGRESS_FILE.lock().unwrap() = Some(p.clone());
        }
        HEARTBEAT.fetch_add(1, std::sync::atomic::Ordering::Relaxed);
        let mut res;
        if life {
            // record every hook event of this (unscheduled) thread, keep freed memory in quarantine
            let s = sched::Sched::new(0, true);
            qalloc::begin();
            types::ledger_reset(false);
            res = sched::with_recording(|| seq::run_case(&case));
            let trace = s.inner.lock().unwrap().trace.clone();
            res.failures.extend(life::analyze(&trace, &[], &[]).into_iter().map(|f| format!("{} case {}", f, i)));
            res.failures.extend(life::lock_discipline(&trace).into_iter().map(|f| format!("{} case {}", f, i)));
            res.failures.extend(life::unlocked_writes(&trace).into_iter().map(|f| format!("{} case {}", f, i)));
            for p in qalloc::take_double_frees() {
                res.failures.push(format!("[double-free] case {}: block {:#x} was freed twice", i, p));
            }
            res.failures.extend(life::ledger_verdict().into_iter().map(|f| format!("{} case {}", f, i)));
            s.shutdown();
            qalloc::end();
        } else {
            res = seq::run_case(&case);
        }
        let mut text = String::new();
        for (op, line) in case.ops.iter().zip(res.lines.iter()) {
            let l = op.line(&case);
            writeln!(ops_f, "{}", l).unwrap();
            writeln!(impl_f, "{}", line).unwrap();
            let name = l.split(' ').next().unwrap().to_string();
            *by_op.entry(name).or_default() += 1;
            text.push_str(&l);
            text.push('\n');
        }
        total_ops += case.ops.len();
        *by_class.entry(case.hash_class.to_string()).or_default() += 1;
        *by_facade.entry(format!("{:?}", case.facade)).or_default() += 1;
        // non-trivial: the case made the map hold >= 2 entries at some point or resized/treeified
        if res.max_bin >= 2 || res.resizes_seen > 0 || res.tree_bins_seen > 0 {
            nontrivial.insert(text.clone());
        }
        if samples.len() < 2 && res.tree_bins_seen > 0 {
            samples.push(format!("{} | {}", header, text.lines().take(12).collect::<Vec<_>>().join(" ; ")));
        }
        for f in res.failures {
            failures.push(format!("{} [case-seed {}]", f, cseed));
        }
        max_tree_cmp = max_tree_cmp.max(res.max_tree_cmp);
        tree_lookups += res.tree_lookups;
        max_bin = max_bin.max(res.max_bin);
        tree_bins += res.tree_bins_seen;
        resizes += res.resizes_seen;
        promise_checks += res.promise_checks;
    }
    ops_f.flush().unwrap();
    impl_f.flush().unwrap();
    let fmt_map = |m: &std::collections::BTreeMap<String, usize>| {
        format!("{{{}}}", m.iter().map(|(k, v)| format!("{}:{}", json_str(k), v)).collect::<Vec<_>>().join(","))
    };
    let report = format!(
        "{{\"cases\":{},\"ops\":{},\"distinct_nontrivial\":{},\"failures\":{},\"by_hash_class\":{},\"by_facade\":{},\"by_op\":{},\"max_tree_cmp\":{},\"tree_lookups\":{},\"max_bin\":{},\"tree_bin_snapshots\":{},\"resizes_seen\":{},\"promise_checks\":{},\"samples\":{}}}",
        cases, total_ops, nontrivial.len(), json_list(&failures),
        fmt_map(&by_class), fmt_map(&by_facade), fmt_map(&by_op), max_tree_cmp, tree_lookups, max_bin, tree_bins, resizes, promise_checks, json_list(&samples)
    );
    if let Some(p) = report_path {
        std::fs::write(p, &report).unwrap();
    }
    println!("{}", report);
}

/// seq-replay --case-seed S --id I : print the ops and the implementation's answers of one case
fn cmd_seq_replay(args: &[String]) {
    let cseed: u64 = arg(args, "--case-seed").and_then(|s| s.parse().ok()).unwrap();
    let id: usize = arg(args, "--id").and_then(|s| s.parse().ok()).unwrap_or(0);
    let max_ops: usize = arg(args, "--max-ops").and_then(|s| s.parse().ok()).unwrap_or(60);
    let max_keys: usize = arg(args, "--max-keys").and_then(|s| s.parse().ok()).unwrap_or(40);
    let keep: Option<Vec<usize>> = arg(args, "--keep").map(|s| s.split(',').filter_map(|x| x.parse().ok()).collect());
    let mut case = gen::gen_case(id, cseed, &gen::GenCfg { max_ops, max_keys });
    if let Some(keep) = keep {
        case.ops = keep.iter().filter_map(|i| case.ops.get(*i).cloned()).collect();
    }
    types::ledger_reset(false);
    let res = seq::run_case(&case);
    for (op, line) in case.ops.iter().zip(res.lines.iter()) {
        println!("{}\t=> {}", op.line(&case), line);
    }
    for f in res.failures.iter() {
        println!("FAIL: {}", f);
    }
}

/// guards: JSON list of outcomes of calling every guard-accepting method with a foreign guard
fn cmd_guards() {
    let outs = guards::run();
    let items: Vec<String> = outs
        .iter()
        .map(|o| {
            format!(
                "{{\"ty\":{},\"fn\":{},\"param\":{},\"populated\":{},\"panicked\":{},\"changed\":{}}}",
                json_str(o.ty), json_str(o.func), json_str(o.param), o.populated, o.panicked, o.changed
            )
        })
        .collect();
    println!("[{}]", items.join(","));
}

/// bulk --seed S --cases N --ops FILE --impl FILE : serde / rayon paths (C19)
fn cmd_bulk(args: &[String]) {
    let seed: u64 = arg(args, "--seed").and_then(|s| s.parse().ok()).unwrap_or(1);
    let cases: usize = arg(args, "--cases").and_then(|s| s.parse().ok()).unwrap_or(200);
    let ops_path = arg(args, "--ops").unwrap_or("/tmp/bulk.ops".into());
    let impl_path = arg(args, "--impl").unwrap_or("/tmp/bulk.impl".into());
    let r = bulk::run(seed, cases);
    std::fs::write(&ops_path, r.ops.join("\n") + "\n").unwrap();
    std::fs::write(&impl_path, r.lines.join("\n") + "\n").unwrap();
    println!(
        "{{\"docs\":{},\"docs_with_repeated_keys\":{},\"roundtrips\":{},\"par_runs\":{},\"failures\":{},\"samples\":{}}}",
        r.docs, r.docs_with_dups, r.roundtrips, r.par_runs, json_list(&r.failures), json_list(&r.samples)
    );
}

/// conc --seed S --cases N [--big 1] [--budget B] : scheduled concurrent programs (C01/C08/C11/C12/C05)
fn cmd_conc(args: &[String]) {
    let seed: u64 = arg(args, "--seed").and_then(|s| s.parse().ok()).unwrap_or(1);
    let cases: usize = arg(args, "--cases").and_then(|s| s.parse().ok()).unwrap_or(100);
    // `--first N`: run the cases N..N+cases of the seed's sequence (for sharding over processes)
    let first: usize = arg(args, "--first").and_then(|s| s.parse().ok()).unwrap_or(0);
    let big = arg(args, "--big").map(|s| s == "1").unwrap_or(false);
    let budget: usize = arg(args, "--budget").and_then(|s| s.parse().ok()).unwrap_or(20000);
    let only: Option<u64> = arg(args, "--case-seed").and_then(|s| s.parse().ok());
    let verbose = arg(args, "--verbose").is_some();
    let lin_path = arg(args, "--lin");
    let trav_path = arg(args, "--trav");
    let mut trav_lines: Vec<String> = vec![];
    let ctl_path = arg(args, "--ctl");
    let mut ctl_lines: Vec<String> = vec![];
    let progress = arg(args, "--progress");
    let life = arg(args, "--life").map(|s| s == "1").unwrap_or(false);
    let mut lin_lines: Vec<String> = vec![];
    types::ledger_reset(false);
    let mut failures: Vec<String> = vec![];
    let (mut steps, mut ops, mut keys_checked, mut distinct) = (0usize, 0usize, 0usize, std::collections::HashSet::new());
    let (mut abs_points, mut abs_reads, mut point_orders) = (0usize, 0usize, 0usize);
    let mut by_class: std::collections::BTreeMap<String, usize> = Default::default();
    let mut sites: std::collections::BTreeSet<String> = Default::default();
    let mut samples = vec![];
    let (mut contended, mut with_resize, mut with_tree) = (0usize, 0usize, 0usize);
    for i in first..first + cases {
        if sched::STUCK_OUTSIDE_HOOKS.load(std::sync::atomic::Ordering::SeqCst) >= 3 {
            break; // every such run costs the watchdog's patience and leaks its threads
        }
        let cseed = only.unwrap_or(seed.wrapping_mul(0x9E3779B97F4A7C15).wrapping_add(i as u64));
        let mode = arg(args, "--mode").unwrap_or("mixed".into());
        let case = if mode == "scenario" {
            // the regression scenarios, one per case index (a case-seed below 1000 names one directly)
            let all = scenarios::all();
            let idx = only.map(|o| o as usize).unwrap_or(i);
            if idx >= all.len() {
                break;
            }
            all.into_iter().nth(idx).unwrap().1
        } else {
            conc::gen_conc_mode(i, cseed, big, &mode)
        };
        let cseed = if mode == "scenario" { only.unwrap_or(i as u64) } else { cseed };
        if let Some(p) = &progress {
            let _ = std::fs::write(p, format!("conc case-seed {}", cseed));
        }
        qalloc::begin();
        let r = conc::run_conc(&case, life, budget);
        let mut v = conc::judge(&case, &r);
        v.failures.extend(r.life_failures.iter().cloned());
        for p in qalloc::take_double_frees() {
            v.failures.push(format!("[double-free] block {:#x} was freed twice", p));
        }
        qalloc::end();
        steps += r.outcome.steps;
        ops += r.calls.len();
        keys_checked += v.keys_checked;
        abs_points += v.abs_points;
        abs_reads += v.abs_reads;
        point_orders += v.point_orders;
        lin_lines.extend(v.lin_lines.iter().cloned());
        if trav_path.is_some() && r.outcome.solo_blocked.is_none() && !r.outcome.deadlock && !r.outcome.budget_exceeded {
            for c in r.calls.iter().filter(|c| matches!(c.op, conc::COp::FrozenIter)) {
                if let Some(chain) = c.result.split(" | chain=").nth(1) {
                    if chain != "-" {
                        trav_lines.push(format!("# case-seed {} mode {}", cseed, mode));
                        trav_lines.push(format!("trav chain={}", chain));
                        trav_lines.push(format!("want {}", c.yielded.iter().map(|y| format!("{}.{}.{}", y.0, y.1, y.2)).collect::<Vec<_>>().join(",")));
                    }
                }
            }
        }
        if ctl_path.is_some() {
            ctl_lines.push(format!("# case-seed {} mode {}", cseed, mode));
            ctl_lines.push(r.ctl_line.clone());
            for l in &r.rw_lines {
                ctl_lines.push(format!("# case-seed {} mode {}", cseed, mode));
                ctl_lines.push(l.clone());
            }
        }
        *by_class.entry(case.hash_class.to_string()).or_default() += 1;
        for e in &r.trace {
            sites.insert(format!("{}:{}", e.file.rsplit('/').next().unwrap_or(""), e.line));
        }
        let progs: Vec<String> = case.programs.iter().map(|p| p.iter().map(|o| o.text()).collect::<Vec<_>>().join(", ")).collect();
        let text = format!("cap={} prefill={:?} threads=[{}]", case.cap, case.prefill, progs.join(" || "));
        // non-trivial: at least two threads' steps are interleaved
        let switches = r.outcome.schedule.windows(2).filter(|w| w[0] != w[1]).count();
        if switches >= 2 {
            distinct.insert(format!("{}|{:?}", text, r.outcome.schedule));
        }
        if r.trace.iter().any(|e| e.kind == flurry::verif::Kind::BeforeLock) && switches >= 2 {
            contended += 1;
        }
        if r.trace.iter().any(|e| e.what == "transfer_index") {
            with_resize += 1;
        }
        if r.final_snap.contains(":T[") {
            with_tree += 1;
        }
        if samples.len() < 2 && switches >= 4 {
            samples.push(format!("{} schedule={:?}", text, &r.outcome.schedule[..r.outcome.schedule.len().min(40)]));
        }
        for f in v.failures {
            failures.push(format!("{} [case-seed {}] {}", f, cseed, text));
        }
        if verbose {
            for c in &r.calls {
                println!("t{} [{}..{}] {} -> {}", c.tid, c.inv, c.resp, c.op.text(), c.result);
            }
            if std::env::var("VERIF_TRACE").is_ok() {
                for (i, e) in r.trace.iter().enumerate() {
                    println!("ev {} t{} {:?} {} addr={:#x} a={:#x} b={:#x} seen={:#x} ok={} {}:{}", i, e.tid, e.kind, e.what.rsplit("::").next().unwrap_or(""), e.addr, e.a, e.b, e.seen, e.ok, e.file.rsplit('/').next().unwrap_or(""), e.line);
                }
            }
            println!("final: {:?}", r.final_contents);
            println!("final-snap: {}", r.final_snap.chars().take(60).collect::<String>());
            println!("schedule: {:?}", r.outcome.schedule);
        }
        if only.is_some() {
            break;
        }
    }
    if let Some(p) = trav_path {
        std::fs::write(p, trav_lines.join("\n") + "\n").unwrap();
    }
    if let Some(p) = ctl_path {
        std::fs::write(p, ctl_lines.join("\n") + "\n").unwrap();
    }
    if let Some(p) = lin_path {
        std::fs::write(p, lin_lines.join("\n") + "\n").unwrap();
    }
    let fmt_map = |m: &std::collections::BTreeMap<String, usize>| {
        format!("{{{}}}", m.iter().map(|(k, v)| format!("{}:{}", json_str(k), v)).collect::<Vec<_>>().join(","))
    };
    println!(
        "{{\"cases\":{},\"steps\":{},\"ops\":{},\"abs_points_witnessed\":{},\"abs_reads_explained\":{},\"certificates_from_witnessed_points\":{},\"keys_checked\":{},\"distinct_nontrivial\":{},\"failures\":{},\"by_hash_class\":{},\"hook_sites\":{},\"runs_with_lock_contention\":{},\"runs_with_resize\":{},\"runs_ending_with_tree_bin\":{},\"samples\":{}}}",
        cases, steps, ops, abs_points, abs_reads, point_orders, keys_checked, distinct.len(), json_list(&failures), fmt_map(&by_class), sites.len(), contended, with_resize, with_tree, json_list(&samples)
    );
}
