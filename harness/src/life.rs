//! Life-cycle ledger (C03 / C04) over a recorded trace:
//!  * [uaf] a hook reports an address inside a block that had already been freed;
//!  * [early-free] a retired block is freed while a guard that was active at its retirement is
//!    still active (the abstract rule of epoch reclamation, independent of seize's batching);
//!  * [retire-reachable] an object is handed to the collector while it can still be reached from
//!    the map's roots (checked on a snapshot at the moment of `retire`);
//!  * [drop] at teardown some key/value instance was dropped twice or never; a value instance was
//!    dropped while a guard that could observe it was still active.
use crate::sched::TraceEv;
use crate::types::*;
use flurry::verif::Kind;
use flurry::verif_inspect::{BinSnap, TableSnap};
use flurry::HashMap;
use std::sync::Mutex;

type M = HashMap<K, V, TableHasher>;

/// the map of the running case, for snapshots taken inside hooks
static CUR_MAP: Mutex<usize> = Mutex::new(0);

pub fn set_current_map(m: Option<&M>) {
    *CUR_MAP.lock().unwrap() = m.map(|m| m as *const M as usize).unwrap_or(0);
}

fn collect_table(t: &TableSnap<'_, K, V>, out: &mut std::collections::HashSet<usize>) {
    out.insert(t.addr);
    for b in &t.bins {
        match b {
            BinSnap::List(ns) => {
                for n in ns {
                    out.insert(n.addr);
                    out.insert(n.value_addr);
                }
            }
            BinSnap::Tree { addr, nodes, .. } => {
                out.insert(*addr);
                for n in nodes {
                    out.insert(n.node.addr);
                    out.insert(n.node.value_addr);
                }
            }
            _ => {}
        }
    }
    if let Some(f) = &t.forward {
        collect_table(f, out);
    }
}

/// Some(message) if `addr` is still reachable from the current map's roots
pub fn check_retire_reachable(addr: usize, what: &'static str) -> Option<String> {
    let mp = *CUR_MAP.lock().unwrap();
    if mp == 0 || addr == 0 {
        return None;
    }
    // safety: the map outlives the case that registered it
    let m: &M = unsafe { &*(mp as *const M) };
    let g = m.guard();
    let s = m.verif_snapshot(&g);
    let mut reach = std::collections::HashSet::new();
    if let Some(t) = &s.table {
        collect_table(t, &mut reach);
    }
    if reach.contains(&addr) {
        Some(format!("a {} at {:#x} is retired while still reachable from the table", what.rsplit("::").next().unwrap_or(what), addr))
    } else {
        None
    }
}

pub struct GuardSpan {
    pub tid: usize,
    pub from: usize,
    pub to: usize,
}

/// trace-level analysis; `spans` = guard lifetimes as trace index intervals
pub fn analyze(trace: &[TraceEv], spans: &[GuardSpan], val_drops: &[(u64, usize)]) -> Vec<String> {
    crate::qalloc::sync();
    let mut f = vec![];
    let mut seen = std::collections::HashSet::new();
    // time (trace index) at which log entry `idx` was freed = first event whose qlen > idx
    let free_time = |idx: usize| -> usize { trace.partition_point(|e| e.qlen <= idx) };
    for (i, e) in trace.iter().enumerate() {
        let touch = matches!(
            e.kind,
            Kind::Deref | Kind::Load | Kind::Store | Kind::Swap | Kind::Cas | Kind::CloneLoad | Kind::Unlock | Kind::BeforeLock | Kind::Retire | Kind::IntoBox | Kind::FetchAdd | Kind::Yield
        );
        if !touch || e.addr == 0 {
            continue;
        }
        if let Some((start, size, idx)) = crate::qalloc::freed_block_of(e.addr) {
            if idx < e.qlen {
                let key = (e.file, e.line, e.kind);
                if seen.insert(key) {
                    f.push(format!(
                        "[uaf] {:?} of {} at {}:{} touches {:#x}, inside a {}-byte block at {:#x} that was freed before (event {} of thread {})",
                        e.kind, short(e.what), short_file(e.file), e.line, e.addr, size, start, i, e.tid
                    ));
                }
            }
        }
    }
    // early free / retire twice
    let mut retired: std::collections::HashMap<usize, usize> = Default::default();
    for (i, e) in trace.iter().enumerate() {
        if e.kind != Kind::Retire || e.addr == 0 {
            continue;
        }
        if let Some(prev) = retired.insert(e.addr, i) {
            f.push(format!("[early-free] {:#x} ({}) is retired twice (events {} and {}, {}:{})", e.addr, short(e.what), prev, i, short_file(e.file), e.line));
        }
        if let Some((_, _, idx)) = crate::qalloc::freed_block_of(e.addr) {
            let ft = free_time(idx);
            for s in spans {
                if s.from <= i && i < s.to && ft < s.to && ft >= i {
                    f.push(format!(
                        "[early-free] the {} retired at event {} ({}:{}) was freed at event {} while the guard of thread {} (events {}..{}) that was active at its retirement is still held",
                        short(e.what), i, short_file(e.file), e.line, ft, s.tid, s.from, s.to
                    ));
                    break;
                }
            }
        }
        // a value must not be dropped while a guard that was active at its retirement is held
        if e.inst != 0 {
            if let Some((_, at)) = val_drops.iter().find(|(inst, _)| *inst == e.inst) {
                for s in spans {
                    if s.from <= i && i < s.to && *at < s.to {
                        f.push(format!(
                            "[drop] value instance {} retired at event {} was dropped at event {} while the guard of thread {} (events {}..{}) could still observe it",
                            e.inst, i, at, s.tid, s.from, s.to
                        ));
                        break;
                    }
                }
            }
        }
    }
    f
}

fn short(s: &str) -> String {
    s.replace("flurry_harness::types::", "").replace("flurry::node::", "").replace("flurry::raw::", "")
}
fn short_file(s: &str) -> &str {
    s.rsplit('/').next().unwrap_or(s)
}

/// exactly-once accounting after the map (and its collector) has been dropped
pub fn ledger_verdict() -> Vec<String> {
    let (created, _once, leaked, dbl, _clones) = ledger_summary();
    let mut f = vec![];
    if !leaked.is_empty() {
        f.push(format!("[drop] {} of {} key/value instances were never dropped (e.g. {:?})", leaked.len(), created, &leaked[..leaked.len().min(3)]));
    }
    if !dbl.is_empty() {
        f.push(format!("[drop] {} key/value instances were dropped more than once (e.g. {:?})", dbl.len(), &dbl[..dbl.len().min(3)]));
    }
    f
}

// ------------------------------------------------------------------------------------------
// Lock discipline (the `wCheck` step of Lean's `Proto/Bin`): the mutex of a bin lives inside its
// first node (or its `TreeBin`), so a writer that has locked the node it saw as head must re-read
// the bin cell and find that very node there before it writes anything. On the event stream: after
// `BeforeLock(L)` a thread must perform a load that returns the object containing `L` before its
// next store / swap / successful CAS.

static LOCK_OFFSETS: std::sync::OnceLock<Vec<usize>> = std::sync::OnceLock::new();

/// offsets of the mutex inside a list node and inside a `TreeBin`, measured on a scratch map
fn lock_offsets() -> &'static Vec<usize> {
    LOCK_OFFSETS.get_or_init(|| {
        use crate::types::*;
        let was_off = LEDGER_OFF.swap(true, std::sync::atomic::Ordering::SeqCst);
        let th = TableHasher { table: std::sync::Arc::new(vec![0u64; 40]) };
        let m: flurry::HashMap<K, V, TableHasher> = flurry::HashMap::with_capacity_and_hasher(64, th);
        let mut offs = vec![];
        {
            let g = m.guard();
            m.insert(K::new(1, 0), V::new(0, 0), &g);
            let s = m.verif_snapshot(&g);
            if let Some(t) = &s.table {
                for b in &t.bins {
                    if let flurry::verif_inspect::BinSnap::List(ns) = b {
                        if let Some(n) = ns.first() {
                            offs.push(n.lock_addr.wrapping_sub(n.addr));
                        }
                    }
                }
            }
            for k in 2..=12u32 {
                m.insert(K::new(k, 0), V::new(0, 0), &g);
            }
            let s = m.verif_snapshot(&g);
            if let Some(t) = &s.table {
                for b in &t.bins {
                    if let flurry::verif_inspect::BinSnap::Tree { addr, lock_addr, .. } = b {
                        offs.push(lock_addr.wrapping_sub(*addr));
                    }
                }
            }
        }
        drop(m);
        LEDGER_OFF.store(was_off, std::sync::atomic::Ordering::SeqCst);
        offs.sort();
        offs.dedup();
        offs
    })
}

/// call once before any scheduler is active (the measurement runs map operations)
pub fn init_lock_offsets() {
    let _ = lock_offsets();
}

/// I-lock, second half (what every bin-level model assumes of writers): a store / swap /
/// successful CAS to a bin cell, a `next` / `first` / tree link or a value cell is performed
/// (a) while the thread holds a bin lock, or (b) on an object the thread allocated itself and has
/// not published yet, or (c) as a CAS from null (the lock-free insert into an empty bin, the
/// forwarding of an empty bin). Anything else is a write the models do not have.
pub fn unlocked_writes(trace: &[TraceEv]) -> Vec<String> {
    let mut f = vec![];
    let mut seen_sites = std::collections::HashSet::new();
    let mut held: std::collections::HashMap<usize, usize> = Default::default();
    let mut private: std::collections::HashMap<usize, Vec<(usize, usize)>> = Default::default();
    for (i, e) in trace.iter().enumerate() {
        match e.kind {
            Kind::BeforeLock => *held.entry(e.tid).or_default() += 1,
            Kind::Unlock => {
                let h = held.entry(e.tid).or_default();
                *h = h.saturating_sub(1);
            }
            Kind::Alloc => private.entry(e.tid).or_default().push((e.addr, e.addr + e.a.max(e.size).max(1))),
            Kind::Store | Kind::Swap | Kind::Cas => {
                if e.kind == Kind::Cas && !e.ok {
                    continue;
                }
                let cell_kind = e.what.contains("BinEntry") || e.what.ends_with("types::V") || e.what.ends_with("::V");
                if !cell_kind {
                    continue;
                }
                let mine = private.entry(e.tid).or_default();
                let in_private = mine.iter().any(|(a, b)| e.addr >= *a && e.addr < *b);
                let newv = if e.kind == Kind::Cas { e.b } else { e.a };
                let locked = held.get(&e.tid).copied().unwrap_or(0) > 0;
                let cas_from_null = e.kind == Kind::Cas && e.a == 0;
                // the `Drop` impls (exclusive access) take pointers out of their cells with `swap(null)`:
                // `Table::drop` (its forwarding node), `TreeBin::drop_fields` (`first`); a swap to null
                // is not judged by this rule
                let table_teardown = e.kind == Kind::Swap && e.a == 0;
                if !locked && !in_private && !cas_from_null && !table_teardown && seen_sites.insert((e.file, e.line)) {
                    f.push(format!(
                        "[discipline] thread {} performs {:?} of {} at {}:{} (event {}) on a published cell while it holds no bin lock (not an insert into an empty bin, not an object of its own that is still private)",
                        e.tid, e.kind, short(e.what), short_file(e.file), e.line, i
                    ));
                }
                // publication: a pointer into one of the thread's private objects is written into
                // a cell outside them: everything the thread built so far is published with it
                if !in_private && newv != 0 && mine.iter().any(|(a, b)| newv >= *a && newv < *b) {
                    mine.clear();
                }
            }
            _ => {}
        }
    }
    f
}

pub fn lock_discipline(trace: &[TraceEv]) -> Vec<String> {
    let offs = lock_offsets();
    let mut f = vec![];
    let mut seen_sites = std::collections::HashSet::new();
    // per thread: stack of (mutex address, validated)
    let mut held: std::collections::HashMap<usize, Vec<(usize, bool)>> = Default::default();
    for (i, e) in trace.iter().enumerate() {
        let h = held.entry(e.tid).or_default();
        match e.kind {
            Kind::BeforeLock => h.push((e.addr, false)),
            Kind::Unlock => {
                if let Some(p) = h.iter().rposition(|x| x.0 == e.addr) {
                    h.remove(p);
                }
            }
            Kind::Load => {
                for x in h.iter_mut() {
                    if !x.1 && offs.iter().any(|o| e.seen != 0 && e.seen.wrapping_add(*o) == x.0) {
                        x.1 = true;
                    }
                }
            }
            Kind::Store | Kind::Swap | Kind::Cas | Kind::Retire => {
                if e.kind == Kind::Cas && !e.ok {
                    continue;
                }
                // raw words (size_ctl, count, lock_state, …) are not protected by bin locks
                if !e.what.contains("::") {
                    continue;
                }
                if let Some(x) = h.last() {
                    if !x.1 && seen_sites.insert((e.file, e.line)) {
                        f.push(format!(
                            "[discipline] thread {} performs {:?} of {} at {}:{} (event {}) while holding the mutex at {:#x} without having re-read the bin cell and found the locked object there",
                            e.tid, e.kind, short(e.what), short_file(e.file), e.line, i, x.0
                        ));
                    }
                }
            }
            _ => {}
        }
    }
    f
}
