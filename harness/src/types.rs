//! Instrumented key / value / hasher types and the drop ledger.
use std::cell::Cell;
use std::collections::HashMap as StdMap;
use std::hash::{BuildHasher, Hash, Hasher};
use std::sync::atomic::{AtomicU64, Ordering};
use std::sync::{Arc, Mutex};

static NEXT_INST: AtomicU64 = AtomicU64::new(1);

thread_local! {
    pub static EQ_CALLS: Cell<u64> = const { Cell::new(0) };
    pub static CMP_CALLS: Cell<u64> = const { Cell::new(0) };
}

pub fn reset_cmp_counters() {
    EQ_CALLS.with(|c| c.set(0));
    CMP_CALLS.with(|c| c.set(0));
}
pub fn cmp_counters() -> (u64, u64) {
    (EQ_CALLS.with(|c| c.get()), CMP_CALLS.with(|c| c.get()))
}

#[derive(Clone, Copy, Debug, PartialEq, Eq)]
pub enum ObjKind {
    Key,
    Val,
}

#[derive(Default)]
pub struct LedgerInner {
    /// inst -> (kind, origin, created_by_clone, drops)
    pub objs: StdMap<u64, (ObjKind, u32, bool, u32)>,
    pub log: Vec<(u64, &'static str)>,
    pub log_enabled: bool,
}

/// Process-wide ledger of every key/value instance ever created and dropped.
pub static LEDGER: Mutex<Option<LedgerInner>> = Mutex::new(None);
/// current trace position, maintained by the scheduler (for drop time stamps)
pub static TRACE_POS: AtomicU64 = AtomicU64::new(0);
pub static VAL_DROPS: Mutex<Vec<(u64, usize)>> = Mutex::new(Vec::new());

/// fast path for unscheduled stress runs: no ledger, no global lock in `K::new` / `V::new` / drop
pub static LEDGER_OFF: std::sync::atomic::AtomicBool = std::sync::atomic::AtomicBool::new(false);

pub fn ledger_reset(log: bool) {
    let mut g = LEDGER.lock().unwrap();
    *g = Some(LedgerInner {
        log_enabled: log,
        ..Default::default()
    });
}

fn ledger_create(inst: u64, kind: ObjKind, origin: u32, cloned: bool) {
    if LEDGER_OFF.load(Ordering::Relaxed) {
        return;
    }
    if let Ok(mut g) = LEDGER.lock() {
        if let Some(l) = g.as_mut() {
            l.objs.insert(inst, (kind, origin, cloned, 0));
            if l.log_enabled {
                l.log.push((inst, if cloned { "clone" } else { "new" }));
            }
        }
    }
}
fn ledger_drop(inst: u64) {
    if LEDGER_OFF.load(Ordering::Relaxed) {
        return;
    }
    if let Ok(mut g) = LEDGER.lock() {
        if let Some(l) = g.as_mut() {
            if let Some(e) = l.objs.get_mut(&inst) {
                e.3 += 1;
            }
            if l.log_enabled {
                l.log.push((inst, "drop"));
            }
        }
    }
}

/// (created, dropped_once, leaked, double_dropped, clones)
pub fn ledger_summary() -> (usize, usize, Vec<(u64, ObjKind, u32)>, Vec<(u64, ObjKind, u32)>, usize) {
    let g = LEDGER.lock().unwrap();
    let l = g.as_ref().unwrap();
    let mut leaked = vec![];
    let mut dbl = vec![];
    let mut once = 0;
    let mut clones = 0;
    for (inst, (k, o, c, d)) in &l.objs {
        if *c {
            clones += 1;
        }
        match d {
            0 => leaked.push((*inst, *k, *o)),
            1 => once += 1,
            _ => dbl.push((*inst, *k, *o)),
        }
    }
    leaked.sort_by_key(|x| x.0);
    dbl.sort_by_key(|x| x.0);
    (l.objs.len(), once, leaked, dbl, clones)
}

pub fn ledger_drops_of(inst: u64) -> u32 {
    let g = LEDGER.lock().unwrap();
    g.as_ref().and_then(|l| l.objs.get(&inst).map(|e| e.3)).unwrap_or(0)
}

/// Key: equality, order and hash on `id` only. `origin` survives `Clone`; `inst` is unique.
#[derive(Debug)]
pub struct K {
    pub id: u32,
    pub origin: u32,
    pub inst: u64,
}

impl K {
    pub fn new(id: u32, origin: u32) -> K {
        let inst = NEXT_INST.fetch_add(1, Ordering::Relaxed);
        ledger_create(inst, ObjKind::Key, origin, false);
        K { id, origin, inst }
    }
}
impl Clone for K {
    fn clone(&self) -> K {
        let inst = NEXT_INST.fetch_add(1, Ordering::Relaxed);
        ledger_create(inst, ObjKind::Key, self.origin, true);
        K {
            id: self.id,
            origin: self.origin,
            inst,
        }
    }
}
impl Drop for K {
    fn drop(&mut self) {
        ledger_drop(self.inst);
    }
}
impl PartialEq for K {
    fn eq(&self, o: &K) -> bool {
        EQ_CALLS.with(|c| c.set(c.get() + 1));
        self.id == o.id
    }
}
impl Eq for K {}
impl PartialOrd for K {
    fn partial_cmp(&self, o: &K) -> Option<std::cmp::Ordering> {
        Some(self.cmp(o))
    }
}
impl Ord for K {
    fn cmp(&self, o: &K) -> std::cmp::Ordering {
        CMP_CALLS.with(|c| c.set(c.get() + 1));
        self.id.cmp(&o.id)
    }
}
impl Hash for K {
    fn hash<H: Hasher>(&self, h: &mut H) {
        h.write_u32(self.id)
    }
}

/// Value: `payload` is what equality compares; `origin` survives `Clone`; `inst` is unique.
#[derive(Debug)]
pub struct V {
    pub payload: u64,
    pub origin: u32,
    pub inst: u64,
    /// vector clock of the creating thread at creation time (C15), if any
    pub init_clock: Option<Arc<Vec<u32>>>,
}
impl V {
    pub fn new(payload: u64, origin: u32) -> V {
        let inst = NEXT_INST.fetch_add(1, Ordering::Relaxed);
        ledger_create(inst, ObjKind::Val, origin, false);
        V {
            payload,
            origin,
            inst,
            init_clock: None,
        }
    }
}
impl Clone for V {
    fn clone(&self) -> V {
        let inst = NEXT_INST.fetch_add(1, Ordering::Relaxed);
        ledger_create(inst, ObjKind::Val, self.origin, true);
        V {
            payload: self.payload,
            origin: self.origin,
            inst,
            init_clock: self.init_clock.clone(),
        }
    }
}
impl Drop for V {
    fn drop(&mut self) {
        ledger_drop(self.inst);
        if LEDGER_OFF.load(Ordering::Relaxed) {
            return;
        }
        if let Ok(mut d) = VAL_DROPS.try_lock() {
            d.push((self.inst, TRACE_POS.load(Ordering::Relaxed) as usize));
        }
    }
}
impl PartialEq for V {
    fn eq(&self, o: &V) -> bool {
        self.payload == o.payload
    }
}
impl Eq for V {}

/// A `BuildHasher` whose hash function is a table `id -> u64` chosen per case.
#[derive(Clone, Debug)]
pub struct TableHasher {
    pub table: Arc<Vec<u64>>,
}
thread_local! {
    static DEFAULT_TABLE: std::cell::RefCell<Arc<Vec<u64>>> = std::cell::RefCell::new(Arc::new(Vec::new()));
}
/// `FromIterator`/`Deserialize` need `S: Default`: the default hasher uses the current case's table.
pub fn set_default_table(t: Arc<Vec<u64>>) {
    DEFAULT_TABLE.with(|d| *d.borrow_mut() = t);
}
impl Default for TableHasher {
    fn default() -> Self {
        TableHasher { table: DEFAULT_TABLE.with(|d| d.borrow().clone()) }
    }
}
pub struct THasher {
    table: Arc<Vec<u64>>,
    id: u32,
}
impl BuildHasher for TableHasher {
    type Hasher = THasher;
    fn build_hasher(&self) -> THasher {
        THasher {
            table: self.table.clone(),
            id: 0,
        }
    }
}
impl Hasher for THasher {
    fn finish(&self) -> u64 {
        self.table.get(self.id as usize).copied().unwrap_or(0)
    }
    fn write(&mut self, _bytes: &[u8]) {}
    fn write_u32(&mut self, i: u32) {
        self.id = i;
    }
}

/// splitmix64
#[derive(Clone)]
pub struct Rng(pub u64);
impl Rng {
    pub fn next(&mut self) -> u64 {
        self.0 = self.0.wrapping_add(0x9E3779B97F4A7C15);
        let mut z = self.0;
        z = (z ^ (z >> 30)).wrapping_mul(0xBF58476D1CE4E5B9);
        z = (z ^ (z >> 27)).wrapping_mul(0x94D049BB133111EB);
        z ^ (z >> 31)
    }
    pub fn below(&mut self, n: u64) -> u64 {
        if n == 0 {
            0
        } else {
            self.next() % n
        }
    }
    pub fn chance(&mut self, num: u64, den: u64) -> bool {
        self.below(den) < num
    }
    pub fn pick<'a, T>(&mut self, v: &'a [T]) -> &'a T {
        &v[self.below(v.len() as u64) as usize]
    }
}
