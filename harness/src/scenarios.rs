//! Regression scenarios: scripted schedules of past findings, replayed first by every scheduled
//! check (`conc --mode scenario`). A scenario is an ordinary `ConcCase` whose policy is a script
//! over the hook events; conditions name accesses (kind + word), never source lines.
use crate::conc::{COp, ConcCase};
use crate::sched::{Policy, Rel, ScriptStep, Until};
use flurry::verif::Kind;

fn ident_hashes(n: usize) -> Vec<u64> {
    (0..=n as u64).collect()
}

/// F6 (C10): `help_transfer` validates `(table, next_table)` and only then loads `size_ctl`; it
/// compared that word only with `rs + 1` / `rs + MAX_RESIZERS` of its *own* table's stamp. A
/// helper that validated generation g and is delayed until generation g+1 has elected its
/// finisher (`size_ctl = rs' + 1`) was admitted: it bumps the word to `rs' + 2`, which lets
/// further threads join through `add_count` while the finisher is already sweeping; the finisher
/// publishes while they are still inside `transfer`, and their late decrements hit the published
/// threshold (or the next generation's count).
///
/// 32 bins / 23 entries. A inserts 24..=48 (resize 32->64 at 24 entries, 64->128 at 48). H
/// inserts a key whose bin has been forwarded, J inserts a fresh key.
pub fn stale_helper() -> ConcCase {
    let mut origin = 500u32;
    let mut fresh = || {
        origin += 1;
        origin
    };
    let prefill: Vec<(u32, u64, u32)> = (1..=23u32).map(|k| (k, 0, fresh())).collect();
    let a: Vec<COp> = (24..=48u32).map(|k| COp::Ins(k, 1, fresh())).collect();
    let h = vec![COp::Ins(63, 2, fresh())];
    let j = vec![COp::Ins(100, 3, fresh())];
    let script = vec![
        // A: resize g (32 -> 64) moved every bin, about to publish (`next_table.store(null)`)
        ScriptStep { tid: 0, until: Until::Pending { kind: Kind::Store, what: "Table", rel: Rel::Any } },
        // H: found its bin forwarded, validated (table, next_table), about to load `size_ctl`
        ScriptStep { tid: 1, until: Until::Pending { kind: Kind::Load, what: "size_ctl", rel: Rel::Any } },
        // A: publishes g, keeps inserting, starts g+1 (64 -> 128) and elects itself finisher
        ScriptStep { tid: 0, until: Until::Done { kind: Kind::Cas, what: "size_ctl", rel: Rel::Dec, count: 2 } },
        // H: (if admitted) joins g+1 with the tables of g, about to leave again
        ScriptStep { tid: 1, until: Until::Pending { kind: Kind::Cas, what: "size_ctl", rel: Rel::Dec } },
        // J: (if admitted) joins g+1 through add_count, about to claim a stride
        ScriptStep { tid: 2, until: Until::Pending { kind: Kind::Cas, what: "transfer_index", rel: Rel::Any } },
        ScriptStep { tid: 1, until: Until::Finished },
        // A: sweeps and publishes g+1 while J is still inside `transfer`
        ScriptStep { tid: 0, until: Until::Finished },
        ScriptStep { tid: 2, until: Until::Finished },
    ];
    ConcCase {
        id: 0,
        seed: 0xF6,
        hash_class: "scenario:stale-helper",
        hashes: ident_hashes(128),
        cap: 20,
        prefill,
        programs: vec![a, h, j],
        policy: Policy::Script(script),
        pin: false,
    }
}

/// F7 (C03/C04): `transfer` publishes the new bins of old bin `i` in the next table *before* it
/// stores the forwarding marker into old bin `i`. `clear()` jumps to the next table as soon as it
/// meets any forwarding marker; there it empties the freshly published bins and retires their
/// nodes and values — which are still reachable from old bin `i` of the table that is still
/// `self.table`. A reader that pins a guard afterwards reaches them through the old bin and holds
/// references into memory that is freed as soon as the resizer's guard goes away.
///
/// 32 bins / 23 entries, identity hashes. A's insert starts the resize and claims the upper
/// stride; H joins, forwards the lower half and leaves; A becomes the finisher, sweeps down to
/// bin 21 = [21 -> 53] and is suspended between publishing the two new bins and forwarding the
/// old one; C clears; R reads key 21.
pub fn clear_in_transfer_window() -> ConcCase {
    let mut origin = 700u32;
    let mut fresh = || {
        origin += 1;
        origin
    };
    let mut prefill: Vec<(u32, u64, u32)> = (1..=21u32).map(|k| (k, 0, fresh())).collect();
    prefill.push((33, 0, fresh()));
    prefill.push((34, 0, fresh()));
    let a = vec![COp::Ins(53, 1, fresh())];
    let h = vec![COp::Ins(67, 2, fresh())];
    let c = vec![COp::Clear];
    let r = vec![COp::Get(21), COp::Get(53)];
    let script = vec![
        // A: 24th entry: initiates the resize, installs the next table, claims [16,32)
        ScriptStep { tid: 0, until: Until::Done { kind: Kind::Cas, what: "transfer_index", rel: Rel::Any, count: 1 } },
        // H: joins, claims [0,16), forwards the lower bins, leaves
        ScriptStep { tid: 1, until: Until::Finished },
        // A: becomes the finisher, sweeps 31..22, splits bin 21 and publishes both new bins
        // (its stores into bin cells: the append of its own insert, then the two new bins)
        ScriptStep { tid: 0, until: Until::Done { kind: Kind::Store, what: "BinEntry", rel: Rel::Any, count: 3 } },
        // C: clear meets a forwarding marker in bin 0, continues on the next table
        ScriptStep { tid: 2, until: Until::Finished },
        // R: a reader that starts after `clear` returned
        ScriptStep { tid: 3, until: Until::Finished },
        ScriptStep { tid: 0, until: Until::Finished },
    ];
    ConcCase {
        id: 1,
        seed: 0xF7,
        hash_class: "scenario:clear-in-transfer-window",
        hashes: ident_hashes(128),
        cap: 16,
        prefill,
        programs: vec![a, h, c, r],
        policy: Policy::Script(script),
        pin: false,
    }
}

/// F5 (C07): a tree bin with a single node (produced by a `treeify_bin` that runs after the bin
/// has shrunk again) whose node is being removed: `remove_tree_node` stores `first = null` before
/// its caller replaces the bin; an iterator arriving in between read `first` without a null test.
///
/// all-equal hashes, 128 bins, keys 1..=8. A inserts key 9 and is held at the lock acquisition
/// of `treeify_bin`; B removes 2..=9; A treeifies the one remaining node; C removes key 1 and is
/// held after `first.store(null)`; D iterates.
pub fn null_first_iter() -> ConcCase {
    let mut origin = 900u32;
    let mut fresh = || {
        origin += 1;
        origin
    };
    let prefill: Vec<(u32, u64, u32)> = (1..=8u32).map(|k| (k, 0, fresh())).collect();
    let a = vec![COp::Ins(9, 1, fresh())];
    let b: Vec<COp> = (2..=9u32).map(COp::Rm).collect();
    let c = vec![COp::Rm(1)];
    let d = vec![COp::Iter];
    let script = vec![
        // A: appended key 9 under the bin lock (one store into a `next` cell) …
        ScriptStep { tid: 0, until: Until::Done { kind: Kind::Store, what: "BinEntry", rel: Rel::Any, count: 1 } },
        // … and is about to take the lock again in treeify_bin
        ScriptStep { tid: 0, until: Until::Pending { kind: Kind::BeforeLock, what: "", rel: Rel::Any } },
        ScriptStep { tid: 1, until: Until::Finished },
        ScriptStep { tid: 0, until: Until::Finished },
        // C: remove_tree_node has stored `first = null`, the bin is still in the table
        ScriptStep { tid: 2, until: Until::Done { kind: Kind::Store, what: "BinEntry", rel: Rel::Any, count: 1 } },
        ScriptStep { tid: 3, until: Until::Finished },
        ScriptStep { tid: 2, until: Until::Finished },
    ];
    ConcCase {
        id: 2,
        seed: 0xF5,
        hash_class: "scenario:null-first-iter",
        hashes: vec![0; 64],
        cap: 64,
        prefill,
        programs: vec![a, b, c, d],
        policy: Policy::Script(script),
        pin: false,
    }
}

/// F8 (C01): a reader of a tree bin decides per list element whether to walk linearly (a writer
/// holds or waits for the tree lock) or to enter the tree. `remove_tree_node` unlinks the node from
/// the list *before* it takes the tree's write lock. A reader whose "linear" decision dates from
/// the PREVIOUS writer and that performs the corresponding `next` load after the unlink misses a
/// key that a reader invoked afterwards still finds in the tree: `get(k) = None` and then
/// `get(k) = Some` without any insert in between.
///
/// all-equal hashes, 128 bins, keys 1..=10 (list order 10,1,2,…,9). W1 removes key 3 and holds the
/// write lock while R1 (`get 9`) walks the list up to key 8 and has read the lock word there; W1
/// finishes; W2 (`rm 9`) unlinks key 9 from the list and stops before `lock_root`; R1 loads
/// `8.next = null` and returns None; R2 (`get 9`), started afterwards, enters the tree and finds 9.
pub fn tree_stale_linear_reader() -> ConcCase {
    let mut origin = 1100u32;
    let mut fresh = || {
        origin += 1;
        origin
    };
    let prefill: Vec<(u32, u64, u32)> = (1..=10u32).map(|k| (k, 0, fresh())).collect();
    let script = vec![
        // W1: list unlink of key 3, then the write lock (no reader inside: the first CAS wins)
        ScriptStep { tid: 0, until: Until::Done { kind: Kind::Cas, what: "lock_state", rel: Rel::Any, count: 1 } },
        // R1: linear walk over 10,1,2,4,5,6,7,8: the lock word has been read at key 8 …
        ScriptStep { tid: 1, until: Until::Done { kind: Kind::Load, what: "lock_state", rel: Rel::Any, count: 8 } },
        // … and the next access is the load of `8.next`
        ScriptStep { tid: 1, until: Until::Pending { kind: Kind::Load, what: "BinEntry", rel: Rel::Any } },
        ScriptStep { tid: 0, until: Until::Finished },
        // W2: found key 9, unlinked it from the list, has not called lock_root yet
        ScriptStep { tid: 2, until: Until::Done { kind: Kind::Store, what: "BinEntry", rel: Rel::Any, count: 1 } },
        ScriptStep { tid: 1, until: Until::Finished },
        ScriptStep { tid: 3, until: Until::Finished },
        ScriptStep { tid: 2, until: Until::Finished },
    ];
    ConcCase {
        id: 3,
        seed: 0xF8,
        hash_class: "scenario:tree-stale-linear-reader",
        hashes: vec![0; 64],
        cap: 64,
        prefill,
        programs: vec![vec![COp::Rm(3)], vec![COp::Get(9)], vec![COp::Rm(9)], vec![COp::Get(9)]],
        policy: Policy::Script(script),
        pin: false,
    }
}

/// F9 (C07 with C01): `find_or_put_tree_val` publishes a new node of a tree bin in two steps: the
/// store to `first` puts it on the `next` list (what iterators, `transfer` and `clear` read), the
/// store to the parent's `left`/`right` three stores later puts it in the tree (what `get` reads
/// while nobody holds or waits for the write lock). In between an iterator yields the key and a
/// `get` invoked after that yield does not find it — although nothing is ever removed.
///
/// all-equal hashes, keys 1..=10 in one tree bin. W (`ins 11`) stops after its first store (the
/// store to `first`); R iterates (sees 11), then calls `get 11`; W finishes.
pub fn iter_sees_unlinked_tree_insert() -> ConcCase {
    let mut origin = 1200u32;
    let mut fresh = || {
        origin += 1;
        origin
    };
    let prefill: Vec<(u32, u64, u32)> = (1..=10u32).map(|k| (k, 0, fresh())).collect();
    let o = fresh();
    let script = vec![
        ScriptStep { tid: 0, until: Until::Done { kind: Kind::Store, what: "BinEntry", rel: Rel::Any, count: 1 } },
        ScriptStep { tid: 1, until: Until::Finished },
        ScriptStep { tid: 0, until: Until::Finished },
    ];
    ConcCase {
        id: 4,
        seed: 0xF9,
        hash_class: "scenario:iter-sees-unlinked-tree-insert",
        hashes: vec![0; 64],
        cap: 64,
        prefill,
        programs: vec![vec![COp::Ins(11, 7, o)], vec![COp::Iter, COp::Get(11)]],
        policy: Policy::Script(script),
        pin: false,
    }
}

/// C01 (seeded change `C01-removed-tree-node-clears-next`): a reader that walks a tree bin's list
/// can stand on the very node a writer removes; it relies on the removed node keeping its `next`
/// (a dead node's `next` is frozen and leads back into the list), otherwise it falls off the end
/// and misses keys that were present all the time.
///
/// all-equal hashes, keys 1..=12 in one tree bin (list order 12,11,10,1,2,…,9). W1 (`rm 3`) holds
/// the write lock while R (`get 9`) walks linearly up to key 5 and is about to load `5.next`; W1
/// finishes; W2 (`rm 5`) removes the node R stands on, completely; R resumes and must find 9.
pub fn reader_on_removed_tree_node() -> ConcCase {
    let mut origin = 1300u32;
    let mut fresh = || {
        origin += 1;
        origin
    };
    let prefill: Vec<(u32, u64, u32)> = (1..=12u32).map(|k| (k, 0, fresh())).collect();
    let script = vec![
        ScriptStep { tid: 0, until: Until::Done { kind: Kind::Cas, what: "lock_state", rel: Rel::Any, count: 1 } },
        // R: linear walk over 12,11,10,1,2,3,4,5: the lock word has been read at key 5 …
        ScriptStep { tid: 1, until: Until::Done { kind: Kind::Load, what: "lock_state", rel: Rel::Any, count: 8 } },
        // … and the next access is the load of `5.next`
        ScriptStep { tid: 1, until: Until::Pending { kind: Kind::Load, what: "BinEntry", rel: Rel::Any } },
        ScriptStep { tid: 0, until: Until::Finished },
        ScriptStep { tid: 2, until: Until::Finished },
        ScriptStep { tid: 1, until: Until::Finished },
    ];
    ConcCase {
        id: 5,
        seed: 0xC01,
        hash_class: "scenario:reader-on-removed-tree-node",
        hashes: vec![0; 64],
        cap: 64,
        prefill,
        programs: vec![vec![COp::Rm(3)], vec![COp::Get(9)], vec![COp::Rm(5)]],
        policy: Policy::Script(script),
        pin: false,
    }
}

/// C14 ("removing entries - by any operation - never makes it grow"): a resize started by
/// `reserve` (`try_presize`) does not look at the entry count when it is done. Inserts that arrive
/// while it is in its final phase neither join it nor start the next one (`add_count` breaks out
/// when `transfer_index <= 0`), so the map can come to rest with `count >= size_ctl`. The next
/// call of `add_count` with a resize hint then grows the table - and `compute_if_present` passes
/// a hint when it REMOVES.
///
/// 16 bins / 11 entries. R `reserve(1)` resizes 16 -> 32 -> 64 and stops before publishing the
/// 64-bin table; I inserts 41 fresh keys (52 entries >= 48 = 3/4 of 64); R finishes; C removes one
/// entry with `compute_if_present(.., |..| None)`.
pub fn overdue_then_removing_compute() -> ConcCase {
    overdue_then(6, "scenario:overdue-then-removing-compute", vec![COp::CipRm(1)])
}

/// the same state (growth overdue at rest), then the other removing calls: `remove`, `remove_entry`,
/// `retain` - "removing entries - by any operation - never makes it grow"
pub fn overdue_then_remove() -> ConcCase {
    overdue_then(7, "scenario:overdue-then-remove", vec![COp::Rm(1), COp::Rme(2), COp::Retain("k3", false)])
}

fn overdue_then(id: usize, name: &'static str, last: Vec<COp>) -> ConcCase {
    let mut origin = 1400u32;
    let mut fresh = || {
        origin += 1;
        origin
    };
    let prefill: Vec<(u32, u64, u32)> = (1..=11u32).map(|k| (k, 0, fresh())).collect();
    let ins: Vec<COp> = (100..=140u32).map(|k| COp::Ins(k, 1, fresh())).collect();
    let script = vec![
        ScriptStep { tid: 0, until: Until::Done { kind: Kind::Store, what: "Table", rel: Rel::Any, count: 1 } },
        ScriptStep { tid: 0, until: Until::Pending { kind: Kind::Store, what: "Table", rel: Rel::Any } },
        ScriptStep { tid: 1, until: Until::Finished },
        ScriptStep { tid: 0, until: Until::Finished },
        ScriptStep { tid: 2, until: Until::Finished },
    ];
    ConcCase {
        id,
        seed: 0xC14,
        hash_class: name,
        hashes: ident_hashes(200),
        cap: 10,
        prefill,
        programs: vec![vec![COp::Reserve(1)], ins, last],
        policy: Policy::Script(script),
        pin: false,
    }
}

/// C10 / C14: a reservation on a fresh map while another thread's first insert sits between taking
/// the initialisation lock (`size_ctl = -1`) and storing the first table; a third thread inserts
/// meanwhile. Exactly one first table may be published (the reservation has to back off).
pub fn reserve_during_first_insert() -> ConcCase {
    let mut origin = 1600u32;
    let mut fresh = || {
        origin += 1;
        origin
    };
    let ins: Vec<COp> = (2..=9u32).map(|k| COp::Ins(k, 1, fresh())).collect();
    let script = vec![
        ScriptStep { tid: 0, until: Until::Pending { kind: Kind::Store, what: "Table", rel: Rel::Any } },
        ScriptStep { tid: 1, until: Until::Finished },
        ScriptStep { tid: 2, until: Until::Finished },
        ScriptStep { tid: 0, until: Until::Finished },
    ];
    ConcCase {
        id: 8,
        seed: 0xC10,
        hash_class: "scenario:reserve-during-first-insert",
        hashes: ident_hashes(200),
        cap: 0,
        prefill: vec![],
        programs: vec![vec![COp::Ins(1, 1, fresh())], vec![COp::Reserve(20)], ins],
        policy: Policy::Script(script),
        pin: false,
    }
}

pub fn all() -> Vec<(&'static str, ConcCase)> {
    vec![("stale-helper", stale_helper()), ("clear-in-transfer-window", clear_in_transfer_window()), ("null-first-iter", null_first_iter()), ("tree-stale-linear-reader", tree_stale_linear_reader()), ("iter-sees-unlinked-tree-insert", iter_sees_unlinked_tree_insert()), ("reader-on-removed-tree-node", reader_on_removed_tree_node()), ("overdue-then-removing-compute", overdue_then_removing_compute()), ("overdue-then-remove", overdue_then_remove()), ("reserve-during-first-insert", reserve_during_first_insert())]
}
