//! Regression scenarios: scripted schedules of past findings, replayed first by every scheduled
//! check (`conc --mode scenario`). A scenario is an ordinary `ConcCase` whose policy is a script
//! over the hook events; conditions name accesses (kind + word), never source lines.
use crate::conc::{COp, ConcCase};
use crate::sched::{Policy, Rel, ScriptStep, Until};
use flurry::verif::Kind;

fn ident_hashes(n: usize) -> Vec<u64> {
    (0..=n as u64).collect()
}

/// F6 (C10): `help_transfer` validates `(table, next_table)` and only then loads `size_ctl`; it
/// compared that word only with `rs + 1` / `rs + MAX_RESIZERS` of its *own* table's stamp. A
/// helper that validated generation g and is delayed until generation g+1 has elected its
/// finisher (`size_ctl = rs' + 1`) was admitted: it bumps the word to `rs' + 2`, which lets
/// further threads join through `add_count` while the finisher is already sweeping; the finisher
/// publishes while they are still inside `transfer`, and their late decrements hit the published
/// threshold (or the next generation's count).
///
/// 32 bins / 23 entries. A inserts 24..=48 (resize 32->64 at 24 entries, 64->128 at 48). H
/// inserts a key whose bin has been forwarded, J inserts a fresh key.
pub fn stale_helper() -> ConcCase {
    let mut origin = 500u32;
    let mut fresh = || {
        origin += 1;
        origin
    };
    let prefill: Vec<(u32, u64, u32)> = (1..=23u32).map(|k| (k, 0, fresh())).collect();
    let a: Vec<COp> = (24..=48u32).map(|k| COp::Ins(k, 1, fresh())).collect();
    let h = vec![COp::Ins(63, 2, fresh())];
    let j = vec![COp::Ins(100, 3, fresh())];
    let script = vec![
        // A: resize g (32 -> 64) moved every bin, about to publish (`next_table.store(null)`)
        ScriptStep { tid: 0, until: Until::Pending { kind: Kind::Store, what: "Table", rel: Rel::Any } },
        // H: found its bin forwarded, validated (table, next_table), about to load `size_ctl`
        ScriptStep { tid: 1, until: Until::Pending { kind: Kind::Load, what: "size_ctl", rel: Rel::Any } },
        // A: publishes g, keeps inserting, starts g+1 (64 -> 128) and elects itself finisher
        ScriptStep { tid: 0, until: Until::Done { kind: Kind::Cas, what: "size_ctl", rel: Rel::Dec, count: 2 } },
        // H: (if admitted) joins g+1 with the tables of g, about to leave again
        ScriptStep { tid: 1, until: Until::Pending { kind: Kind::Cas, what: "size_ctl", rel: Rel::Dec } },
        // J: (if admitted) joins g+1 through add_count, about to claim a stride
        ScriptStep { tid: 2, until: Until::Pending { kind: Kind::Cas, what: "transfer_index", rel: Rel::Any } },
        ScriptStep { tid: 1, until: Until::Finished },
        // A: sweeps and publishes g+1 while J is still inside `transfer`
        ScriptStep { tid: 0, until: Until::Finished },
        ScriptStep { tid: 2, until: Until::Finished },
    ];
    ConcCase {
        id: 0,
        seed: 0xF6,
        hash_class: "scenario:stale-helper",
        hashes: ident_hashes(128),
        cap: 20,
        prefill,
        programs: vec![a, h, j],
        policy: Policy::Script(script),
        pin: false,
    }
}

pub fn all() -> Vec<(&'static str, ConcCase)> {
    vec![("stale-helper", stale_helper())]
}
