import Flurry.Prelude
import Flurry.Gen.Consts
import Flurry.Gen.Arith
import Flurry.Lemmas.Pow2
import Flurry.Lemmas.Arith
import Flurry.Props.C10Arith
import Flurry.Props.C14Arith
