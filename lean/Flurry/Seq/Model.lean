import Flurry.Gen.Arith
import Flurry.RB
/-! # L1: sequential functional model of `src/map.rs`

Every routine keeps the control structure and the order of effects of the Rust code (see
DESIGN.md, Appendix A). Arithmetic and thresholds are *not* restated here: they are the
definitions generated from the source (`Flurry.Gen.*`). Loops that the Rust code runs "until no
further resize is needed" take fuel (table lengths double and are bounded by `2^30`).

No Mathlib; everything is executable (the driver `flurry-model` runs these definitions). -/
namespace Flurry.Seq
open Flurry Flurry.Gen

inductive Bin where
  | empty
  /-- a list bin, head first (non-empty in well-formed tables) -/
  | list (ns : List Node)
  /-- a tree bin: the red-black tree and the `first`/`next` traversal list -/
  | tree (t : RB.T) (order : List Node)
deriving Repr, DecidableEq, Inhabited

abbrev Table := List Bin

structure Map where
  table : Option Table := none
  count : Int := 0
  sizeCtl : Int := 0
  /-- the `BuildHasher`: key ↦ 64-bit hash -/
  hash : Nat → Nat
  /-- how many times a table was replaced by a longer one (not counting the first allocation) -/
  resizes : Nat := 0

instance : Inhabited Map := ⟨{ hash := fun _ => 0 }⟩

/-- result of a callback -/
inductive CbRes where
  | keep (v vi : Nat)      -- `Some(new value)`
  | remove                 -- `None`
  | panic
deriving Repr, DecidableEq

inductive Out where
  | none
  | some (v vi : Nat)
  | someKV (ki v vi : Nat)
  | exists_ (v vi : Nat)            -- try_insert refused: current value
  | ok
  | panic
deriving Repr, DecidableEq, Inhabited

/-! ## bins -/

def Bin.nodes : Bin → List Node
  | .empty => []
  | .list ns => ns
  | .tree _ o => o

def Bin.ofNodes : List Node → Bin
  | [] => .empty
  | ns => .list ns

/-- `HashMap::untreeify`: fresh plain nodes in `first` order -/
def untreeify (order : List Node) : Bin := Bin.ofNodes order

def listFind (h k : Nat) : List Node → Option Node
  | [] => none
  | n :: ns => if n.hash == h && n.key == k then some n else listFind h k ns

/-- position (1-based) of the match, or the length if there is none: `bin_count` of `put` -/
def listBinCount (h k : Nat) : List Node → Nat → Nat
  | [], c => c
  | n :: ns, c => if n.hash == h && n.key == k then c + 1 else
      match ns with
      | [] => c + 1
      | _ => listBinCount h k ns (c + 1)

def listSetVal (h k v vi : Nat) : List Node → List Node
  | [] => []
  | n :: ns => if n.hash == h && n.key == k then { n with val := v, vi := vi } :: ns
               else n :: listSetVal h k v vi ns

def listRemove (h k : Nat) : List Node → List Node
  | [] => []
  | n :: ns => if n.hash == h && n.key == k then ns else n :: listRemove h k ns

/-- `Table::find` / `TreeBin::find` on a quiescent bin -/
def Bin.find (h k : Nat) : Bin → Option Node
  | .empty => none
  | .list ns => listFind h k ns
  | .tree t _ => RB.find h k t

/-! ## table -/

def tableBin (t : Table) (i : Nat) : Bin := t.getD i .empty

def emptyTable (n : Nat) : Table := List.replicate n .empty

/-- `TreeBin::remove_tree_node` + the caller's untreeify: the new bin -/
def treeRemove (h k : Nat) (t : RB.T) (order : List Node) : Bin :=
  let order' := listRemove h k order
  match order' with
  | [] => .empty                                   -- `first == null`: root = null, untreeify(null)
  | _ =>
    if RB.tooSmall t then untreeify order'         -- shape test on the not yet updated tree
    else .tree (RB.removeNode h k t) order'

/-! ## transfer (single thread: the whole table, bin by bin) -/

/-- index of the first node of the maximal suffix with constant `hash & n` (`last_run`) -/
def lastRunStart (n : Nat) : List Node → Nat
  | [] => 0
  | [_] => 0
  | a :: b :: rest =>
    let r := lastRunStart n (b :: rest)
    if r == 0 && (runBit a.hash n == runBit b.hash n) then 0 else r + 1

/-- split of a list bin: `(low, high)`; the `last_run` suffix is reused, the prefix is copied
node by node and *prepended* -/
def splitList (n : Nat) (ns : List Node) : List Node × List Node :=
  let k := lastRunStart n ns
  let suffix := ns.drop k
  let pre := ns.take k
  let runBitLast := match suffix with | [] => 0 | a :: _ => runBit a.hash n
  let lo0 := if runBitLast == 0 then suffix else []
  let hi0 := if runBitLast == 0 then [] else suffix
  pre.foldl (fun (acc : List Node × List Node) nd =>
    if runBit nd.hash n == 0 then (nd :: acc.1, acc.2) else (acc.1, nd :: acc.2)) (lo0, hi0)

/-- split of a tree bin -/
def splitTree (n : Nat) (t : RB.T) (order : List Node) : Bin × Bin :=
  let lo := order.filter (fun nd => runBit nd.hash n == 0)
  let hi := order.filter (fun nd => runBit nd.hash n != 0)
  let mk (mine other : List Node) : Bin :=
    if untreeifyLow mine.length then untreeify mine
    else if other.length != 0 then .tree (RB.ofList mine) mine
    else .tree t order                             -- the old TreeBin object is reused
  let mkHi (mine other : List Node) : Bin :=
    if untreeifyHigh mine.length then untreeify mine
    else if other.length != 0 then .tree (RB.ofList mine) mine
    else .tree t order
  (mk lo hi, mkHi hi lo)

def splitBin (n : Nat) : Bin → Bin × Bin
  | .empty => (.empty, .empty)
  | .list ns => let (lo, hi) := splitList n ns; (Bin.ofNodes lo, Bin.ofNodes hi)
  | .tree t o => splitTree n t o

/-- the table after a complete `transfer`: `next[i]`, `next[i+n]` for every `i` -/
def transferTable (t : Table) : Table :=
  let n := t.length
  let parts := t.map (splitBin n)
  let lows := parts.map (·.1)
  let highs := parts.map (·.2)
  let nt := lows ++ highs
  -- the new table has `nextTableLen n` bins (`n << 1`); pad/truncate so a wrong factor shows
  (nt ++ emptyTable (nextTableLen n - nt.length)).take (nextTableLen n)

/-- `transfer(table, null)` run to completion by one thread -/
def transfer (m : Map) : Map :=
  match m.table with
  | none => m
  | some t =>
    { m with table := some (transferTable t), sizeCtl := postResizeThreshold t.length,
             resizes := m.resizes + 1 }

/-! ## control: init_table, try_presize, add_count -/

def initTable (m : Map) : Map :=
  match m.table with
  | some (_ :: _) => m
  | _ =>
    let n := initCapacity m.sizeCtl
    { m with table := some (emptyTable n), sizeCtl := initThreshold n }

def tableLen (m : Map) : Nat := match m.table with | none => 0 | some t => t.length

/-- `try_presize(size)` -/
def tryPresize (size : Nat) (m : Map) : Map :=
  let req := tryPresizeCap size
  go req 64 m
where
  go (req : Int) : Nat → Map → Map
    | 0, m => m
    | fuel + 1, m =>
      if m.sizeCtl < 0 then m
      else if tableLen m == 0 then
        let newCap := tryPresizeInitCap req m.sizeCtl
        go req fuel { m with table := some (emptyTable newCap), sizeCtl := tryPresizeThreshold newCap }
      else if tryPresizeDone req m.sizeCtl (tableLen m) then m
      else go req fuel (transfer m)

/-- `add_count(n, resize_hint)` -/
def addCount (n : Int) (hint : Option Nat) (m : Map) : Map :=
  let old := m.count
  let m := { m with count := addCountStored old n }
  match hint with
  | none => m
  | some _ => go 64 (addCountLocal old n) m
where
  go : Nat → Int → Map → Map
    | 0, _, m => m
    | fuel + 1, count, m =>
      if addCountBelow count m.sizeCtl then m
      else match m.table with
        | none => m
        | some t =>
          if addCountAtMax t.length then m
          else if m.sizeCtl < 0 then m           -- cannot happen single-threaded
          else
            let m := transfer m
            go fuel m.count m

/-- `treeify_bin(tab, index)` -/
def treeifyBin (i : Nat) (m : Map) : Map :=
  match m.table with
  | none => m
  | some t =>
    if treeifyTooSmall t.length then tryPresize (treeifyPresizeArg t.length) m
    else match tableBin t i with
      | .list ns => { m with table := some (t.set i (.tree (RB.ofList ns) ns)) }
      | _ => m

/-! ## the operations -/

/-- `put(key, value, no_replacement)` -/
def put (k ki v vi : Nat) (noRepl : Bool) (m0 : Map) : Map × Out :=
  let h := m0.hash k
  let m := initTable m0
  match m.table with
  | none => (m, .none)
  | some t =>
    let i := bini h t.length
    let nd : Node := { hash := h, key := k, ki := ki, val := v, vi := vi }
    match tableBin t i with
    | .empty =>
      let m := { m with table := some (t.set i (.list [nd])) }
      (addCount 1 (some 0) m, .none)
    | .list ns =>
      match listFind h k ns with
      | some old =>
        if noRepl then (m, .exists_ old.val old.vi)
        else
          let binCount := listBinCount h k ns 0
          let m := { m with table := some (t.set i (.list (listSetVal h k v vi ns))) }
          let m := if treeifyCond binCount then treeifyBin i m else m
          (m, .some old.val old.vi)
      | none =>
        let binCount := listBinCount h k ns 0
        let m := { m with table := some (t.set i (.list (ns ++ [nd]))) }
        let m := if treeifyCond binCount then treeifyBin i m else m
        (addCount 1 (some binCount) m, .none)
    | .tree tr order =>
      match RB.find h k tr with
      | some old =>
        if noRepl then (m, .exists_ old.val old.vi)
        else
          let m := { m with table := some (t.set i (.tree (RB.setVal h k v vi tr) (listSetVal h k v vi order))) }
          let m := if treeifyCond 2 then treeifyBin i m else m
          (m, .some old.val old.vi)
      | none =>
        -- (`break` leaves the loop before the treeify test)
        let m := { m with table := some (t.set i (.tree (RB.putNew tr nd) (nd :: order))) }
        (addCount 1 (some 2) m, .none)

/-- `replace_node(key, new_value, observed_value)`; `observed` is a value id -/
def replaceNode (k : Nat) (newVal : Option (Nat × Nat)) (observed : Option Nat) (m : Map) : Map × Out :=
  let h := m.hash k
  match m.table with
  | none => (m, .none)
  | some t =>
    if t.length == 0 then (m, .none) else
    let i := bini h t.length
    let b := tableBin t i
    match b.find h k with
    | none => (m, .none)
    | some old =>
      if !(match observed with | none => true | some ov => ov == old.vi) then (m, .none)
      else
        let b' : Bin :=
          match newVal, b with
          | some (v, vi), .list ns => .list (listSetVal h k v vi ns)
          | some (v, vi), .tree tr o => .tree (RB.setVal h k v vi tr) (listSetVal h k v vi o)
          | none, .list ns => Bin.ofNodes (listRemove h k ns)
          | none, .tree tr o => treeRemove h k tr o
          | _, .empty => .empty
        let m := { m with table := some (t.set i b') }
        let m := if newVal.isNone then addCount (-1) none m else m
        (m, .someKV old.ki old.val old.vi)

/-- `compute_if_present(key, f)` -/
def computeIfPresent (k : Nat) (f : Nat → Nat → Nat → CbRes) (m0 : Map) : Map × Out :=
  let h := m0.hash k
  let m := initTable m0
  match m.table with
  | none => (m, .none)
  | some t =>
    let i := bini h t.length
    let b := tableBin t i
    match b.find h k with
    | none => (m, .none)
    | some old =>
      match f old.key old.val old.vi with
      | .panic => (m, .panic)
      | .keep v vi =>
        let b' : Bin :=
          match b with
          | .list ns => .list (listSetVal h k v vi ns)
          | .tree tr o => .tree (RB.setVal h k v vi tr) (listSetVal h k v vi o)
          | .empty => .empty
        ({ m with table := some (t.set i b') }, .some v vi)
      | .remove =>
        let (b', binCount) : Bin × Nat :=
          match b with
          | .list ns => (Bin.ofNodes (listRemove h k ns), listBinCount h k ns 0)
          | .tree tr o => (treeRemove h k tr o, 2)
          | .empty => (.empty, 0)
        let m := { m with table := some (t.set i b') }
        (addCount (-1) none m, .none)

/-- iteration order of `NodeIter` on a quiescent table: bins by index, each in `next` order -/
def entries (m : Map) : List Node :=
  match m.table with
  | none => []
  | some t => t.flatMap Bin.nodes

def len (m : Map) : Nat := if m.count < 0 then 0 else m.count.toNat

def get (k : Nat) (m : Map) : Option Node :=
  match m.table with
  | none => none
  | some t =>
    if t.length == 0 then none
    else (tableBin t (bini (m.hash k) t.length)).find (m.hash k) k

/-- `clear` -/
def clear (m : Map) : Map :=
  match m.table with
  | none => m
  | some t =>
    let delta : Int := - Int.ofNat (entries m).length
    let m := { m with table := some (emptyTable t.length) }
    if delta != 0 then addCount delta none m else m

/-- `retain(f)` / `retain_force(f)`: `f` may panic at some call. The predicate gets
`(key, value payload, value id)`. `force = false` passes the observed value id. -/
def retainGo (force : Bool) (f : Nat → Nat → Nat → Option Bool) : List Node → Map → Map × Out
  | [], m => (m, .ok)
  | nd :: rest, m =>
    match f nd.key nd.val nd.vi with
    | none => (m, .panic)
    | some true => retainGo force f rest m
    | some false =>
      let (m, _) := replaceNode nd.key none (if force then none else some nd.vi) m
      retainGo force f rest m

def retain (force : Bool) (f : Nat → Nat → Nat → Option Bool) (m : Map) : Map × Out :=
  retainGo force f (entries m) m

/-- `reserve(additional)` -/
def reserve (additional : Nat) (m : Map) : Map := tryPresize (reserveArg (len m) additional) m

/-- `with_capacity(c)` on a fresh map -/
def withCapacity (hash : Nat → Nat) (c : Nat) : Map :=
  if c == 0 then { hash := hash }
  else
    let cap := presizeCap c
    { hash := hash, table := some (emptyTable cap), sizeCtl := presizeThreshold cap }

def putAll (items : List (Nat × Nat × Nat × Nat)) (m : Map) : Map :=
  items.foldl (fun m (k, ki, v, vi) => (put k ki v vi false m).1) m

/-- `Extend::extend` with lower size hint `hint` -/
def extend (hint : Nat) (items : List (Nat × Nat × Nat × Nat)) (m : Map) : Map :=
  let r := if len m == 0 then hint else (hint + 1) / 2
  putAll items (reserve r m)

/-- `FromIterator::from_iter`. `hint` is the lower size hint the iterator reports *before* its
first item is taken (the harness iterator lowers it by one per item, so after the first `next()`
it reports `hint - 1`); the map is created `with_capacity(lower.saturating_add(1))`. -/
def collect (hash : Nat → Nat) (hint : Nat) (items : List (Nat × Nat × Nat × Nat)) : Map :=
  match items with
  | [] => { hash := hash }
  | _ => putAll items (withCapacity hash ((hint - 1) + 1))

/-- `Clone::clone` -/
def clone (m : Map) : Map :=
  putAll ((entries m).map (fun nd => (nd.key, nd.ki, nd.val, nd.vi))) (withCapacity m.hash (len m))

/-- `guarded_eq` / `PartialEq` on payloads -/
def mapEq (a b : Map) : Bool :=
  len a == len b &&
    (entries a).all (fun nd => match get nd.key b with | some x => x.val == nd.val | none => false)

end Flurry.Seq
