import Flurry.RB
/-! # The traverser (`src/iter/traverser.rs`: `NodeIter`, `TableStack`, `push_state`,
`recover_state`) on a *frozen* chain of tables

`chain[0]` is the table the iterator was created on, `chain[j+1]` the table that the forwarding
markers of `chain[j]` point to. A bin is either the list of nodes a traversal of its `next`
pointers yields (list bins and tree bins alike: tree bins are traversed through `first`/`next`),
or `moved`. The structure does not change during the traversal ("frozen"): that is the situation
of an iterator running while a resize is paused between two bins, for any subset of moved bins
and any nesting depth; the dynamic case (concurrent mutation) is judged on recorded histories.

Definitions only; `traverse_frozen` is proved in `Flurry/Lemmas/Iter.lean`. -/
namespace Flurry.Seq.Iter
open Flurry

inductive FBin where
  | nodes (ns : List Node)
  | moved
deriving Repr, DecidableEq, Inhabited

abbrev FTable := List FBin
abbrev Chain := List FTable

/-- a saved frame: `(length, index, table)` of `TableStack` -/
structure Frame where
  length : Nat
  index : Nat
  table : Nat      -- position in the chain
deriving Repr, DecidableEq

structure St where
  /-- current table (position in the chain); `none` = no table -/
  table : Option Nat
  stack : List Frame := []
  index : Nat := 0
  baseIndex : Nat := 0
  baseLimit : Nat
  baseSize : Nat
deriving Repr

def tableAt (c : Chain) (j : Nat) : FTable := c.getD j []

def initSt (c : Chain) : St :=
  match c with
  | [] => { table := none, baseLimit := 0, baseSize := 0 }
  | t :: _ => { table := some 0, baseLimit := t.length, baseSize := t.length }

/-- `recover_state(n)` -/
def recoverGo (fuel : Nat) (s : St) (n : Nat) : St × Nat :=
  match fuel with
  | 0 => (s, n)
  | fuel + 1 =>
    match s.stack with
    | [] => (s, n)
    | f :: rest =>
      if s.index + f.length < n then
        -- the high side of this bucket has not been visited: stay in this frame
        ({ s with index := s.index + f.length }, n)
      else
        -- pop
        recoverGo fuel { s with index := f.index, table := some f.table, stack := rest } f.length

def recover (s : St) (n : Nat) : St :=
  let (s', n') := recoverGo (s.stack.length + 1) s n
  if s'.stack.isEmpty then
    -- the loop ended because everything was popped (a `break` leaves the stack non-empty):
    -- move to the next part of the top-level bin
    let idx := s'.index + s'.baseSize
    if idx >= n' then { s' with baseIndex := s'.baseIndex + 1, index := s'.baseIndex + 1 }
    else { s' with index := idx }
  else s'

/-- One turn of the `loop` in `NodeIter::next` when there is no pending node: returns the nodes of
the bin reached (they are yielded one by one through `prev.next`) and the next state, or `none`
when the traversal is over. -/
def advance (c : Chain) (s : St) : Option (List Node × St) :=
  match s.table with
  | none => none
  | some j =>
    let t := tableAt c j
    if s.baseIndex >= s.baseLimit || t.length <= s.index then none
    else
      let i := s.index
      let n := t.length
      match t.getD i (.nodes []) with
      | .moved =>
        -- descend into the next table, remembering where we were
        some ([], { s with table := some (j + 1), stack := { length := n, index := i, table := j } :: s.stack })
      | .nodes ns =>
        let s' :=
          if s.stack.isEmpty then
            let idx := i + s.baseSize
            if idx >= n then { s with baseIndex := s.baseIndex + 1, index := s.baseIndex + 1 }
            else { s with index := idx }
          else recover s n
        some (ns, s')

/-- run the traverser to exhaustion (fuel-bounded); the nodes in yield order -/
def traverse (c : Chain) : Nat → St → List Node
  | 0, _ => []
  | fuel + 1, s =>
    match advance c s with
    | none => []
    | some (ns, s') => ns ++ traverse c fuel s'

/-- what a lookup-style resolution of bin `i` of table `j` contains: its nodes, or, if moved,
the contents of bins `i` and `i + n` of the next table -/
def resolve (c : Chain) : Nat → Nat → Nat → List Node
  | 0, _, _ => []
  | fuel + 1, j, i =>
    match (tableAt c j).getD i (.nodes []) with
    | .nodes ns => ns
    | .moved => resolve c fuel (j + 1) i ++ resolve c fuel (j + 1) (i + (tableAt c j).length)

/-- everything reachable from the first table -/
def contents (c : Chain) : List Node :=
  (List.range (tableAt c 0).length).flatMap fun i => resolve c (c.length + 1) 0 i

/-- the chain is well formed: every next table is twice as long, the last table has no moved bin,
lengths are positive -/
def ChainWF (c : Chain) : Prop :=
  (∀ j, j + 1 < c.length → (tableAt c (j + 1)).length = 2 * (tableAt c j).length) ∧
  (∀ j, j < c.length → 0 < (tableAt c j).length) ∧
  (∀ t, c.getLast? = some t → ∀ b ∈ t, b ≠ .moved)

/-- enough fuel for any traversal of `c`: every `advance` either yields a bin or pushes a frame -/
def fuelFor (c : Chain) : Nat := (c.map List.length).sum * (c.length + 2) + 2

end Flurry.Seq.Iter
