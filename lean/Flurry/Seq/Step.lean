import Flurry.Seq.Inv
/-! # Operation sequences: the model's `step` and the reference map's `step`

`Op` is the operation alphabet of property C02 on one map (operations that involve a second map
— clone, equality, set relations — are derived from these and from `entries`).
Callbacks are data: `cip` carries the closure's behaviour as a function of the value it is shown
(`CbRes`, which may be `panic`), `retain` carries the predicate (`Option Bool`, `none` = panic). -/
namespace Flurry.Seq
open Flurry Flurry.Gen

inductive Op where
  | ins (k ki v vi : Nat)
  | tryIns (k ki v vi : Nat)
  | get (k : Nat)
  | getKV (k : Nat)
  | has (k : Nat)
  | rm (k : Nat)
  | rmEntry (k : Nat)
  | cip (k : Nat) (f : Nat → Nat → Nat → CbRes)
  | retain (force : Bool) (f : Nat → Nat → Nat → Option Bool)
  | clear
  | reserve (n : Nat)
  | extend (hint : Nat) (items : List (Nat × Nat × Nat × Nat))
  | len
  | isEmpty

/-- what an operation answers (iteration is handled separately: `entries`) -/
inductive Ans where
  | none
  | some (v vi : Nat)
  | someKV (ki v vi : Nat)
  | exists_ (v vi : Nat)
  | bool (b : Bool)
  | nat (n : Nat)
  | ok
  | panic
deriving DecidableEq, Repr

def ansOfOut : Out → Ans
  | .none => .none
  | .some v vi => .some v vi
  | .someKV ki v vi => .someKV ki v vi
  | .exists_ v vi => .exists_ v vi
  | .ok => .ok
  | .panic => .panic

/-- one public operation on the model -/
def step (m : Map) : Op → Map × Ans
  | .ins k ki v vi => let r := put k ki v vi false m; (r.1, ansOfOut r.2)
  | .tryIns k ki v vi => let r := put k ki v vi true m; (r.1, ansOfOut r.2)
  | .get k => (m, match get k m with | some n => .some n.val n.vi | none => .none)
  | .getKV k => (m, match get k m with | some n => .someKV n.ki n.val n.vi | none => .none)
  | .has k => (m, .bool (get k m).isSome)
  | .rm k =>
    let r := replaceNode k none none m
    (r.1, match r.2 with | .someKV _ v vi => .some v vi | o => ansOfOut o)
  | .rmEntry k => let r := replaceNode k none none m; (r.1, ansOfOut r.2)
  | .cip k f => let r := computeIfPresent k f m; (r.1, ansOfOut r.2)
  | .retain force f => let r := retain force f m; (r.1, ansOfOut r.2)
  | .clear => (clear m, .ok)
  | .reserve n => (reserve n m, .ok)
  | .extend hint items => (extend hint items m, .ok)
  | .len => (m, .nat (len m))
  | .isEmpty => (m, .bool (len m == 0))

def run (m : Map) : List Op → Map × List Ans
  | [] => (m, [])
  | op :: ops => let r := step m op; let rs := run r.1 ops; (rs.1, r.2 :: rs.2)

/-! ## the reference map -/

/-- a finite reference map: the function plus the number of keys it holds -/
structure RefMap where
  f : Ref
  size : Nat

namespace RefMap
def empty : RefMap := ⟨Ref.empty, 0⟩
end RefMap

/-- one operation on the reference. `keys` lists the keys present (needed by `retain`, whose
predicate may panic part-way: the reference then keeps an arbitrary processed prefix, so `retain`
with a panicking predicate is specified separately, see C18). -/
def Ref.step (r : Ref) : Op → Ref × Ans
  | .ins k ki v vi => (r.insert k ki v vi, match r k with | some (_, v0, vi0) => .some v0 vi0 | none => .none)
  | .tryIns k ki v vi =>
    match r k with
    | some (_, v0, vi0) => (r, .exists_ v0 vi0)
    | none => (r.insert k ki v vi, .none)
  | .get k => (r, match r k with | some (_, v, vi) => .some v vi | none => .none)
  | .getKV k => (r, match r k with | some (ki, v, vi) => .someKV ki v vi | none => .none)
  | .has k => (r, .bool (r k).isSome)
  | .rm k => (r.remove k, match r k with | some (_, v, vi) => .some v vi | none => .none)
  | .rmEntry k => (r.remove k, match r k with | some (ki, v, vi) => .someKV ki v vi | none => .none)
  | .cip k f =>
    match r k with
    | none => (r, .none)
    | some (_, v, vi) =>
      match f k v vi with
      | .panic => (r, .panic)
      | .keep v' vi' => (r.setVal k v' vi', .some v' vi')
      | .remove => (r.remove k, .none)
  | .retain _ f => (r.filter (fun k v vi => (f k v vi).getD true), .ok)
  | .clear => (Ref.empty, .ok)
  | .reserve _ => (r, .ok)
  | .extend _ items => (items.foldl (fun r (k, ki, v, vi) => r.insert k ki v vi) r, .ok)
  | .len => (r, .ok)        -- answered from the model's own count, see `len_spec`
  | .isEmpty => (r, .ok)

/-- predicates that never panic -/
def Op.total : Op → Prop
  | .retain _ f => ∀ k v vi, (f k v vi).isSome
  | _ => True

/-- operations whose reference answer is a function of the reference map alone -/
def Op.answered : Op → Bool
  | .len | .isEmpty => false
  | _ => true

end Flurry.Seq
