import Flurry.Seq.Model
import Flurry.RBInv
/-! # Well-formedness of the sequential model state and the abstraction to a lookup function

Definitions only. `WF m` is what property C05 calls "well formed at quiescence"; `lookup m` is
the abstract map (key ↦ stored node) that C02's refinement theorem relates to the reference map. -/
namespace Flurry.Seq
open Flurry Flurry.Gen

def IsPow2 (n : Nat) : Prop := ∃ k, n = 2 ^ k

/-- a node sits in the bin its hash selects, and its hash is the hash of its key -/
def NodeOk (hash : Nat → Nat) (n i : Nat) (nd : Node) : Prop :=
  nd.hash = hash nd.key ∧ bini nd.hash n = i

def KeysNodup (ns : List Node) : Prop := (ns.map (·.key)).Nodup

/-- well-formedness of the bin at index `i` of a table of `n` bins -/
def BinWF (hash : Nat → Nat) (n i : Nat) : Bin → Prop
  | .empty => True
  | .list ns => ns ≠ [] ∧ (∀ nd ∈ ns, NodeOk hash n i nd) ∧ KeysNodup ns
  | .tree t o => o ≠ [] ∧ (∀ nd ∈ o, NodeOk hash n i nd) ∧ KeysNodup o ∧
      RB.TreeInv t ∧ (RB.toList t).Perm o

def TableWF (hash : Nat → Nat) (t : Table) : Prop :=
  IsPow2 t.length ∧ t.length ≤ MAXIMUM_CAPACITY ∧
  ∀ i, i < t.length → BinWF hash t.length i (tableBin t i)

/-- **well formed at quiescence** (C05): table length a power of two `≤ 2^30`; every node in
the bin its hash selects; no key twice; tree bins are red-black trees holding exactly their
traversal list; the count equals the number of entries; the threshold is three quarters of the
length (and not yet reached, unless the table is at its maximum); no resize is in progress
(`size_ctl ≥ 0`). Before the table exists: no entries, `size_ctl ≥ 0`. -/
def WF (m : Map) : Prop :=
  match m.table with
  | none => m.count = 0 ∧ 0 ≤ m.sizeCtl
  | some t =>
    TableWF m.hash t ∧ m.count = Int.ofNat (entries m).length ∧
    m.sizeCtl = loadFactor (Int.ofNat t.length) ∧
    (m.count < m.sizeCtl ∨ t.length = MAXIMUM_CAPACITY)

/-- the abstract map: what a lookup of `k` finds -/
def lookup (m : Map) (k : Nat) : Option Node := get k m

/-- the reference map of C02 as a function `key ↦ (stored key instance, value, value id)` -/
abbrev Ref := Nat → Option (Nat × Nat × Nat)

def absMap (m : Map) : Ref := fun k => (get k m).map fun nd => (nd.ki, nd.val, nd.vi)

namespace Ref
def empty : Ref := fun _ => none
/-- insert keeps the key instance stored first -/
def insert (r : Ref) (k ki v vi : Nat) : Ref := fun k' =>
  if k' = k then (match r k with | some (ki0, _, _) => some (ki0, v, vi) | none => some (ki, v, vi)) else r k'
def remove (r : Ref) (k : Nat) : Ref := fun k' => if k' = k then none else r k'
def setVal (r : Ref) (k v vi : Nat) : Ref := fun k' =>
  if k' = k then (r k).map (fun (ki0, _, _) => (ki0, v, vi)) else r k'
def filter (r : Ref) (p : Nat → Nat → Nat → Bool) : Ref := fun k =>
  match r k with
  | some (ki, v, vi) => if p k v vi then some (ki, v, vi) else none
  | none => none
end Ref

end Flurry.Seq
