/-! # Histories and linearizability of the per-key API (C01, C08)

(C13 port of `Flurry/Lin.lean` to the per-key operations of `Flurry/Lin2.lean`, i.e. with `retain`'s conditional removal `condRm`; below, "`Proto/Bin`" / `Base.` is `Flurry.Proto.BinR.Base` (`Proto/BinRBase.lean`) and "`Proto/BinW`" is `Flurry.Proto.BinR` (`Proto/BinR.lean`), which in addition has the `retain` visit steps.)

By locality (Herlihy & Wing) a history of a map whose operations each touch one key is
linearizable iff its projection on every key is; this file therefore treats one key.
The sequential specification of one key is `specStep2`; `Linearizable2` is the usual definition
(a total order of all calls that respects real-time order and replays through the specification);
`validate` is an executable certificate checker: the harness searches for a witness order on the
recorded history of the real implementation and the Lean driver validates it (`validate_sound`
says an accepted certificate proves `Linearizable2`). `lin_of_points` is the generic
"linearization points" lemma used for the model-level proofs.

Definitions (and the executable checker) only; proofs are in `Flurry/Lemmas/Lin2.lean`. -/
namespace Flurry.Lin2

/-- state of one key: absent, or `(payload, value id)` -/
abbrev KSt := Option (Nat × Nat)

inductive KOp2 where
  | ins (v vi : Nat)
  | tryIns (v vi : Nat)
  | get
  | has
  | rm
  /-- compute_if_present with `|v| Some(v + 1)`; the new value gets id `nvi` -/
  | cipInc (nvi : Nat)
  /-- compute_if_present with `|_| None` -/
  | cipRm
  /-- `retain`'s conditional removal (`replace_node(k, None, Some(v))`): remove the key iff its
  current value is the one with id `vi` (pointer identity of the value the predicate inspected) -/
  | condRm (vi : Nat)
deriving DecidableEq, Repr

inductive KRes where
  | none
  | some (v vi : Nat)
  | exists_ (v vi : Nat)
  | bool (b : Bool)
deriving DecidableEq, Repr

def resOf : KSt → KRes
  | .none => .none
  | .some (v, vi) => .some v vi

/-- the sequential specification of one key -/
def specStep2 (st : KSt) : KOp2 → KSt × KRes
  | .ins v vi => (some (v, vi), resOf st)
  | .tryIns v vi =>
    match st with
    | none => (some (v, vi), .none)
    | some (v0, vi0) => (st, .exists_ v0 vi0)
  | .get => (st, resOf st)
  | .has => (st, .bool st.isSome)
  | .rm => (none, resOf st)
  | .cipInc nvi =>
    match st with
    | none => (none, .none)
    | some (v, _) => (some (v + 1, nvi), .some (v + 1) nvi)
  | .cipRm => (none, .none)
  | .condRm vi =>
    match st with
    | none => (none, .none)
    | some (v, vi0) => (if vi0 = vi then none else some (v, vi0), .none)

structure Call2 where
  tid : Nat
  op : KOp2
  res : KRes
  /-- invocation and response times (positions in the global event order) -/
  inv : Nat
  resp : Nat
deriving DecidableEq, Repr

abbrev History2 := List Call2

/-- replay2 the calls `order` (indices into `h`) through the specification, checking results -/
def replay2 (h : History2) : List Nat → KSt → Option KSt
  | [], st => some st
  | i :: rest, st =>
    match h[i]? with
    | none => none
    | some c =>
      let r := specStep2 st c.op
      if r.2 = c.res then replay2 h rest r.1 else none

/-- `a` may be ordered before `b` unless `b` responded before `a` was invoked -/
def mayPrecede (a b : Call2) : Bool := !(b.resp < a.inv)

/-- every earlier element of the order may precede every later one -/
def realTimeOk (h : History2) : List Nat → Bool
  | [] => true
  | i :: rest =>
    (rest.all fun j => match h[i]?, h[j]? with
      | some a, some b => mayPrecede a b
      | _, _ => false) && realTimeOk h rest

def isPermOfRange (order : List Nat) (n : Nat) : Bool :=
  order.length == n && (List.range n).all (fun i => order.contains i)

/-- executable certificate check -/
def validate (h : History2) (order : List Nat) (init fin : KSt) : Bool :=
  isPermOfRange order h.length && realTimeOk h order && replay2 h order init == some fin

/-- the definition: some total order of all calls respects real time and is a legal sequential
execution from `init` to `fin` with exactly the observed results -/
def Linearizable2 (h : History2) (init fin : KSt) : Prop :=
  ∃ order : List Nat,
    order.Perm (List.range h.length) ∧
    (∀ (p q : Nat) (a b : Call2), p < q → order[p]? >>= (h[·]?) = some a → order[q]? >>= (h[·]?) = some b →
        ¬ (b.resp < a.inv)) ∧
    replay2 h order init = some fin

/-- brute-force search for a witness (used by the driver on short histories when the harness
supplies none; complete by construction on the histories it is run on) -/
def search (h : History2) (init fin : KSt) : Option (List Nat) :=
  go (h.length + 1) (List.range h.length) [] init
where
  go : Nat → List Nat → List Nat → KSt → Option (List Nat)
    | 0, _, _, _ => none
    | fuel + 1, remaining, acc, st =>
      match remaining with
      | [] => if st = fin then some acc.reverse else none
      | _ =>
        remaining.firstM fun i =>
          match h[i]? with
          | none => none
          | some c =>
            -- `i` may go next only if no other remaining call responded before `i` was invoked
            if remaining.all (fun j => j == i || match h[j]? with | some d => mayPrecede c d | none => false) then
              let r := specStep2 st c.op
              if r.2 = c.res then go fuel (remaining.erase i) (i :: acc) r.1 else none
            else none

end Flurry.Lin2
