import Flurry.Props.C01BinGN
import Flurry.Lemmas.BinGNPLin
/-! # C01 / C05 / C07 / C08 / C10 (bin level): one bin lineage with list AND tree bins through ANY NUMBER of
successive resizes is linearizable under every interleaving

`Proto/BinGN.lean` (see `Props/C01BinGN.lean` for the model, its validation by execution and the generation / lock
invariants proved directly on it). Here: the structural invariant, the abstract invariance of EVERY step of a
transfer, and linearizability.

**Main theorem** (`binGN_linearizable_quiescent`): for every reachable quiescent state and every key, the completed
calls on that key are linearizable from "absent" to the key's abstract state — any number of threads, any number of
successive resizes, list bins and tree bins (treeify, untreeify, tree writers with bin mutex + write lock + WAITER,
lock-protocol readers, list readers / iterators), transfers of empty / list / tree bins including the `TreeBin`
object that is re-used by a transfer — and re-used again by the next one —, readers and writers that hold a table
pointer / sit inside a `TreeBin` arbitrarily many generations old. `binGN_linearizable` is the same for every
reachable state, with the writers past their linearization point counted as completed (`callsOnExt`).

**How it is proved.** `Lemmas/BinGNP*.lean` is the proof development `Lemmas/BinG*.lean` (15 500 lines, one resize, three
cells) re-done for the cells `(g, j)` in the namespace `Flurry.Proto.BinGNP` (file by file, same lemma names; the model
is re-exported there, `Cid = Nat × Nat`, a "table" is a generation). What changed: `HInv.side` is `key % 2^g = j` for
ALL cells — it yields the disjointness of the structures of any two cells but a parent under transfer and its
children; `Foreign s k j` is "on the chain of ANY cell in which `k` does not live" (`Good.foreign` of
`Lemmas/BinNGhost.lean`); `Writable s id` (`Lemmas/BinGNPStore.lean`); `XInv` = generation structure + plan; the
generation structure (`XShape`), "a planned fresh `TreeBin` is in no cell" (`FreshInv` → `PlanSep` → `PubRead`) are
proved directly on the model (`Lemmas/BinGNGen*.lean`, `BinGNNext.lean`, `BinGNPre.lean`, `BinGNFresh.lean`) and fed
into the per-transition lemmas as hypotheses about the successor state (`Lemmas/BinGNPShape.lean`,
`BinGNPPlanSep.lean`); the final induction is `Lemmas/BinGNPLin.lean`. Linearization points as in
`Props/C01BinG.lean`; readers in hindsight (`Good`), across any number of forwardings.

(This file supersedes the paragraph "What is NOT proved" in the header of `Props/C01BinGN.lean`: `HInv`, `PlanInv`,
`BitsInv`, `DInv` of `Lemmas/BinGNInvDefs.lean` are the fields of `BinGNP.Inv` proved here, and the ghost layer is
`Lemmas/BinGNPGhost*.lean` / `BinGNPLin*.lean`.) -/
namespace Flurry.Proto.BinGN
open Flurry.Lin

/-- **Structural invariant** (`Lemmas/BinGNPInv.lean` = `BinG.Inv` for the cells `(g, j)`: well-formed chains in all
cells of all generations, distinct keys, every key of cell `(g, j)` satisfies `key % 2^g = j`, lock words / mutexes /
read-write lock bits match the program counters, validated holders see their structure in their cell, tree = list
for every `TreeBin` in a cell whose write lock is free, the planned / stored children of a cell under transfer hold
exactly its two sides, the generation structure, …) in every reachable state -/
theorem binGN_inv {n : Nat} {s : State} (hr : Reachable n s) : Flurry.Proto.BinGNP.Inv s :=
  Flurry.Proto.BinGNP.reachable_inv hr

/-- **a transfer does not change what the bins contain**: NO step of a resizing thread — in any generation:
choosing and loading a cell, the CAS of the marker into an empty cell, lock / re-check, the split of a list bin or of
a tree bin (`xBuild`, `yBuild`), the stores of the low child, of the high child and of the forwarding marker (where
the live structure of every key of the cell switches from the old list / `TreeBin` to a new one), unlock, the commit —
and no start of a resize (allocation of the next generation) changes the abstract state of any key -/
theorem transfer_abs_invariant {n : Nat} {s s' : State} (hr : Reachable n s) {t : Nat}
    {inv : Option (Nat × KOp)} {lo : Bool} {mt : Option Nat} {rz sm sm2 : Bool} {pick : Nat} {l : Local}
    (hl : s.threads[t]? = some l)
    (hpc : Flurry.Proto.BinGNP.xPc l.pc = true ∨ (l.pc = .idle ∧ rz = true ∧ s.resizing = false))
    (hs : step s t inv lo mt rz sm sm2 pick = some s') (k : Nat) : absOf s' k = absOf s k :=
  Flurry.Proto.BinGNP.transfer_abs_invariant_aux hr hl hpc hs k

/-- no step of a thread without a call in flight (the resizing thread, a treeify thread, an idle thread) changes the
abstract state of any key -/
theorem nocall_abs_invariant {n : Nat} {s s' : State} (hr : Reachable n s) {t : Nat}
    {inv : Option (Nat × KOp)} {lo : Bool} {mt : Option Nat} {rz sm sm2 : Bool} {pick : Nat} {l : Local}
    (hl : s.threads[t]? = some l) (hc : l.call = none)
    (hs : step s t inv lo mt rz sm sm2 pick = some s') (k : Nat) : absOf s' k = absOf s k :=
  Flurry.Proto.BinGNP.nocall_abs_invariant_aux hr hl hc hs k

/-- **C01, bin level, list and tree bins, any number of resizes.** The per-key history (completed calls plus writers
past their linearization point) is linearizable and ends in the abstract state of the live structure of the key. -/
theorem binGN_linearizable {n : Nat} {s : State} (hr : Reachable n s) (k : Nat) :
    Lin.Linearizable (Flurry.Proto.BinGNP.callsOnExt s k) none (absOf s k) :=
  Flurry.Proto.BinGNP.binGN_linearizable_ext hr k

/-- **C01, quiescent form.** -/
theorem binGN_linearizable_quiescent {n : Nat} {s : State} (hr : Reachable n s) (hq : quiescent s) (k : Nat) :
    Lin.Linearizable (callsOn s k) none (absOf s k) :=
  Flurry.Proto.BinGNP.binGN_linearizable_quiescent_aux hr hq k

/-- in a quiescent state the extended history is the history of the completed calls -/
theorem callsOnExt_quiescent {s : State} (hq : quiescent s) (k : Nat) :
    Flurry.Proto.BinGNP.callsOnExt s k = callsOn s k :=
  Flurry.Proto.BinGNP.callsOnExt_quiescent hq k

/-- C06 at quiescence: a `TreeBin` that is in a cell (of any generation) is unlocked (mutex and write lock free) and
its tree holds exactly the nodes of its list -/
theorem quiescent_tree_eq_list {n : Nat} {s : State} (hr : Reachable n s) (hq : quiescent s) {g j b : Nat}
    (hc : cellAt s g j = .tree b) :
    (Flurry.Proto.BinK.binAt s.tbins b).mutex = none ∧ (Flurry.Proto.BinK.binAt s.tbins b).writer = false ∧
    ∀ i, i < s.heap.length → ((Flurry.Proto.BinK.nodeAt s.heap i).owner = some b ∧
      (Flurry.Proto.BinK.nodeAt s.heap i).inTree = true ↔ i ∈ chainOfBin s b) :=
  Flurry.Proto.BinGNP.quiescent_tree_eq_list_aux (id := (g, j)) hr hq hc

/-- the kernel-checked runs of `Lemmas/BinGNExamples.lean` (the `TreeBin` re-used by two successive resizes with a
writer queued on its mutex and a reader holding its read lock across both; the reader and the writer inside a
`TreeBin` that is two generations old) are reachable quiescent states in generation 2, and — as
`binGN_linearizable_quiescent` says they must be — linearizable for EVERY key -/
theorem example_runs_linearizable_all :
    ∀ sc ∈ [schedReuse2, schedStale2], ∃ s, run step (init 4) sc = some s ∧ Reachable 4 s ∧
      quiescent s ∧ s.cur = 2 ∧ ∀ k, Lin.Linearizable (callsOn s k) none (absOf s k) := by
  intro sc hsc
  obtain ⟨s, hrun, hreach, hq, hc, -⟩ := runs_linearizable sc hsc
  exact ⟨s, hrun, hreach, hq, hc, fun k => binGN_linearizable_quiescent hreach hq k⟩

end Flurry.Proto.BinGN
