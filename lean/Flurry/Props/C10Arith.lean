import Flurry.Gen.Arith
import Flurry.Lemmas.Arith
/-! # C10 (arithmetic half): the resize stamp and the `size_ctl` word

All statements are about the definitions *generated* from `/repo/src/map.rs`
(`resize_stamp`, `RESIZE_STAMP_SHIFT`, `MAX_RESIZERS`, the `rs + 2` initiation, the join
refusals, the `(sc - 2) != rs` finisher test, the post-resize threshold), on `BitVec 64` with
Rust's wrapping semantics. "All 31 legal table lengths" = `2^k`, `k ≤ 30`. -/
namespace Flurry.C10
open Flurry.Gen

/-- the table length `2^k` as a machine word -/
def len (k : Fin 31) : BitVec 64 := 1#64 <<< k.val

/-- `rs` is negative for every legal table length (`size_ctl < 0` ⇔ "resizing"). -/
theorem stamp_negative : ∀ k : Fin 31, (BV.rsOf (len k)).msb = true := by decide

/-- the low half of `rs` is zero: it is room for the participant count. -/
theorem stamp_low_zero : ∀ k : Fin 31, (BV.rsOf (len k)).toNat % 2 ^ 32 = 0 := by decide

/-- different table lengths have different stamps: generations never share a stamp. -/
theorem stamp_injective : ∀ j k : Fin 31, BV.rsOf (len j) = BV.rsOf (len k) → j = k := by decide

theorem max_resizers_val : BV.MAX_RESIZERS.toNat = 2 ^ 32 - 1 := by decide

/-- Adding any participant count `1 ≤ 1 + h ≤ MAX_RESIZERS` to `rs` keeps the word negative and
leaves the stamp bits untouched: the helper count cannot carry into the stamp. -/
theorem stamp_room (k : Fin 31) (h : BitVec 64) (hh : h.toNat ≤ BV.MAX_RESIZERS.toNat) :
    (BV.rsOf (len k) + h).msb = true ∧
    (BV.rsOf (len k) + h).toNat / 2 ^ 32 = (BV.rsOf (len k)).toNat / 2 ^ 32 ∧
    (BV.rsOf (len k) + h).toNat % 2 ^ 32 = h.toNat := by
  have h0 := stamp_low_zero k
  have h1 := stamp_negative k
  rw [max_resizers_val] at hh
  rw [BitVec.msb_eq_decide] at h1 ⊢
  simp only [decide_eq_true_eq] at h1 ⊢
  have hlt := (BV.rsOf (len k)).isLt
  rw [BitVec.toNat_add]
  omega

/-- initiation puts exactly one participant (+1 bias) into the word -/
theorem initiate_is_two (rs : BitVec 64) :
    BV.initiateAddCount rs = rs + 2#64 ∧ BV.initiatePresize rs = rs + 2#64 := ⟨rfl, rfl⟩

/-- the last participant to leave (and only it) passes the finisher test:
`sc = rs + 1 + p` with `p` participants; the test is `sc - 2 ≠ rs`. -/
theorem finisher_iff (k : Fin 31) (sc : BitVec 64) :
    BV.notLastResizer sc (len k) = false ↔ sc = BV.rsOf (len k) + 2#64 := by
  simp only [BV.notLastResizer, BV.rsOf, bne_eq_false_iff_eq]
  constructor
  · intro h; rw [← h]; simp [BitVec.sub_add_cancel]
  · intro h; rw [h]; simp [BitVec.add_sub_cancel]

/-- join is `+1`, leave is `-1` -/
theorem join_leave (sc : BitVec 64) : BV.leaveSc (BV.joinSc sc) = sc := by
  simp [BV.leaveSc, BV.joinSc, BitVec.add_sub_cancel]

/-- a thread is refused exactly when the word says "finishing" (`rs+1`) or "full" -/
theorem join_refused_iff (sc rs : BitVec 64) :
    BV.joinRefusedHelp sc rs = (sc == rs + BV.MAX_RESIZERS || sc == rs + 1#64) ∧
    BV.joinRefusedAddCount sc rs = (sc == rs + BV.MAX_RESIZERS || sc == rs + 1#64) := ⟨rfl, rfl⟩

/-- The threshold stored after a resize of an `n`-bin table is three quarters of the new length
`2n`, and equals what `load_factor!` gives for the new length. -/
theorem threshold_after (n : Nat) :
    postResizeThreshold n = loadFactor (Int.ofNat (nextTableLen n)) ∧
    (2 ≤ n → n % 2 = 0 → 4 * postResizeThreshold n = 3 * Int.ofNat (nextTableLen n)) := by
  simp only [postResizeThreshold, loadFactor, nextTableLen]
  constructor
  · simp only [Int.ofNat_eq_natCast]; omega
  · intro _ _; simp only [Int.ofNat_eq_natCast]; omega

/-- the new table is exactly twice as long -/
theorem double_exact (n : Nat) : nextTableLen n = 2 * n := by simp [nextTableLen]; omega

-- non-vacuity: a concrete length, stamp and helper count
example : BV.rsOf (len 4) = 0x8000003b00000000#64 := by decide
example : BV.notLastResizer (BV.rsOf (len 4) + 3#64) (len 4) = true := by decide

end Flurry.C10
