import Flurry.Gen.Arith
import Flurry.Lemmas.Arith
/-! # C10 (arithmetic half): the resize stamp and the `size_ctl` word

All statements are about the definitions *generated* from `/repo/src/map.rs`
(`resize_stamp`, `RESIZE_STAMP_SHIFT`, `MAX_RESIZERS`, the `rs + 2` initiation, the join
refusals, the `(sc - 2) != rs` finisher test, the post-resize threshold), on `BitVec 64` with
Rust's wrapping semantics. "All 31 legal table lengths" = `2^k`, `k ≤ 30`. -/
namespace Flurry.C10
open Flurry.Gen

/-- the table length `2^k` as a machine word -/
def len (k : Fin 31) : BitVec 64 := 1#64 <<< k.val

/-- `rs` is negative for every legal table length (`size_ctl < 0` ⇔ "resizing"). -/
theorem stamp_negative : ∀ k : Fin 31, (BV.rsOf (len k)).msb = true := by decide

/-- the low half of `rs` is zero: it is room for the participant count. -/
theorem stamp_low_zero : ∀ k : Fin 31, (BV.rsOf (len k)).toNat % 2 ^ 32 = 0 := by decide

/-- different table lengths have different stamps: generations never share a stamp. -/
theorem stamp_injective : ∀ j k : Fin 31, BV.rsOf (len j) = BV.rsOf (len k) → j = k := by decide

theorem max_resizers_val : BV.MAX_RESIZERS.toNat = 2 ^ 32 - 1 := by decide

/-- Adding any participant count `1 ≤ 1 + h ≤ MAX_RESIZERS` to `rs` keeps the word negative and
leaves the stamp bits untouched: the helper count cannot carry into the stamp. -/
theorem stamp_room (k : Fin 31) (h : BitVec 64) (hh : h.toNat ≤ BV.MAX_RESIZERS.toNat) :
    (BV.rsOf (len k) + h).msb = true ∧
    (BV.rsOf (len k) + h).toNat / 2 ^ 32 = (BV.rsOf (len k)).toNat / 2 ^ 32 ∧
    (BV.rsOf (len k) + h).toNat % 2 ^ 32 = h.toNat := by
  have h0 := stamp_low_zero k
  have h1 := stamp_negative k
  rw [max_resizers_val] at hh
  rw [BitVec.msb_eq_decide] at h1 ⊢
  simp only [decide_eq_true_eq] at h1 ⊢
  have hlt := (BV.rsOf (len k)).isLt
  rw [BitVec.toNat_add]
  omega

/-- initiation puts exactly one participant (+1 bias) into the word -/
theorem initiate_is_two (rs : BitVec 64) :
    BV.initiateAddCount rs = rs + 2#64 ∧ BV.initiatePresize rs = rs + 2#64 := ⟨rfl, rfl⟩

/-- the last participant to leave (and only it) passes the finisher test:
`sc = rs + 1 + p` with `p` participants; the test is `sc - 2 ≠ rs`. -/
theorem finisher_iff (k : Fin 31) (sc : BitVec 64) :
    BV.notLastResizer sc (len k) = false ↔ sc = BV.rsOf (len k) + 2#64 := by
  simp only [BV.notLastResizer, BV.rsOf, bne_eq_false_iff_eq]
  constructor
  · intro h; rw [← h]; simp [BitVec.sub_add_cancel]
  · intro h; rw [h]; simp [BitVec.add_sub_cancel]

/-- join is `+1`, leave is `-1` -/
theorem join_leave (sc : BitVec 64) : BV.leaveSc (BV.joinSc sc) = sc := by
  simp [BV.leaveSc, BV.joinSc, BitVec.add_sub_cancel]

theorem shift_val : Flurry.Gen.RESIZE_STAMP_SHIFT = 32 := by decide

/-- the arithmetic right shift by the stamp shift compares exactly the stamp halves of two
negative words -/
theorem sshift_eq_iff (x y : BitVec 64) (hx : x.msb = true) (hy : y.msb = true) :
    BitVec.sshiftRight x 32 = BitVec.sshiftRight y 32 ↔ x.toNat / 2 ^ 32 = y.toNat / 2 ^ 32 := by
  rw [← BitVec.toNat_inj, BitVec.toNat_sshiftRight, BitVec.toNat_sshiftRight]
  simp only [hx, hy, if_true, Nat.shiftRight_eq_div_pow]
  have := x.isLt; have := y.isLt
  omega

/-- **a helper of another generation is refused** (finding F6). `help_transfer` computes `rs`
from the table *it* holds and loads `size_ctl` after it has validated `(table, next_table)`; if
the resize it validated has finished and the next one has started in between, the word it loads
is `rs(2^j) + h` of the new table while its own stamp is `rs(2^k)`, `j ≠ k`. Whatever the
participant count `h`, the refusal test of `help_transfer` (generated from the source) must say
"do not join". Without the generation comparison this is false: `rs(2^j) + 1` ("the finisher has
been elected") is neither `rs(2^k) + 1` nor `rs(2^k) + MAX_RESIZERS`, the stale helper is
admitted, and the accounting of generation `j` (and of the one after it) is corrupted. -/
theorem help_refuses_other_generation (j k : Fin 31) (hjk : j ≠ k) (h : BitVec 64)
    (hh : h.toNat ≤ BV.MAX_RESIZERS.toNat) :
    BV.joinRefusedHelp (BV.rsOf (len j) + h) (BV.rsOf (len k)) = true := by
  have hr := stamp_room j h hh
  have hne : BV.rsOf (len j) ≠ BV.rsOf (len k) := fun e => hjk (stamp_injective j k e)
  have h0j := stamp_low_zero j
  have h0k := stamp_low_zero k
  have hdiv : (BV.rsOf (len j) + h).toNat / 2 ^ 32 ≠ (BV.rsOf (len k)).toNat / 2 ^ 32 := by
    rw [hr.2.1]
    intro e
    apply hne
    rw [← BitVec.toNat_inj]
    omega
  simp only [BV.joinRefusedHelp, shift_val, Bool.or_eq_true, bne_iff_ne, ne_eq]
  left; left
  rw [sshift_eq_iff _ _ hr.1 (stamp_negative k)]
  exact hdiv

/-- within its own generation a helper is refused exactly when the word says "the finisher has
been elected" (`rs + 1`) or "full" (`rs + MAX_RESIZERS`) -/
theorem help_same_generation_iff (k : Fin 31) (sc : BitVec 64)
    (hs : BitVec.sshiftRight sc 32 = BitVec.sshiftRight (BV.rsOf (len k)) 32) :
    BV.joinRefusedHelp sc (BV.rsOf (len k)) =
      (sc == BV.rsOf (len k) + BV.MAX_RESIZERS || sc == BV.rsOf (len k) + 1#64) := by
  simp [BV.joinRefusedHelp, shift_val, hs]

/-- `add_count` compares the word it loaded *before* it loaded the table, and then CASes on that
same word: a word of another generation fails the CAS. Its refusal test is the plain one. -/
theorem join_refused_add_count (sc rs : BitVec 64) :
    BV.joinRefusedAddCount sc rs = (sc == rs + BV.MAX_RESIZERS || sc == rs + 1#64) := rfl

/-- The threshold stored after a resize of an `n`-bin table is three quarters of the new length
`2n`, and equals what `load_factor!` gives for the new length. -/
theorem threshold_after (n : Nat) :
    postResizeThreshold n = loadFactor (Int.ofNat (nextTableLen n)) ∧
    (2 ≤ n → n % 2 = 0 → 4 * postResizeThreshold n = 3 * Int.ofNat (nextTableLen n)) := by
  simp only [postResizeThreshold, loadFactor, nextTableLen]
  constructor
  · simp only [Int.ofNat_eq_natCast]; omega
  · intro _ _; simp only [Int.ofNat_eq_natCast]; omega

/-- the new table is exactly twice as long -/
theorem double_exact (n : Nat) : nextTableLen n = 2 * n := by simp [nextTableLen]; omega

-- non-vacuity: a concrete length, stamp and helper count
example : BV.rsOf (len 4) = 0x8000003b00000000#64 := by decide
example : BV.notLastResizer (BV.rsOf (len 4) + 3#64) (len 4) = true := by decide
-- a helper holding the 16-bin table meets the word "32-bin resize, finisher elected": refused
example : BV.joinRefusedHelp (BV.rsOf (len 5) + 1#64) (BV.rsOf (len 4)) = true := by decide

end Flurry.C10
