import Flurry.Lemmas.SeqOps
/-! # C05 — well formed at quiescence; iteration, lookup and `len` agree

`WF m` (`Flurry/Seq/Inv.lean`) is "well formed at quiescence": the table length is a power of two
`≤ 2^30`; every node sits in the bin its hash selects and carries the hash of its key; no key
occurs twice; tree bins are red-black trees holding exactly their traversal list; the count is the
number of entries; the threshold is three quarters of the length and not yet reached (unless the
table is at its maximum); no resize is in progress. `entries m` is the iteration order of
`NodeIter` on a quiescent table. The lemmas are in `Flurry/Lemmas/SeqOps*.lean`. -/
namespace Flurry.C05
open Flurry Flurry.Gen Flurry.Seq

/-- **iteration, lookup and `len` agree** on a `Good` state: no key is iterated twice; a node is
iterated iff a lookup of its key finds that node; `len` is the number of iterated entries;
`is_empty` says whether there is none. -/
theorem iter_agrees (m : Map) (hg : Good m) :
    ((entries m).map (·.key)).Nodup ∧
    (∀ nd, nd ∈ entries m ↔ get nd.key m = some nd) ∧
    len m = (entries m).length ∧
    (len m == 0) = (entries m).isEmpty :=
  ⟨entries_keys_nodup_of_good hg, fun _ => mem_entries_iff hg, len_eq_entries_length hg,
    isEmpty_eq hg⟩

/-- the same towards the abstract map: the iterated keys are exactly the keys present, each with
the stored key instance and value -/
theorem iter_agrees_abs (m : Map) (hg : Good m) :
    (∀ k, (absMap m k).isSome = true ↔ k ∈ (entries m).map (·.key)) ∧
    (∀ nd ∈ entries m, absMap m nd.key = some (nd.ki, nd.val, nd.vi)) ∧
    len m = ((entries m).map (·.key)).length :=
  ⟨absMap_isSome_iff hg, fun _ h => absMap_of_mem_entries hg h, len_eq_keys_length hg⟩

/-- **every reachable state is well formed**: for every hash function, requested capacity and
operation list — whatever the callbacks do, panics included. -/
theorem wf_reachable (hash : Nat → Nat) (c : Nat) (ops : List Op) :
    WF (run (withCapacity hash c) ops).1 :=
  (run_good (good_withCapacity hash c) ops).1

/-- … also from `HashMap::new()` -/
theorem wf_reachable_new (hash : Nat → Nat) (ops : List Op) :
    WF (run { hash := hash } ops).1 :=
  (run_good (good_new hash) ops).1

/-- … and from `from_iter` / `clone` -/
theorem wf_reachable_collect (hash : Nat → Nat) (hint : Nat) (items : List (Nat × Nat × Nat × Nat))
    (ops : List Op) : WF (run (collect hash hint items) ops).1 :=
  (run_good (collect_good hash hint items) ops).1

theorem wf_reachable_clone (m : Map) (ops : List Op) : WF (run (clone m) ops).1 :=
  (run_good clone_good ops).1

/-- what `WF` says once the table exists, spelled out -/
theorem wf_unfold (m : Map) (t : Table) (hw : WF m) (ht : m.table = some t) :
    (∃ k, t.length = 2 ^ k) ∧ t.length ≤ MAXIMUM_CAPACITY ∧
    (∀ i nd, nd ∈ (tableBin t i).nodes → nd.hash = m.hash nd.key ∧ bini nd.hash t.length = i) ∧
    ((entries m).map (·.key)).Nodup ∧
    m.count = (entries m).length ∧
    m.sizeCtl = loadFactor t.length ∧
    (m.count < m.sizeCtl ∨ t.length = MAXIMUM_CAPACITY) := by
  obtain ⟨htw, hc, hs, hb⟩ := (wf_some_iff ht).1 hw
  exact ⟨htw.1, htw.2.1, fun i nd h => htw.nodeOk h, entries_keys_nodup ht htw, hc, hs, hb⟩

/-! ## the hypotheses are satisfiable -/

example : Good ex2 := ex2_good
example : (entries ex2).map (·.key) = [1, 2] ∧ len ex2 = 2 := by decide
example : WF (run ex0 [.ins 1 7 10 100, .cip 1 (fun _ _ _ => .panic), .rm 2]).1 := by
  rw [← withCapacity_id_4]; exact wf_reachable _ 4 _

end Flurry.C05
