import Flurry.Lemmas.Reclaim2
/-! # C03 / C04 for the generalised ownership discipline `Proto/Reclaim2`

`Proto/Reclaim2` = `Proto/Reclaim` with `acquire t o` allowed also for an object that is already unlinked or retired,
provided `t` is in its unlink-time set (the threads under a guard when it was unlinked, pruned at `exit`). For every
number of threads and every event sequence accepted by the discipline: -/
namespace Flurry.C03Reclaim2
open Flurry.Proto.Reclaim2

/-- **a reference obtained under a guard stays valid until that guard is released** -/
theorem held_references_valid {n : Nat} {es : List Ev} {s : State} (h : run (init n) es = some s) :
    ∀ t o, o ∈ s.holds t → s.objs o ≠ .freed ∧ s.guarded t = true := by
  intro t o ho
  obtain ⟨h1, -, h3⟩ := (reachable_inv h).hold t o ho
  refine ⟨?_, h1⟩
  intro hf; rw [hf] at h3; exact h3

/-- **freed memory is never touched** -/
theorem no_touch_after_free {n : Nat} {es : List Ev} {s : State} (h : run (init n) es = some s) :
    s.badTouches = 0 := (reachable_inv h).bad

/-- every holder of an unlinked / retired object is awaited -/
theorem holders_are_awaited {n : Nat} {es : List Ev} {s : State} (h : run (init n) es = some s) {t o : Nat}
    {u w : List Nat} (ho : o ∈ s.holds t) (hs : s.objs o = .retired u w) : t ∈ u ∧ t ∈ w := by
  have I := reachable_inv h
  have := (I.hold t o ho).2.2
  rw [hs] at this
  exact ⟨this, I.sub o u w hs this⟩

/-- the collector cannot free an object somebody still holds -/
theorem free_waits_for_holders {n : Nat} {es : List Ev} {s : State} (h : run (init n) es = some s) {t o : Nat}
    (ho : o ∈ s.holds t) : step s (.free o) = none := by
  cases hs : s.objs o with
  | retired u w =>
    have hw := (holders_are_awaited h ho hs).2
    unfold step; simp only; rw [hs]
    cases w with
    | nil => cases hw
    | cons a l => rfl
  | fresh => unfold step; simp only; rw [hs]
  | linked => unfold step; simp only; rw [hs]
  | unlinked u => unfold step; simp only; rw [hs]
  | freed => unfold step; simp only; rw [hs]

/-- nothing is freed twice -/
theorem freed_at_most_once {n : Nat} {es : List Ev} {s : State} (h : run (init n) es = some s) :
    ∀ o, s.frees o ≤ 1 := by
  intro o
  rw [(reachable_inv h).frees o]
  split <;> simp

/-- "never before": the collector frees an object only when nobody it had to wait for is left; and `waitFor` contains
the unlink-time set, i.e. every thread that may still hold a pointer -/
theorem freed_only_after_guards {s s' : State} {o : Nat} (h : step s (.free o) = some s') :
    ∃ u, s.objs o = .retired u [] := by
  unfold step at h; simp only at h
  split at h
  · rename_i u hs; exact ⟨u, hs⟩
  · cases h

theorem waitFor_covers_holders {n : Nat} {es : List Ev} {s : State} (h : run (init n) es = some s) {o : Nat}
    {u w : List Nat} (hs : s.objs o = .retired u w) : u ⊆ w := (reachable_inv h).sub o u w hs

/-- unlink first, retire afterwards, under a guard -/
theorem retire_only_after_unlink {s s' : State} {t o : Nat} (h : step s (.retire t o) = some s') :
    (∃ u, s.objs o = .unlinked u) ∧ s.guarded t = true := by
  unfold step at h; simp only at h
  split at h
  · rename_i u hs
    split at h
    · rename_i hc; exact ⟨⟨u, hs⟩, hc⟩
    · cases h
  · cases h

/-- a thread that enters its guard after the unlink cannot pick the pointer up -/
theorem late_thread_cannot_acquire {s : State} {t o : Nat} {u : List Nat}
    (hs : s.objs o = .unlinked u ∨ ∃ w, s.objs o = .retired u w) (ht : t ∉ u) : step s (.acquire t o) = none := by
  unfold step; simp only
  have : acquirable t (s.objs o) = false := by
    rcases hs with hs | ⟨w, hs⟩ <;> rw [hs] <;> simp [acquirable, ht]
  rw [this]; simp

/-- **the generalisation is used**: a reader (thread 1) holds `a` (object 0); a remover (thread 0) unlinks `a` and then
its successor `b` (object 1); the reader, still under its guard, loads `a.next` and acquires `b` — already unlinked and
retired — and touches it. Accepted here, safe; `Proto/Reclaim` rejects the `acquire`. -/
def walkTrace : List Ev :=
  [.enter 0, .alloc 0, .publish 0 0, .alloc 0, .publish 0 1, .enter 1, .acquire 1 0,
   .unlink 0 0, .retire 0 0, .unlink 0 1, .retire 0 1, .exit 0, .touch 1 0, .acquire 1 1, .touch 1 1]

theorem walk_accepted :
    (run (init 2) walkTrace).map (fun s => (s.objs 0, s.objs 1, s.holds 1, s.badTouches)) =
      some (.retired [1] [1], .retired [1] [1], [1, 0], 0) := by decide

/-- and only after the reader's `exit` both can be freed -/
theorem walk_then_free :
    (run (init 2) (walkTrace ++ [.free 1])).isNone = true ∧
    (run (init 2) (walkTrace ++ [.exit 1, .free 0, .free 1])).map (fun s => (s.objs 0, s.objs 1, s.frees 0, s.frees 1)) =
      some (.freed, .freed, 1, 1) := by decide

end Flurry.C03Reclaim2

#print axioms Flurry.C03Reclaim2.held_references_valid
#print axioms Flurry.C03Reclaim2.no_touch_after_free
#print axioms Flurry.C03Reclaim2.holders_are_awaited
#print axioms Flurry.C03Reclaim2.free_waits_for_holders
#print axioms Flurry.C03Reclaim2.freed_at_most_once
#print axioms Flurry.C03Reclaim2.freed_only_after_guards
#print axioms Flurry.C03Reclaim2.late_thread_cannot_acquire
#print axioms Flurry.C03Reclaim2.walk_accepted
