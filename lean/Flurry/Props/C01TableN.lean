import Flurry.Proto.TableN
import Flurry.Props.C01BinN
import Flurry.Props.C01Local
import Flurry.Lemmas.TableN
import Flurry.Lemmas.TableNExamples
/-! # C01 (table level, across ANY NUMBER of resizes): ONE sequential order of ALL calls on ALL keys

`Proto/TableN`: a whole table through any number of resizes. `m` lineages, each a `Proto/BinN` lineage —
bin `i` of the initial table and everything it is split into: at generation `g` the cells `(g, j)`,
`j < 2^g`, which are the bins `i + m * j` of the table of length `m * 2^g`; list bins, lock-free readers,
locked writers with the re-check, lock-free CAS into an empty cell, per-cell transfer with the re-used last
run, forwarding markers followed generation after generation. Key `k` lives in lineage `k % m` under the
local name `k / m` (the hash is the key), i.e. in bin `k % m + m * ((k / m) % 2^g)` of generation `g`, which
is `k % (m * 2^g)` (`binIndex_eq_mod`; for `m = 2^a`: `k % 2^(a+g)`, `bin_index_eq`). `TableN.step`
translates the key of a call into its local name, the map history records the ORIGINAL key. Any number of
threads, a thread inside at most one lineage at a time (so a thread resizes the lineages one at a time;
different lineages may be resized by different threads), one clock shared by all lineages. The table
pointer / generation counter is modelled per lineage, which over-approximates the single pointer of the code
(lineages may be at different generations in the model — `lineages_at_different_generations` —, never in the
code; the allocations and the commits of all lineages may happen consecutively when the real allocation and
the real `table := next` happen; see the header of `Proto/TableN.lean`). The history of the table is the
history of the *map* (`LinMap.MHistory`): the calls on all keys of all lineages, with comparable times.

How the lineage-level theorem lifts: the clock of a lineage in which nothing happens advances by a `tick`,
and a tick is *itself* a transition of `Proto/BinN` — the step of a thread that is idle in that lineage and
starts nothing (`tableN_tick_is_lineage_step`); `TableN.step` lets a thread act in a lineage only while it is
idle in all others. So every lineage of a reachable table is literally `BinN.Reachable`
(`tableN_lineage_reachable`) and `binN_linearizable_quiescent`, `generations_do_not_overlap`,
`old_generations_forwarded`, … apply to it as they stand. The key translation `q ↦ i + m * q` is injective
on a lineage and separates the lineages (`tableN_key_translation`), so the projection of the map history on
key `k` IS the history of local key `k / m` in lineage `k % m` (`tableN_proj_eq`); locality (`C01.locality`)
does the rest. Proofs: `Lemmas/TableN.lean`, `Lemmas/TableNExamples.lean`. -/
namespace Flurry.Proto.TableN
open Flurry.Lin Flurry.LinMap

/-- the table keeps its number of lineages -/
theorem bins_length {m n : Nat} {S : State} (hr : Reachable m n S) : S.bins.length = m :=
  (reachable_tblInv hr).len

/-! ## where a key lives -/

/-- **the bin index of the code**: when the initial length is a power of two, `m = 2^a`, the bin of key `k`
in the table of generation `g` — cell `(k / m) % 2^g` of lineage `k % m`, i.e. bin
`k % m + m * ((k / m) % 2^g)` of the table of length `m * 2^g = 2^(a+g)` — is `k % 2^(a+g)` -/
theorem bin_index_eq {m a : Nat} (hm : m = 2 ^ a) (g k : Nat) :
    k % m + m * ((k / m) % 2 ^ g) = k % 2 ^ (a + g) := bin_index_eq_aux hm g k

/-- for any `m`: the bin of key `k` in the table of length `m * 2^g` is `k % (m * 2^g)` -/
theorem bin_index_eq_mod (m g k : Nat) :
    lineageOf m k + m * (localKey m k % 2 ^ g) = k % (m * 2 ^ g) := binIndex_eq_mod m g k

/-- at the resize of generation `g` key `k` stays in its bin (low) or moves up by the old length `m * 2^g`
(high), according to the split bit of `Proto/BinN` taken at its local name -/
theorem bin_index_split (m g k : Nat) :
    binIndex m (g + 1) k = binIndex m g k + (if BinN.bitAt g (localKey m k) then m * 2 ^ g else 0) :=
  binIndex_succ m g k

/-- **the key translation**: lineage `i < m` and local name `q` stand for the key `i + m * q` and for no
other; conversely every key `k` is `globalKey m (k % m) (k / m)` -/
theorem tableN_key_translation {m i : Nat} (hi : i < m) (q k : Nat) :
    (globalKey m i q = k ↔ i = lineageOf m k ∧ q = localKey m k) ∧
    globalKey m (lineageOf m k) (localKey m k) = k :=
  ⟨globalKey_eq_iff hi q k, globalKey_lineage_local m k⟩

/-! ## the lineages -/

/-- a tick (the clock of a lineage advances while a thread acts elsewhere) is a transition of the lineage:
the step of a thread that is idle there and starts nothing (no call, no resize) -/
theorem tableN_tick_is_lineage_step {b : BinN.State} {t : Nat} (h : idleIn b t = true) :
    BinN.step b t none false 0 = some (tick b) := tick_is_step h

/-- every lineage of a reachable table is a reachable `Proto/BinN` lineage: all lineage-level theorems
(`binN_linearizable`, `transfer_abs_invariant`, `follow_markers_until_live`, `chains_wellformed`, …) hold for it -/
theorem tableN_lineage_reachable {m n : Nat} {S : State} (hr : Reachable m n S) {i : Nat} {b : BinN.State}
    (hb : S.bins[i]? = some b) : BinN.Reachable n b := (reachable_tblInv hr).reach i b hb

/-- a call is started in the lineage of its key, under its local name: what `step` hands to `BinN.step` -/
theorem tableN_call_in_own_lineage {S S' : State} {i t k : Nat} {op : KOp} {rz : Bool} {pick : Nat}
    (hs : step S i t (some (k, op)) rz pick = some S') :
    lineageOf S.bins.length k = i ∧ ∃ b b', S.bins[i]? = some b ∧
      BinN.step b t (some (localKey S.bins.length k, op)) rz pick = some b' ∧ S'.bins[i]? = some b' :=
  step_call hs

/-- every call of the map history on key `k` is recorded in lineage `k % m`, under the local name `k / m` -/
theorem tableN_key_in_own_lineage {m n : Nat} {S : State} (hr : Reachable m n S) {c : MCall} (hc : c ∈ mhist S) :
    ∃ b, S.bins[lineageOf m c.key]? = some b ∧ (localKey m c.key, c.call) ∈ b.hist :=
  mhist_own_lineage (reachable_tblInv hr) hc

/-- … and every call recorded in lineage `i` under the local name `q` is in the map history under the key
`i + m * q` — a key of lineage `i` whose local name is `q` -/
theorem tableN_lineage_call_in_history {m n : Nat} {S : State} (hr : Reachable m n S) {i : Nat} {b : BinN.State}
    {q : Nat} {c : Call} (hb : S.bins[i]? = some b) (h : (q, c) ∈ b.hist) :
    (⟨globalKey m i q, c⟩ : MCall) ∈ mhist S ∧ lineageOf m (globalKey m i q) = i ∧ localKey m (globalKey m i q) = q :=
  mem_mhist_of_hist (reachable_tblInv hr) hb h

/-- calls on a key of another lineage never appear in a lineage's part of the history -/
theorem tableN_other_lineage_silent {m i : Nat} (hi : i < m) (b : BinN.State) {k : Nat} (hk : i ≠ lineageOf m k) :
    proj (binCalls m i b) k = [] := proj_binCalls_other hi b hk

/-- a thread is active in at most one lineage: of two different lineages it is idle in one -/
theorem tableN_one_lineage_per_thread {m n : Nat} {S : State} (hr : Reachable m n S) {t i j : Nat}
    {bi bj : BinN.State} {li lj : BinN.Local} (hne : i ≠ j) (hi : S.bins[i]? = some bi) (hj : S.bins[j]? = some bj)
    (hli : bi.threads[t]? = some li) (hlj : bj.threads[t]? = some lj) : li.pc = .idle ∨ lj.pc = .idle :=
  reachable_oneBin hr t i j bi bj li lj hne hi hj hli hlj

/-- the resizing thread of a lineage is inside it from the allocation of the next generation to the commit:
while it is anywhere between `tNext` and `tCommit` there, it is idle in every other lineage -/
theorem tableN_resizer_inside_one_lineage {m n : Nat} {S : State} (hr : Reachable m n S) {t i j : Nat}
    {bi bj : BinN.State} {li lj : BinN.Local} (hne : i ≠ j) (hi : S.bins[i]? = some bi) (hj : S.bins[j]? = some bj)
    (hli : bi.threads[t]? = some li) (hlj : bj.threads[t]? = some lj) (hT : BinN.isT li.pc) : lj.pc = .idle :=
  resizer_idle_elsewhere (reachable_oneBin hr) hne hi hj hli hlj hT

/-- **generations do not overlap, lineage by lineage**: the tables of a lineage are its generations
`0 … cur`, plus generation `cur + 1` exactly while its resize runs; generation `g` has `2^g` cells (the table
of length `m * 2^g` has `2^g` bins of each lineage); at most one thread is resizing the lineage, and only
while `resizing` is set -/
theorem tableN_generations_do_not_overlap {m n : Nat} {S : State} (hr : Reachable m n S) {i : Nat} {b : BinN.State}
    (hb : S.bins[i]? = some b) :
    b.tabs.length = b.cur + 1 + (if b.resizing then 1 else 0) ∧
    (∀ g row, b.tabs[g]? = some row → row.length = 2 ^ g) ∧
    (∀ (t t' : Nat) (l l' : BinN.Local), b.threads[t]? = some l → b.threads[t']? = some l' →
      BinN.isT l.pc → BinN.isT l'.pc → t = t') ∧
    (∀ (t : Nat) (l : BinN.Local), b.threads[t]? = some l → BinN.isT l.pc → b.resizing = true) :=
  BinN.generations_do_not_overlap (tableN_lineage_reachable hr hb)

/-- **old generations are forwarded, lineage by lineage**: every cell of a generation older than the
lineage's `cur` is `moved`, for ever -/
theorem tableN_old_generations_forwarded {m n : Nat} {S : State} (hr : Reachable m n S) {i : Nat} {b : BinN.State}
    (hb : S.bins[i]? = some b) {g j : Nat} (hg : g < b.cur) (hj : j < 2 ^ g) : BinN.cellAt b g j = .moved :=
  BinN.old_generations_forwarded (tableN_lineage_reachable hr hb) hg hj

/-- no cell of the generation a lineage is filling is forwarded; a forwarding marker in its generation `cur`
exists only while its resize runs -/
theorem tableN_next_generation_not_forwarded {m n : Nat} {S : State} (hr : Reachable m n S) {i : Nat}
    {b : BinN.State} (hb : S.bins[i]? = some b) :
    (∀ j, BinN.cellAt b (b.cur + 1) j ≠ .moved) ∧ (∀ j, BinN.cellAt b b.cur j = .moved → b.resizing = true) :=
  BinN.next_generation_not_forwarded (tableN_lineage_reachable hr hb)

/-- no step of a resize of any lineage changes the abstract state of any key of the map -/
theorem tableN_transfer_abs_invariant {m n : Nat} {S : State} (hr : Reachable m n S) {i : Nat} {b b' : BinN.State}
    (hb : S.bins[i]? = some b) {t : Nat} {l : BinN.Local} {inv : Option (Nat × KOp)} {rz : Bool} {pick : Nat}
    (hl : b.threads[t]? = some l) (hT : BinN.isT l.pc ∨ (l.pc = .idle ∧ rz = true))
    (hs : BinN.step b t inv rz pick = some b') (q : Nat) : BinN.absOf b' q = BinN.absOf b q :=
  BinN.transfer_abs_invariant (tableN_lineage_reachable hr hb) hl hT hs q

/-! ## the history of the map -/

/-- no call responds before it is invoked (one clock for all lineages) -/
theorem tableN_inv_le_resp {m n : Nat} {S : State} (hr : Reachable m n S) :
    ∀ c ∈ mhist S, c.call.inv ≤ c.call.resp := mhist_wf hr

/-- the projection of the map history on key `k` is — as a list — the history of the local key `k / m` in
lineage `k % m` -/
theorem tableN_proj_eq {m n : Nat} (hm : 0 < m) {S : State} (hr : Reachable m n S) {k : Nat} {b : BinN.State}
    (hb : S.bins[lineageOf m k]? = some b) : proj (mhist S) k = BinN.callsOn b (localKey m k) :=
  proj_mhist hm (reachable_tblInv hr) hb

/-- per key, in every reachable state (completed calls plus writers past their linearization point) -/
theorem tableN_key_linearizable_ext {m n : Nat} {S : State} (hr : Reachable m n S) {k : Nat} {b : BinN.State}
    (hb : S.bins[lineageOf m k]? = some b) :
    Lin.Linearizable (BinN.callsOnExt b (localKey m k)) none (BinN.absOf b (localKey m k)) :=
  BinN.binN_linearizable (tableN_lineage_reachable hr hb) (localKey m k)

/-- per key, at quiescence -/
theorem tableN_key_linearizable {m n : Nat} (hm : 0 < m) {S : State} (hr : Reachable m n S) (hq : quiescent S)
    (k : Nat) : Lin.Linearizable (proj (mhist S) k) none (absMap S k) :=
  tableN_key_linearizable_aux hm hr hq k

/-- **C01 for a whole table through any number of resizes: ONE sequential order of ALL calls on ALL keys**
respects real time and replays through the sequential specification of a map, from the empty map to the
abstract map of the table. -/
theorem tableN_map_linearizable {m n : Nat} (hm : 0 < m) {S : State} (hr : Reachable m n S) (hq : quiescent S) :
    LinMap.MapLinearizable (mhist S) (fun _ => none) (absMap S) :=
  tableN_map_linearizable_aux hm hr hq

/-! ## non-vacuity (`Lemmas/TableNExamples.lean`) -/

/-- two lineages, two threads, 114 transitions. Before: `ins 0`, `ins 2` (lineage 0) overlap `ins 1`, `ins 3`
(lineage 1). Lineage 0 is resized by thread 0 (0 → 1) with thread 1's `get 2` (30–43) walking the old list
across the three stores and the commit; with lineage 0 at generation 1 and lineage 1 at generation 0, thread
0's `ins 3` (44–55) completes in generation 0 of lineage 1 while thread 1 starts its resize (0 → 1). Lineage 0
is resized AGAIN by thread 1 (1 → 2) with thread 0's `ins 4` (75–94) blocked on the head lock, failing its
re-check and following the marker into generation 2. After: `get 2`, `rm 1`, `ins 6`, `get 3`. The state is
reachable and quiescent, lineage 0 is at generation 2 (generations 0, 1 forwarded), lineage 1 at generation 1,
the history has the eleven calls under their original keys, and it is map-linearizable -/
example : ∃ S : State, Reachable 2 2 S ∧ quiescent S ∧
    mhist S = [ ⟨0, ⟨0, .ins 10 100, .none, 1, 5⟩⟩, ⟨2, ⟨0, .ins 20 200, .none, 9, 26⟩⟩,
                ⟨2, ⟨1, .get, .some 20 200, 30, 43⟩⟩, ⟨4, ⟨0, .ins 50 500, .none, 75, 94⟩⟩,
                ⟨2, ⟨0, .get, .some 20 200, 95, 99⟩⟩, ⟨6, ⟨1, .ins 60 600, .none, 107, 111⟩⟩,
                ⟨1, ⟨1, .ins 11 101, .none, 2, 8⟩⟩, ⟨3, ⟨1, .ins 30 300, .none, 10, 18⟩⟩,
                ⟨3, ⟨0, .ins 41 401, .some 30 300, 44, 55⟩⟩, ⟨1, ⟨1, .rm, .some 11 101, 96, 106⟩⟩,
                ⟨3, ⟨0, .get, .some 41 401, 108, 114⟩⟩ ] ∧
    (List.range 8).map (absMap S) =
      [some (10, 100), none, some (20, 200), some (41, 401), some (50, 500), none, some (60, 600), none] ∧
    S.bins.map (fun b => (b.tabs, b.cur, b.resizing, b.now)) =
      [([[.moved], [.moved, .moved], [.node 2, .node 1, .node 3, .node 4]], 2, false, 114),
       ([[.moved], [.empty, .node 1]], 1, false, 114)] ∧
    LinMap.MapLinearizable (mhist S) (fun _ => none) (absMap S) := by
  obtain ⟨S, hr, hq, hh, ha, hs⟩ := example_state
  exact ⟨S, hr, hq, hh, ha, hs, tableN_map_linearizable (by decide) hr hq⟩

/-- in the model the lineages may be at different generations (never in the code, see `Proto/TableN.lean`):
a reachable quiescent table whose lineage 0 is at generation 2 and whose lineage 1 is at generation 1 -/
theorem lineages_at_different_generations :
    ∃ S : State, Reachable 2 2 S ∧ quiescent S ∧ S.bins.map (·.cur) = [2, 1] := example_generations

/-- during the first resize of lineage 0 (clock 38): low cell, high cell and the forwarding marker are stored,
`cur` still is generation 0, the reader stands on node 0 of the old list -/
example : exDuring = true := example_during

/-- in the middle of that run (clock 44): lineage 0 is at generation 1, lineage 1 at generation 0, and thread 0
has been invoked there -/
example : exBetween = true := example_between

/-- during the second resize of lineage 0 (clock 84): a writer invoked during the resize is about to wait for
the head lock held by the resizing thread; it will fail its re-check and follow the marker -/
example : exSecond = true := example_second_resize

/-- the model refuses a call on a key of another lineage (key 1 is in lineage 1, key 2 in lineage 0) and a
thread that is busy in another lineage — with a call (whether it wants to start another call there or just
to take a step), or in the middle of a resize; another thread may resize another lineage meanwhile -/
example : (step (init 2 2) 0 0 (some (1, .ins 1 1)) false 0).isNone = true ∧
    (step (init 2 2) 1 0 (some (2, .ins 1 1)) false 0).isNone = true ∧
    (run (init 2 2) (call 0 0 2 (.ins 1 1) ++ call 1 0 1 .get)).isNone = true ∧
    (run (init 2 2) (call 0 0 2 (.ins 1 1) ++ go 1 0 1)).isNone = true ∧
    (run (init 2 2) (resize 0 0 ++ go 0 0 1 ++ resize 1 0)).isNone = true ∧
    (run (init 2 2) (resize 0 0 ++ go 0 0 1 ++ resize 1 1 ++ go 1 1 1 ++ go 0 0 1)).isSome = true :=
  example_refused

end Flurry.Proto.TableN
