import Flurry.Lemmas.BinNRInv2
import Flurry.Props.C03BinNR
/-! # C04 on the concrete heap (`Proto/BinNR`): freed at most once, never before the last guard that could observe it

`w0 i` is the set of threads under a guard at the moment node `i` was retired (`retire_records_guards`,
`response_retires`), fixed from then on (`w0_stable`); `exited i` collects exactly the threads that have ended a guard
since (`exited_only_by_response`). For every reachable state, every interleaving:

* `freed_stays_freed`, `freed_at_most_once`: after `free i` no transition makes `life i` anything but `freed`; `free i`
  is never enabled again;
* `free_waits_for_guards`: at the `free` step every thread that was under a guard at the retirement has responded since;
  `awaited_or_exited`: until then each of them is still in `waitFor` or has responded;
* `retired_eventually_freeable`: once every thread of `w0 i` has left its guard, `free i` is enabled;
  `quiescent_freeable`: in particular when no thread is under a guard;
* `obligation_once`: a retire obligation is a `live` node held by exactly one thread, once. -/
namespace Flurry.Props.C04BinNR
open Flurry.Lin
open Flurry.Proto.BinN (Local)
open Flurry.Proto.BinNR

/-- runs: the reflexive-transitive closure of `step` -/
inductive Steps : State → State → Prop
  | refl (s : State) : Steps s s
  | tail {s s1 s2 : State} (t : Nat) (a : Act) : Steps s s1 → step s1 t a = some s2 → Steps s s2

theorem Steps.reachable {nt : Nat} {s s' : State} (hr : Reachable nt s) (h : Steps s s') : Reachable nt s' := by
  induction h with
  | refl => exact hr
  | tail t a _ hs ih => exact .step t a ih hs

/-- a retire obligation is a `live` node, in exactly one retire list, once -/
theorem obligation_once {nt : Nat} {s : State} (hr : Reachable nt s) {t i : Nat} (hi : i ∈ s.pend t) :
    s.life i = .live ∧ (s.pend t).Nodup ∧ ∀ t', i ∈ s.pend t' → t' = t := by
  have K := reachable_rinv2 hr
  exact ⟨K.k1 t i hi, K.k2 t, fun t' h => K.k3 t' t i h hi⟩

/-- what a step hands to `retire`, and what is already on the retire list, is `live` -/
theorem pend1_live {nt : Nat} {s : State} (hr : Reachable nt s) {t : Nat} {inv : Option (Nat × KOp)} {rz : Bool}
    {pick : Nat} {n' : Flurry.Proto.BinN.State} (hb : Flurry.Proto.BinN.step s.n t inv rz pick = some n')
    {i : Nat} (hi : i ∈ pend1 s t) : s.life i = .live := by
  rcases List.mem_append.1 hi with hi | hi
  · exact (reachable_rinv2 hr).k1 t i hi
  · have h1 := (C03BinNR.unlink_before_retire hr hb i hi).1
    cases hl : s.life i with
    | live => rfl
    | retired w =>
      have := (C03BinNR.retire_only_unreachable hr (i := i) (by rw [hl]; simp)).1
      rw [h1] at this; cases this
    | freed =>
      have := (C03BinNR.retire_only_unreachable hr (i := i) (by rw [hl]; simp)).1
      rw [h1] at this; cases this

/-- the reclamation state of a node that is not `live` after one transition -/
theorem step_not_live {nt : Nat} {s s' : State} (hr : Reachable nt s) {t : Nat} {a : Act} {i : Nat}
    (hs : step s t a = some s') (hl : s.life i ≠ .live) :
    s'.w0 i = s.w0 i ∧ (∀ x ∈ s.exited i, x ∈ s'.exited i) ∧
    (s.life i = .freed → s'.life i = .freed ∨ a = .free i) ∧ (s.life i = .freed → s'.life i = .freed) := by
  cases a with
  | base inv rz pick =>
    unfold step stepG at hs
    simp only at hs
    cases hb : Flurry.Proto.BinN.step s.n t inv rz pick with
    | none => rw [hb] at hs; cases hs
    | some n' =>
      rw [hb] at hs
      cases hs
      have hnc : ¬ (exitsB s t n' && (pend1 s t).contains i) = true := by
        intro hc
        simp only [Bool.and_eq_true, List.contains_iff_mem] at hc
        exact hl (pend1_live hr hb hc.2)
      rw [afterBase_w0, afterBase_exited, afterBase_life, if_neg hnc, if_neg hnc, if_neg hnc]
      refine ⟨rfl, ?_, ?_, ?_⟩
      · intro x hx
        by_cases he : exitsB s t n' = true
        · rw [if_pos he]; exact List.mem_cons_of_mem _ hx
        · rw [if_neg he]; exact hx
      · intro hf; left; rw [hf]; rfl
      · intro hf; rw [hf]; rfl
  | retire j =>
    unfold step stepG at hs
    simp only at hs
    split at hs
    · rename_i hc
      cases hs
      have hj : j ∈ s.pend t := by simpa using hc
      have hne : i ≠ j := by
        intro e; subst e; exact hl ((reachable_rinv2 hr).k1 t i hj)
      refine ⟨?_, ?_, ?_, ?_⟩
      · show (if i = j then _ else s.w0 i) = s.w0 i
        rw [if_neg hne]
      · intro x hx
        show x ∈ (if i = j then [] else s.exited i)
        rw [if_neg hne]; exact hx
      · intro hf; left
        show (if i = j then _ else s.life i) = Life.freed
        rw [if_neg hne]; exact hf
      · intro hf
        show (if i = j then _ else s.life i) = Life.freed
        rw [if_neg hne]; exact hf
    · cases hs
  | free j =>
    unfold step stepG at hs
    simp only at hs
    split at hs
    · rename_i hc
      cases hs
      refine ⟨rfl, fun x hx => hx, ?_, ?_⟩
      · intro hf
        by_cases e : i = j
        · right; rw [e]
        · left; simp only [if_neg e]; exact hf
      · intro hf
        by_cases e : i = j
        · simp only [if_pos e]
        · simp only [if_neg e]; exact hf
    · cases hs

/-- after `freed`, no transition makes `life i` anything else -/
theorem freed_stays_freed {nt : Nat} {s s' : State} (hr : Reachable nt s) {t : Nat} {a : Act} {i : Nat}
    (hf : s.life i = .freed) (hs : step s t a = some s') : s'.life i = .freed :=
  (step_not_live hr hs (by rw [hf]; simp)).2.2.2 hf

theorem freed_for_ever {nt : Nat} {s s' : State} (hr : Reachable nt s) {i : Nat} (hf : s.life i = .freed)
    (h : Steps s s') : s'.life i = .freed := by
  induction h with
  | refl => exact hf
  | tail t a h1 hs ih => exact freed_stays_freed (h1.reachable hr) ih hs

/-- **freed at most once**: after a `free i` step, `free i` is never enabled again, in any continuation of the run -/
theorem freed_at_most_once {nt : Nat} {s s1 s2 : State} (hr : Reachable nt s) {t t' i : Nat}
    (hs : step s t (.free i) = some s1) (h : Steps s1 s2) : step s2 t' (.free i) = none := by
  have h1 : s1.life i = .freed := (C03BinNR.free_only_when_unheld hr hs).2.1
  have h2 := freed_for_ever (.step t _ hr hs) h1 h
  unfold step stepG
  simp only
  rw [if_neg (by rw [h2]; simp)]

/-- an explicit `retire` records the threads under a guard now -/
theorem retire_records_guards {s s' : State} {t i : Nat} (hs : step s t (.retire i) = some s') :
    s'.life i = .retired (guardedSet s.n) ∧ s'.w0 i = guardedSet s.n ∧ s'.exited i = [] := by
  unfold step stepG at hs
  simp only at hs
  split at hs
  · cases hs; simp
  · cases hs

/-- a node that becomes retired in a `BinN` step is retired by the response (end of the guard) of the stepping thread,
and the threads under a guard after that response are recorded -/
theorem response_retires {s : State} {t : Nat} {n' : Flurry.Proto.BinN.State} {i : Nat} {w : List Nat}
    (hl : s.life i = .live) (hw : (afterBase false s t n').life i = .retired w) :
    w = guardedSet n' ∧ (afterBase false s t n').w0 i = guardedSet n' ∧ (afterBase false s t n').exited i = [] ∧
    guarded s.n t = true ∧ guarded n' t = false ∧ i ∈ pend1 s t := by
  rw [afterBase_life] at hw
  by_cases hc : (exitsB s t n' && (pend1 s t).contains i) = true
  · rw [if_pos hc] at hw
    rw [afterBase_w0, afterBase_exited, if_pos hc, if_pos hc]
    cases hw
    simp only [exitsB, Bool.and_eq_true, Bool.not_eq_true', List.contains_iff_mem] at hc
    exact ⟨rfl, rfl, rfl, hc.1.1, hc.1.2, hc.2⟩
  · rw [if_neg hc, hl] at hw; cases hw

/-- `exited i` only grows by the thread whose step ends its guard (a response / the commit of the resize) -/
theorem exited_only_by_response {s s' : State} {t : Nat} {a : Act} {i x : Nat} (hs : step s t a = some s')
    (hx : x ∈ s'.exited i) : x ∈ s.exited i ∨ (x = t ∧ guarded s.n t = true ∧ guarded s'.n t = false) := by
  cases a with
  | base inv rz pick =>
    unfold step stepG at hs
    simp only at hs
    cases hb : Flurry.Proto.BinN.step s.n t inv rz pick with
    | none => rw [hb] at hs; cases hs
    | some n' =>
      rw [hb] at hs
      cases hs
      rw [afterBase_exited] at hx
      by_cases hc : (exitsB s t n' && (pend1 s t).contains i) = true
      · rw [if_pos hc] at hx; cases hx
      · rw [if_neg hc] at hx
        by_cases he : exitsB s t n' = true
        · rw [if_pos he] at hx
          rcases List.mem_cons.1 hx with rfl | hx
          · right
            simp only [exitsB, Bool.and_eq_true, Bool.not_eq_true'] at he
            exact ⟨rfl, he.1, he.2⟩
          · exact Or.inl hx
        · rw [if_neg he] at hx; exact Or.inl hx
  | retire j =>
    unfold step stepG at hs
    simp only at hs
    split at hs
    · cases hs
      left
      by_cases e : i = j
      · simp only [if_pos e] at hx; cases hx
      · simp only [if_neg e] at hx; exact hx
    · cases hs
  | free j =>
    unfold step stepG at hs
    simp only at hs
    split at hs
    · cases hs; exact Or.inl hx
    · cases hs

/-- once a node is retired, the recorded set of guards is fixed and `exited` only grows -/
theorem w0_stable {nt : Nat} {s s' : State} (hr : Reachable nt s) {t : Nat} {a : Act} {i : Nat}
    (hs : step s t a = some s') (hl : s.life i ≠ .live) :
    s'.w0 i = s.w0 i ∧ ∀ x ∈ s.exited i, x ∈ s'.exited i :=
  ⟨(step_not_live hr hs hl).1, (step_not_live hr hs hl).2.1⟩

/-- every thread that was under a guard at the retirement is still awaited or has responded since; `waitFor` only
contains threads that were under a guard at the retirement, are still under (that) guard, and have not responded -/
theorem awaited_or_exited {nt : Nat} {s : State} (hr : Reachable nt s) {i : Nat} {w : List Nat}
    (hw : s.life i = .retired w) :
    (∀ x ∈ s.w0 i, x ∈ w ∨ x ∈ s.exited i) ∧ (∀ x ∈ w, x ∈ s.w0 i ∧ x ∉ s.exited i ∧ guarded s.n x = true) := by
  have K := reachable_rinv2 hr
  exact ⟨K.w1 i w hw, fun x hx => ⟨(K.w4 i w hw x hx).1, (K.w4 i w hw x hx).2, K.w3 i w hw x hx⟩⟩

/-- **C04: a node is freed only after every thread that was under a guard at its retirement has responded** -/
theorem free_waits_for_guards {nt : Nat} {s s' : State} (hr : Reachable nt s) {t' i : Nat}
    (hs : step s t' (.free i) = some s') : ∀ x ∈ s.w0 i, x ∈ s.exited i := by
  have h := (C03BinNR.free_only_when_unheld hr hs).1
  intro x hx
  rcases (awaited_or_exited hr h).1 x hx with h | h
  · cases h
  · exact h

/-- the same for every freed node, in every later state -/
theorem freed_after_guards {nt : Nat} {s : State} (hr : Reachable nt s) {i : Nat} (hf : s.life i = .freed) :
    ∀ x ∈ s.w0 i, x ∈ s.exited i := (reachable_rinv2 hr).w2 i hf

/-- **once every thread that was under a guard at the retirement has left its guard, `free i` is enabled** -/
theorem retired_eventually_freeable {nt : Nat} {s : State} (hr : Reachable nt s) {i : Nat} {w : List Nat}
    (hw : s.life i = .retired w) (hall : ∀ x ∈ s.w0 i, x ∈ s.exited i) (t' : Nat) :
    ∃ s', step s t' (.free i) = some s' ∧ s'.life i = .freed := by
  have hnil : w = [] := by
    cases w with
    | nil => rfl
    | cons x _ =>
      obtain ⟨h1, h2, -⟩ := (awaited_or_exited hr hw).2 x List.mem_cons_self
      exact absurd (hall x h1) h2
  subst hnil
  unfold step stepG
  simp only
  rw [if_pos hw]
  exact ⟨_, rfl, by simp⟩

/-- in particular: when no thread is under a guard, every retired node can be freed -/
theorem quiescent_freeable {nt : Nat} {s : State} (hr : Reachable nt s) (hq : ∀ t, guarded s.n t = false)
    {i : Nat} {w : List Nat} (hw : s.life i = .retired w) (t' : Nat) :
    ∃ s', step s t' (.free i) = some s' ∧ s'.life i = .freed := by
  refine retired_eventually_freeable hr hw ?_ t'
  intro x hx
  rcases (awaited_or_exited hr hw).1 x hx with h | h
  · have := (awaited_or_exited hr hw).2 x h
    rw [hq x] at this; cases this.2.2
  · exact h

end Flurry.Props.C04BinNR

#print axioms Flurry.Props.C04BinNR.obligation_once
#print axioms Flurry.Props.C04BinNR.freed_stays_freed
#print axioms Flurry.Props.C04BinNR.freed_at_most_once
#print axioms Flurry.Props.C04BinNR.retire_records_guards
#print axioms Flurry.Props.C04BinNR.response_retires
#print axioms Flurry.Props.C04BinNR.exited_only_by_response
#print axioms Flurry.Props.C04BinNR.w0_stable
#print axioms Flurry.Props.C04BinNR.awaited_or_exited
#print axioms Flurry.Props.C04BinNR.free_waits_for_guards
#print axioms Flurry.Props.C04BinNR.freed_after_guards
#print axioms Flurry.Props.C04BinNR.retired_eventually_freeable
#print axioms Flurry.Props.C04BinNR.quiescent_freeable
