import Flurry.Lemmas.SeqOps
import Flurry.Props.C14Arith
/-! # C14 — capacity: never shrinks, removals never grow, growth only at the threshold

`tableLen m` is the number of bins (`0` before the table exists); `m.resizes` counts how many
times a table was replaced by a longer one (the first allocation is not a resize); `m.sizeCtl` is
the growth threshold (three quarters of the length) once the table exists. The arithmetic half
(rounding, thresholds) is `Flurry/Props/C14Arith.lean`; the lemmas are in
`Flurry/Lemmas/SeqOpsCap.lean`. -/
namespace Flurry.C14
open Flurry Flurry.Gen Flurry.Seq

/-- **the table never shrinks**: no operation shortens it or lowers the resize counter -/
theorem never_shrinks (m : Map) (hg : Good m) (op : Op) :
    tableLen m ≤ tableLen (step m op).1 ∧ m.resizes ≤ (step m op).1.resizes :=
  step_never_shrinks hg op

/-- **removals never grow the table**: `remove`, `remove_entry`, `compute_if_present` (whatever the
callback does), `retain`/`retain_force` (whatever the predicate does), `clear` and the reads never
resize; if the table exists its length and threshold are untouched. (If it does not exist yet,
`compute_if_present` allocates it: an allocation, not growth.) This is the statement that failed
before the fix of finding F3. -/
theorem removal_never_grows (m : Map) (hg : Good m) (op : Op) (hop : op.nonGrowing = true) :
    (step m op).1.resizes = m.resizes ∧
    (m.table ≠ none → tableLen (step m op).1 = tableLen m ∧ (step m op).1.sizeCtl = m.sizeCtl) :=
  step_removal_never_grows hg op hop

/-- the threshold of a well-formed state is three quarters of the table length -/
theorem threshold_three_quarters (m : Map) (t : Table) (hw : WF m) (ht : m.table = some t) :
    m.sizeCtl = (t.length : Int) - (t.length : Int) / 4 := by
  have := ((wf_some_iff ht).1 hw).2.2.1
  simpa [loadFactor] using this

/-- **growth only when**: if `insert` / `try_insert` (`nr = true`) resized or lengthened an
existing table, then either the operation met a crowded bin (`treeifyCond` of the bin count the
model computes: the 1-based position of the key in its list bin, the bin length for a new key) in
a small table (`treeifyTooSmall`: fewer than 64 bins), or the key was new and the count reached the
threshold (`size_ctl ≤ count + 1`) with the table below its maximum length. -/
theorem grow_only_when (m : Map) (hg : Good m) (hne : m.table ≠ none) (k ki v vi : Nat) (nr : Bool)
    (h : m.resizes < (put k ki v vi nr m).1.resizes ∨ tableLen m < tableLen (put k ki v vi nr m).1) :
    (treeifyCond (putBinCount k m) = true ∧ treeifyTooSmall (tableLen m) = true) ∨
    (absMap m k = none ∧ m.sizeCtl ≤ m.count + 1 ∧ tableLen m ≠ MAXIMUM_CAPACITY) :=
  put_grow_only_when k ki v vi nr hg hne h

/-- … in terms of `step`, for `insert` -/
theorem grow_only_when_ins (m : Map) (hg : Good m) (hne : m.table ≠ none) (k ki v vi : Nat)
    (h : m.resizes < (step m (.ins k ki v vi)).1.resizes) :
    (treeifyCond (putBinCount k m) = true ∧ treeifyTooSmall (tableLen m) = true) ∨
    (absMap m k = none ∧ m.sizeCtl ≤ m.count + 1 ∧ tableLen m ≠ MAXIMUM_CAPACITY) :=
  put_grow_only_when k ki v vi false hg hne (Or.inl h)

/-- … and when the table does not exist yet (`insert` first allocates it; the allocation is not a
resize): the same with the freshly allocated table's length and threshold -/
theorem grow_only_when_uninit (m : Map) (hg : Good m) (k ki v vi : Nat) (nr : Bool)
    (h : m.resizes < (put k ki v vi nr m).1.resizes) :
    (treeifyCond (putBinCount k m) = true ∧ treeifyTooSmall (tableLen (initTable m)) = true) ∨
    (absMap m k = none ∧ (initTable m).sizeCtl ≤ m.count + 1 ∧
      tableLen (initTable m) ≠ MAXIMUM_CAPACITY) :=
  put_grow_only_when' k ki v vi nr hg h

/-- conversely: with room for one more entry and no crowded bin an insert leaves the table alone -/
theorem no_growth_below_threshold (m : Map) (hg : Good m) (hne : m.table ≠ none) (k ki v vi : Nat)
    (nr : Bool) (hbin : treeifyCond (putBinCount k m) = false) (hroom : m.count + 1 < m.sizeCtl) :
    tableLen (put k ki v vi nr m).1 = tableLen m ∧ (put k ki v vi nr m).1.resizes = m.resizes :=
  ⟨(put_no_growth k ki v vi nr hg hne hbin hroom).1, (put_no_growth k ki v vi nr hg hne hbin hroom).2.1⟩

/-- **room as requested**: at most `c` inserts into `with_capacity(c)` (`0 < c < 2^29`), none of
which meets a crowded bin, never resize: the table keeps the `presizeCap c` bins it was given. -/
theorem no_growth_with_room (hash : Nat → Nat) (c : Nat) (hc0 : 0 < c) (hc : c < MAXIMUM_CAPACITY / 2)
    (items : List (Nat × Nat × Nat × Nat)) (hlen : items.length ≤ c)
    (hbins : ∀ pre it post, items = pre ++ it :: post →
      treeifyCond (putBinCount it.1 (putAll pre (withCapacity hash c))) = false) :
    tableLen (putAll items (withCapacity hash c)) = presizeCap c ∧
    (putAll items (withCapacity hash c)).resizes = 0 :=
  Seq.no_growth_with_room hash c hc0 hc items hlen hbins

/-- … in particular when no bin ever holds 8 (`TREEIFY_THRESHOLD`) nodes -/
theorem no_growth_with_room_bins (hash : Nat → Nat) (c : Nat) (hc0 : 0 < c)
    (hc : c < MAXIMUM_CAPACITY / 2) (items : List (Nat × Nat × Nat × Nat)) (hlen : items.length ≤ c)
    (hbins : ∀ pre it post, items = pre ++ it :: post →
      BinsBelow TREEIFY_THRESHOLD (putAll pre (withCapacity hash c))) :
    tableLen (putAll items (withCapacity hash c)) = presizeCap c ∧
    (putAll items (withCapacity hash c)).resizes = 0 :=
  Seq.no_growth_with_room_bins hash c hc0 hc items hlen hbins

/-- … and, with a hypothesis on the inputs only: fewer than 8 of the inserted keys hash to any one
of the `presizeCap c` bins (`keysInBin`: how many of the keys `bini (hash k) n` sends to bin `i`) -/
theorem no_growth_with_room_hash (hash : Nat → Nat) (c : Nat) (hc0 : 0 < c)
    (hc : c < MAXIMUM_CAPACITY / 2) (items : List (Nat × Nat × Nat × Nat)) (hlen : items.length ≤ c)
    (hbins : ∀ i, keysInBin hash (presizeCap c) i (items.map (·.1)) < TREEIFY_THRESHOLD) :
    tableLen (putAll items (withCapacity hash c)) = presizeCap c ∧
    (putAll items (withCapacity hash c)).resizes = 0 :=
  Seq.no_growth_with_room_hash hash c hc0 hc _ items rfl hlen hbins

/-- **`reserve`: room as requested.** After `reserve(a)` on a map holding `len m` entries
(`len m + a < 2^29`) the table exists and the growth threshold is strictly above `count + a`.
No hypothesis on the table length: if `try_presize` stopped because the table is at its maximum
length `2^30`, the threshold is `3 * 2^28 > 2^29`. -/
theorem reserve_threshold_room (m : Map) (hg : Good m) (a : Nat)
    (hs : len m + a < MAXIMUM_CAPACITY / 2) :
    (reserve a m).table ≠ none ∧ (reserve a m).count + (a : Int) < (reserve a m).sizeCtl :=
  Seq.reserve_threshold_room a hg hs

/-- **a map on which `reserve(a)` returned holds a further `a` entries without growing its
table**: at most `a` inserts after `reserve(a)` (`len m + a < 2^29`), none of which meets a crowded
bin, never resize; the table keeps the length `reserve` left it with. -/
theorem no_growth_after_reserve (m : Map) (hg : Good m) (a : Nat)
    (hs : len m + a < MAXIMUM_CAPACITY / 2)
    (items : List (Nat × Nat × Nat × Nat)) (hlen : items.length ≤ a)
    (hbins : ∀ pre it post, items = pre ++ it :: post →
      treeifyCond (putBinCount it.1 (putAll pre (reserve a m))) = false) :
    tableLen (putAll items (reserve a m)) = tableLen (reserve a m) ∧
    (putAll items (reserve a m)).resizes = (reserve a m).resizes :=
  Seq.no_growth_after_reserve hg a hs items hlen hbins

/-- … in particular when no bin ever holds 8 (`TREEIFY_THRESHOLD`) nodes -/
theorem no_growth_after_reserve_bins (m : Map) (hg : Good m) (a : Nat)
    (hs : len m + a < MAXIMUM_CAPACITY / 2)
    (items : List (Nat × Nat × Nat × Nat)) (hlen : items.length ≤ a)
    (hbins : ∀ pre it post, items = pre ++ it :: post →
      BinsBelow TREEIFY_THRESHOLD (putAll pre (reserve a m))) :
    tableLen (putAll items (reserve a m)) = tableLen (reserve a m) ∧
    (putAll items (reserve a m)).resizes = (reserve a m).resizes :=
  Seq.no_growth_after_reserve_bins hg a hs items hlen hbins

/-- **the table length is a power of two `≤ 2^30`** (or the table does not exist yet) -/
theorem table_len_pow2 (m : Map) (hw : WF m) :
    m.table = none ∨ ((∃ k, tableLen m = 2 ^ k) ∧ tableLen m ≤ MAXIMUM_CAPACITY) := by
  cases ht : m.table with
  | none => exact Or.inl rfl
  | some t =>
    right
    rw [tableLen_of_some ht]
    exact ⟨(hw.tableWF ht).1, (hw.tableWF ht).2.1⟩

/-! ## along operation sequences -/

/-- never shrinks along any run: a longer run has a table at least as long -/
theorem reachable_never_shrinks (hash : Nat → Nat) (c : Nat) (ops₁ ops₂ : List Op) :
    tableLen (run (withCapacity hash c) ops₁).1 ≤ tableLen (run (withCapacity hash c) (ops₁ ++ ops₂)).1 ∧
    (run (withCapacity hash c) ops₁).1.resizes ≤ (run (withCapacity hash c) (ops₁ ++ ops₂)).1.resizes := by
  rw [run_append]
  exact run_never_shrinks (run_good (good_withCapacity hash c) ops₁) ops₂

/-- after any run, a run of removals and reads does not resize -/
theorem reachable_removal_never_grows (hash : Nat → Nat) (c : Nat) (ops₁ ops₂ : List Op)
    (hops : ∀ op ∈ ops₂, op.nonGrowing = true) :
    (run (withCapacity hash c) (ops₁ ++ ops₂)).1.resizes = (run (withCapacity hash c) ops₁).1.resizes ∧
    ((run (withCapacity hash c) ops₁).1.table ≠ none →
      tableLen (run (withCapacity hash c) (ops₁ ++ ops₂)).1 = tableLen (run (withCapacity hash c) ops₁).1) := by
  rw [run_append]
  exact run_removal_never_grows (run_good (good_withCapacity hash c) ops₁) ops₂ hops

/-- every reachable table length is a power of two `≤ 2^30` -/
theorem reachable_table_len_pow2 (hash : Nat → Nat) (c : Nat) (ops : List Op) :
    (run (withCapacity hash c) ops).1.table = none ∨
    ((∃ k, tableLen (run (withCapacity hash c) ops).1 = 2 ^ k) ∧
      tableLen (run (withCapacity hash c) ops).1 ≤ MAXIMUM_CAPACITY) :=
  table_len_pow2 _ (run_good (good_withCapacity hash c) ops).1

/-! ## the hypotheses are satisfiable: 8 bins, threshold 6 -/

example : Good ex2 ∧ tableLen ex2 = 8 ∧ ex2.sizeCtl = 6 ∧ ex2.count = 2 :=
  ⟨ex2_good, by decide, by decide, by decide⟩
/-- the sixth entry reaches the threshold: the table is doubled, once -/
example : let r := (run ex2 [.ins 3 0 0 0, .ins 4 0 0 0, .ins 5 0 0 0]).1
    tableLen r = 8 ∧ tableLen (step r (.ins 6 0 0 0)).1 = 16 ∧ (step r (.ins 6 0 0 0)).1.resizes = 1 := by
  decide
/-- four keys into `with_capacity(4)`: no bin gets 8 of them, whatever the hash function -/
example (hash : Nat → Nat) :
    tableLen (putAll [(1, 0, 0, 0), (2, 0, 0, 0), (3, 0, 0, 0), (4, 0, 0, 0)] (withCapacity hash 4)) =
      presizeCap 4 :=
  (no_growth_with_room_hash hash 4 (by decide) (by decide) _ (by decide)
    (fun i => Nat.lt_of_le_of_lt (List.length_filter_le _ _) (by decide))).1
/-- removing all of them again does not change the length -/
example : tableLen (run ex2 [.rm 1, .cip 2 (fun _ _ _ => .remove), .clear]).1 = 8 := by decide

/-! ### `reserve(5)` on the 8-bin map holding 2 entries -/

/-- the rounding of the request (`npow2` is defined by well-founded recursion, so `decide` does not
evaluate it): `reserve(5)` with 2 entries asks for `npow2 (7 + 3 + 1) = 16` -/
theorem reserve_5_ex2 : reserve 5 ex2 = tryPresize.go 16 64 ex2 := by
  have h1 : len ex2 = 2 := by decide
  have h2 : tryPresizeCap 7 = 16 := by simp [tryPresizeCap, npow2, npow2Go, MAXIMUM_CAPACITY]
  unfold reserve tryPresize
  rw [h1]
  exact congrArg (fun r => tryPresize.go r 64 ex2) h2

/-- it doubles the table twice (threshold 12 is below 16): 32 bins, threshold 24, still 2 entries -/
example : tableLen (reserve 5 ex2) = 32 ∧ (reserve 5 ex2).sizeCtl = 24 ∧ (reserve 5 ex2).count = 2 ∧
    (reserve 5 ex2).resizes = 2 := by
  rw [reserve_5_ex2]; decide

/-- the hypotheses of `no_growth_after_reserve` hold for five new keys, among them the insert
that doubled the table of `ex2` above: after `reserve(5)` the table keeps its 32 bins -/
example :
    tableLen (putAll [(3, 0, 0, 0), (4, 0, 0, 0), (5, 0, 0, 0), (6, 0, 0, 0), (7, 0, 0, 0)]
      (reserve 5 ex2)) = 32 := by
  have h : tableLen (reserve 5 ex2) = 32 := by rw [reserve_5_ex2]; decide
  rw [← h]
  refine (no_growth_after_reserve ex2 ex2_good 5 (by decide) _ (by decide) ?_).1
  intro pre it post he
  rw [reserve_5_ex2]
  match pre, he with
  | [], he => cases he; decide
  | [_], he => cases he; decide
  | [_, _], he => cases he; decide
  | [_, _, _], he => cases he; decide
  | [_, _, _, _], he => cases he; decide
  | _ :: _ :: _ :: _ :: _ :: _, he => simp at he

/-! ## removals never ask for a resize (finding F10)

Under concurrency the map can come to rest with `count ≥ size_ctl` (inserts that race with the
final phase of a resize started by `reserve` / `try_presize` neither join it nor start the next
one, and `try_presize` does not look at the count when it is done). `removal_never_grows` above is
about the sequential model, where that state is unreachable; what keeps a removal from growing the
table in *every* state is that no removing call hands `add_count` a resize hint, and that
`add_count` without a hint returns before it looks at `size_ctl`. Both facts are regenerated from
`src/map.rs` on every run (`Gen/Arith.lean`: `addCountCalls`, one row per call of `add_count`:
enclosing function, sign of the delta as written, "the hint is `None`"). Before the repair of F10
the row of `compute_if_present` was `("compute_if_present", "neg", false)` and the first theorem
was false; the scheduled scenario `overdue-then-removing-compute` shows the table growing from 64
to 128 bins inside `compute_if_present(.., |..| None)` on that code. -/
section RemovalHints
open Flurry.Gen

/-- every call of `add_count` whose delta is not a positive literal passes `None` as its hint,
and `add_count` returns early without a hint -/
theorem removals_pass_no_hint :
    (addCountCalls.all fun c => c.2.1 == "pos" || c.2.2) = true ∧ addCountNoHintReturns = true := by decide

/-- not vacuous: the removing paths are in the table, and only `put` passes a hint -/
theorem removal_calls_present :
    (addCountCalls.any fun c => c.1 == "compute_if_present" && c.2.1 == "neg") = true ∧
    (addCountCalls.any fun c => c.1 == "replace_node" && c.2.1 == "neg") = true ∧
    (addCountCalls.any fun c => c.1 == "clear") = true ∧
    (addCountCalls.all fun c => c.2.2 || c.1 == "put") = true := by decide

end RemovalHints

end Flurry.C14
