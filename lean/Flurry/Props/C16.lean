import Flurry.SigDefs
import Flurry.Gen.Api
/-! # C16 — borrowed results cannot outlive the guard or the map (compile time)

`Flurry.Gen.apiFns` / `apiFields` are regenerated from /repo/src on every run: every public
function, trait method and associated type of `HashMap`, `HashSet`, `HashMapRef`, `HashSetRef`,
`Iter`, `Keys`, `Values` with the lifetimes of its receiver, guard parameters and result
(elision resolved), and every lifetime-carrying struct field.

The borrow checker itself is not modelled beyond the rule "a value whose type mentions lifetime
`'a` keeps every argument borrowed at `'a` borrowed"; that mini-model is validated against rustc
on the generated corpus of programs (see `checklib/rustcsuite.py`). -/
namespace Flurry.C16
open Flurry.Sig Flurry.Gen

def isCollection (f : ApiFn) : Bool := f.ty == "HashMap" || f.ty == "HashSet"
def isWrapper (f : ApiFn) : Bool := f.ty == "HashMapRef" || f.ty == "HashSetRef"
def isIter (f : ApiFn) : Bool := f.ty == "Iter" || f.ty == "Keys" || f.ty == "Values"

/-- the result of `f` is tied to `&self`: every lifetime in the return type is the receiver's -/
def tiedToSelf (f : ApiFn) : Bool :=
  match f.selfLt with
  | some l => f.retLts.all (· == l)
  | none => false

/-- … and to every guard parameter -/
def tiedToGuards (f : ApiFn) : Bool := f.guardLts.all fun g => f.retLts.all (· == g)

/-- rows that hand out a borrow: a reference, an iterator, a wrapper or an error payload -/
def borrowing (f : ApiFn) : Bool := f.retBorrows && f.selfKind != "none" && f.selfKind != "assoc"

/-- **table theorem (guard-passing API)**: every method of `HashMap`/`HashSet` that returns a
borrow ties it to `&self` *and* to the guard it was given. -/
theorem results_tied_collections :
    (apiFns.filter fun f => isCollection f && borrowing f).all
      (fun f => tiedToSelf f && tiedToGuards f && !f.retLts.isEmpty) = true := by decide

/-- **table theorem (wrappers)**: every method of `HashMapRef`/`HashSetRef` that returns a borrow
ties it to the wrapper … -/
theorem results_tied_wrappers :
    (apiFns.filter fun f => isWrapper f && borrowing f && f.fn != "clone").all
      (fun f => tiedToSelf f && !f.retLts.isEmpty) = true := by decide

/-- … and the wrapper borrows the map and (when made by `with_guard`) the guard for its own
lifetime parameter: every field of the wrapper and iterator structs carries exactly the
struct's lifetime. -/
theorem fields_tied :
    (apiFields.filter fun fl => !fl.lts.isEmpty).all
      (fun fl => fl.lts.all (fun l => fl.ltParams.contains l)) = true := by decide

/-- the items an iterator yields live exactly as long as the iterator type's lifetime parameter -/
theorem items_tied :
    (apiFns.filter fun f => isIter f && f.selfKind == "assoc").all
      (fun f => tiedToSelf f && !f.retLts.isEmpty) = true := by decide

/-- no `'static` requirement on keys, values or lookup keys anywhere in the public API -/
theorem no_static_bound :
    apiFns.all (fun f => f.bounds.all (fun b => b.2 != "'static")) = true := by decide

/-! ## The mini-model of "use after release" -/

inductive Origin where
  | map | guard
deriving DecidableEq, Repr

/-- what the result of `f` keeps borrowed, by the lifetime rule -/
def borrowsOf (f : ApiFn) : List Origin :=
  (if tiedToSelf f && !f.retLts.isEmpty then [.map] else []) ++
  (if tiedToGuards f && !f.retLts.isEmpty && !f.guardLts.isEmpty then [.guard] else [])

/-- `let r = f(..); release x; use r` is rejected iff `x` is still borrowed by `r` -/
def rejected (f : ApiFn) (x : Origin) : Bool := (borrowsOf f).contains x

/-- **lemma**: for every borrowing method of the guard-passing API, dropping (or refreshing) the
guard, or dropping the map, before the last use of the result is rejected. -/
theorem use_after_release_rejected (f : ApiFn)
    (hf : f ∈ apiFns.filter fun f => isCollection f && borrowing f && !f.guardLts.isEmpty) :
    rejected f .map = true ∧ rejected f .guard = true := by
  have h := results_tied_collections
  rw [List.all_eq_true] at h
  simp only [List.mem_filter, Bool.and_eq_true] at hf
  obtain ⟨hmem, ⟨hc, hb⟩, hg⟩ := hf
  have := h f (by simp [List.mem_filter, hmem, hc, hb])
  simp only [Bool.and_eq_true] at this
  obtain ⟨⟨h1, h2⟩, h3⟩ := this
  simp [rejected, borrowsOf, h1, h2, h3, hg]

-- non-vacuity
example : 15 ≤ (apiFns.filter fun f => isCollection f && borrowing f).length := by decide
example : (apiFns.filter fun f => isCollection f && borrowing f && !f.guardLts.isEmpty).any
    (fun f => f.fn == "get") = true := by decide

end Flurry.C16
