import Flurry.Lemmas.BinLock
import Flurry.Lemmas.BinLin
import Flurry.Lemmas.BinSeq
/-! # C01 (bin level): one list bin is linearizable under every interleaving

`Proto/Bin.lean` models one list bin with any number of threads performing `get`, `contains_key`,
`insert`, `try_insert`, `remove`, `compute_if_present` (increment / remove), one shared-memory
access per transition. For every reachable state and every key, the history of that key — the
completed calls, plus the calls of writers that have done their store and only have to unlock —
is linearizable from "absent" to the key's current abstract state.

Linearization points: lock-holding writers at their single store (`wWrite`), the lock-free insert
into an empty bin at its successful CAS, writers that see an empty bin at the load of the bin cell,
readers *in hindsight* (`Good`, `Good.step` in `Lemmas/BinGhost.lean`). -/
namespace Flurry.Proto.Bin
open Flurry.Lin

theorem init_ginv (n k : Nat) : GInv k (init n) (fun _ => none) id := by
  have hthr : ∀ (t : Nat) (l : Local), (init n).threads[t]? = some l → l = {} := by
    intro t l hl
    simp only [init, List.getElem?_replicate] at hl
    split at hl
    · cases hl; rfl
    · cases hl
  have hnil : callsOnExt (init n) k = [] := by
    rw [List.eq_nil_iff_forall_not_mem]
    intro c hc
    rcases mem_callsOnExt.1 hc with hc | ⟨t, l, hl, he⟩
    · simp [init] at hc
    · rw [hthr t l hl] at he
      cases he
  refine ⟨rfl, ?_, ?_, ?_, ?_, ?_⟩
  · symm
    rw [absOf_eq_none_iff]
    intro i hi
    simp [chain, init, chainFrom] at hi
  · intro c hc; rw [hnil] at hc; cases hc
  · intro τ h1 h2
    have : (init n).now = 0 := rfl
    omega
  · intro c hc; rw [hnil] at hc; cases hc
  · intro t l p cur hl hc
    rw [hthr t l hl] at hc
    cases hc

/-- the ghost invariant holds in every reachable state -/
theorem reachable_ginv {n : Nat} {s : State} (hr : Reachable n s) (k : Nat) :
    ∃ A pt, GInv k s A pt := by
  induction hr with
  | init => exact ⟨_, _, init_ginv n k⟩
  | @step s s' t inv hr hs ih =>
    obtain ⟨A, pt, g⟩ := ih
    cases hl : s.threads[t]? with
    | none => unfold step at hs; rw [hl] at hs; cases hs
    | some l => exact ginv_step g (reachable_inv hr) hl (step_stepK hl hs)

/-- from the ghost invariant to linearizability (the trace lemma) -/
theorem GInv.linearizable {k : Nat} {s : State} {A : Nat → KSt} {pt : Nat → Nat}
    (g : GInv k s A pt) (I : Inv s) : Linearizable (callsOnExt s k) none (absOf s k) := by
  have h := lin_of_trace (h := callsOnExt s k) A s.now (fun c => pt c.inv) ?_ ?_ ?_ ?_ ?_
  · rw [g.h0, g.hA] at h; exact h
  · intro c hc
    obtain ⟨h1, h2, -, -⟩ := g.calls c hc
    have := callsOnExt_resp_le I.thr hc
    exact ⟨h1, h2, by omega⟩
  · intro c hc hw; exact (g.calls c hc).2.2.2 hw
  · intro c hc hrd; exact (g.calls c hc).2.2.1 hrd
  · refine (callsOnExt_pairwise I.thr k).imp_of_mem ?_
    intro c d hc hd hne hwc hwd hpe
    exact hne (g.inj c hc d hd hwc hwd hpe)
  · intro τ h1 h2 hno
    apply Classical.byContradiction
    intro hne
    obtain ⟨c, hc, hw, hp⟩ := g.stab τ h1 h2 hne
    exact hno c hc hw hp

/-- the writer calls (`insert`, `try_insert`, `remove`, `compute_if_present`) of the extended history -/
def writerCallsOn (s : State) (k : Nat) : History := (callsOnExt s k).filter (fun c => !isRead c.op)

/-- writers only: the points are the store steps -/
theorem GInv.linearizable_writers {k : Nat} {s : State} {A : Nat → KSt} {pt : Nat → Nat}
    (g : GInv k s A pt) (I : Inv s) : Linearizable (writerCallsOn s k) none (absOf s k) := by
  have hmem : ∀ c, c ∈ writerCallsOn s k ↔ c ∈ callsOnExt s k ∧ isRead c.op = false := by
    intro c; simp [writerCallsOn, List.mem_filter]
  have h := lin_of_trace (h := writerCallsOn s k) A s.now (fun c => pt c.inv) ?_ ?_ ?_ ?_ ?_
  · rw [g.h0, g.hA] at h; exact h
  · intro c hc
    have hc := ((hmem c).1 hc).1
    obtain ⟨h1, h2, -, -⟩ := g.calls c hc
    have := callsOnExt_resp_le I.thr hc
    exact ⟨h1, h2, by omega⟩
  · intro c hc hw; exact (g.calls c ((hmem c).1 hc).1).2.2.2 hw
  · intro c hc hrd; exact (g.calls c ((hmem c).1 hc).1).2.2.1 hrd
  · refine ((callsOnExt_pairwise I.thr k).filter _).imp_of_mem ?_
    intro c d hc hd hne hwc hwd hpe
    exact hne (g.inj c ((hmem c).1 hc).1 d ((hmem d).1 hd).1 hwc hwd hpe)
  · intro τ h1 h2 hno
    apply Classical.byContradiction
    intro hne
    obtain ⟨c, hc, hw, hp⟩ := g.stab τ h1 h2 hne
    exact hno c ((hmem c).2 ⟨hc, hw⟩) hw hp

/-- **writers-only linearizability**: the sub-history of the writer calls on `k` is linearizable from
"absent" to the current abstract state (linearization points = the store steps). -/
theorem bin_linearizable_writers {n : Nat} {s : State} (hr : Reachable n s) (k : Nat) :
    Lin.Linearizable (writerCallsOn s k) none (absOf s k) := by
  obtain ⟨A, pt, g⟩ := reachable_ginv hr k
  exact g.linearizable_writers (reachable_inv hr)

/-- **C01, bin level.** Under every interleaving of any number of threads, the per-key history of
a list bin (completed calls plus stored-but-not-yet-unlocked writers) is linearizable and ends in
the abstract content of the bin. -/
theorem bin_linearizable {n : Nat} {s : State} (hr : Reachable n s) (k : Nat) :
    Lin.Linearizable (callsOnExt s k) none (absOf s k) := by
  obtain ⟨A, pt, g⟩ := reachable_ginv hr k
  exact g.linearizable (reachable_inv hr)

/-- **C01, bin level, quiescent form.** -/
theorem bin_linearizable_quiescent {n : Nat} {s : State} (hr : Reachable n s) (hq : quiescent s) (k : Nat) :
    Lin.Linearizable (callsOn s k) none (absOf s k) := by
  have := bin_linearizable hr k
  rw [callsOnExt_quiescent hq] at this
  exact this

/-! ## the link to the sequential model (`Seq/Model.lean`), restated for reachable states

`Lemmas/BinSeq.lean`: `binNodes s` is the bin as `Seq/Model.lean` sees it (the nodes on the chain in
list order), `seqStore` is what `Seq.put` / `Seq.replaceNode` / `Seq.computeIfPresent` do to a list
bin (`listFind`, `listSetVal`, `listRemove`, `ns ++ [nd]`) together with the result of the call. -/

/-- **every transition of a reachable state is a step of the sequential list bin or leaves it
alone**: `binNodes` changes only at the single store of a validated writer (`wWrite`) and at the
successful CAS into an empty bin (`wCas`), and there it changes by `seqStore` of that thread's call. -/
theorem bin_step_refines_seq {n : Nat} {s s' : State} (hr : Reachable n s) {t : Nat}
    {inv : Option (Nat × KOp)} (hs : step s t inv = some s') :
    binNodes s' = binNodes s ∨
      ∃ l p, s.threads[t]? = some l ∧ l.call = some p ∧ (l.pc = .wCas ∨ ∃ h, l.pc = .wWrite h) ∧
        binNodes s' = (seqStore (binNodes s) p.key p.op).1 := by
  cases hl : s.threads[t]? with
  | none => unfold step at hs; rw [hl] at hs; cases hs
  | some l =>
    rcases stepK_refines_seq (reachable_inv hr).heap (step_stepK hl hs) with h | ⟨p, h1, h2, h3⟩
    · exact Or.inl h
    · exact Or.inr ⟨l, p, rfl, h1, h2, h3⟩

/-- **the store step of a writer**: the new bin *and* the result the writer goes on to return (the
`res` of its `wUnlock`, which `finish` records in the history) are those of the sequential model -/
theorem bin_write_refines_seq {n : Nat} {s s' : State} (hr : Reachable n s) {t : Nat} {l : Local}
    {p : Pending} {h : Nat} {inv : Option (Nat × KOp)}
    (hl : s.threads[t]? = some l) (hpc : l.pc = .wWrite h) (hc : l.call = some p)
    (hs : step s t inv = some s') :
    binNodes s' = (seqStore (binNodes s) p.key p.op).1 ∧
      s'.threads[t]? = some { l with pc := .wUnlock h (seqStore (binNodes s) p.key p.op).2 false } := by
  have Ht : HInv (tick s) := (reachable_inv hr).heap.congr rfl rfl
  have hbt : binNodes (tick s) = binNodes s := binNodes_congr rfl rfl
  obtain ⟨e1, e2⟩ := writerStore_refines_seq Ht p
  rw [hbt] at e1 e2
  have ht : t < s.threads.length := (List.getElem?_eq_some_iff.1 hl).1
  unfold step at hs
  rw [hl] at hs
  obtain ⟨pc, call⟩ := l
  simp only at hpc hc
  subst hpc hc
  simp only [Option.some.injEq] at hs
  subst hs
  refine ⟨(binNodes_congr rfl rfl).trans e1, ?_⟩
  have hthr : (writerStore (tick s) p).1.threads = s.threads := (writerStore_frame (tick s) p).1
  show ((writerStore (tick s) p).1.threads.set t _)[t]? = _
  rw [hthr, List.getElem?_set_self ht]
  exact congrArg (fun r => some (Local.mk (.wUnlock h r false) (some p))) e2

end Flurry.Proto.Bin
