import Flurry.Props.C10Arith
import Flurry.Gen.Atomics
import Flurry.Lemmas.Resize
/-! # C10 — cooperative resizing: no overlap, single publication, full completion

Arithmetic half: `Props/C10Arith.lean` (stamps, helper room, threshold, doubling), on definitions
regenerated from the source. Protocol half: `Proto/Resize` — any number of threads, every
interleaving, one transition per shared access of `transfer` / `help_transfer` / the resize parts
of `add_count` and `try_presize` (with the port's `i = next_index` claim semantics, under which
claimed strides can be skipped or overlap by one bin). The lemmas are in `Lemmas/Resize*.lean`.

Embedding in the whole map: **partial** — the protocol's control words are compared with the
implementation on the projected event stream of scheduled runs and at quiescence (inspector). -/
namespace Flurry.C10
open Flurry.Proto.Resize

variable {n nthreads stride : Nat} {s : State}

/-- while resizing, `size_ctl` counts exactly the participants (`rs + 1 + participants`) -/
theorem helper_accounting (hr : Reachable n nthreads stride s) {g c : Nat} (h : s.sizeCtl = .resizing g c) :
    c = 1 + numParticipants s ∧
    (g = s.gen ∨ (g + 1 = s.gen ∧ c = 1 ∧ ∃ l ∈ s.threads, l.pc = .pubStoreCtl)) := count_invariant hr h

/-- **every old bin is migrated at most once** per generation … -/
theorem bin_migrated_at_most_once (hr : Reachable n nthreads stride s) :
    s.moved.length = s.n ∧ s.migrations.length = s.n ∧
    ∀ idx, idx < s.n → s.migrations.getD idx 0 ≤ 1 ∧ (s.moved.getD idx false = true ↔ s.migrations.getD idx 0 = 1) :=
  moved_once hr

/-- … and **exactly once** by the time the new table is published (the finisher's re-sweep) -/
theorem all_bins_migrated_at_publication (hr : Reachable n nthreads stride s) {l : Local}
    (hl : l ∈ s.threads) (hpc : l.pc = .pubClearNext ∨ l.pc = .pubSwapTable) :
    ∀ idx, idx < s.n → s.migrations.getD idx 0 = 1 := all_migrated_once_at_publish hr hl hpc

/-- **exactly one thread publishes**: at most one finisher at any time … -/
theorem one_finisher (hr : Reachable n nthreads stride s) {t u : Nat} {l l' : Local}
    (ht : s.threads[t]? = some l) (hu : s.threads[u]? = some l')
    (hl : isFinisher l = true) (hl' : isFinisher l' = true) : t = u := single_finisher_unique hr ht hu hl hl'

/-- … every generation is published exactly once, and each publication exactly doubles the table -/
theorem one_publication_per_generation (hr : Reachable n nthreads stride s) :
    (∀ g, s.published.getD g 0 ≤ 1) ∧ s.published.length = s.gen ∧
    (∀ g, g < s.gen → s.published.getD g 0 = 1) ∧ s.n = n * 2 ^ s.gen := single_publication hr

/-- **resizes of different generations never overlap**: a next table exists only during a resize
of the current generation, and a resize can only be initiated from an idle word -/
theorem generations_do_not_overlap (hr : Reachable n nthreads stride s) (h : s.nextTable = true) :
    ∃ c, s.sizeCtl = .resizing s.gen c := no_overlap hr h

theorem initiation_only_from_idle (hr : Reachable n nthreads stride s) {t c : Nat} {s' : State}
    (hs : step s t c = some s') {thr : Nat} (hidle : s.sizeCtl = .idle thr) (hne : s'.sizeCtl ≠ s.sizeCtl) :
    s'.sizeCtl = .resizing s.gen 2 ∧ s.nextTable = false ∧ thr = threshold s.n ∧
    (∃ l, s.threads[t]? = some l ∧ l.pc = .casInit (.idle thr)) ∧ s'.gen = s.gen ∧ s'.n = s.n :=
  resize_starts_from_idle hr hs hidle hne

/-- **after the last participant leaves the map is not in a resizing state**, and the next
growth threshold is three quarters of the (new) length -/
theorem quiescent_after_resize (hr : Reachable n nthreads stride s) (h : allIdle s) :
    s.sizeCtl = .idle (threshold s.n) ∧ s.nextTable = false := quiescent_after hr h

/-- from every reachable state the threads already inside the machinery can finish on their own
(no new initiations or joins needed) and leave the map quiescent: no resize can get stuck -/
theorem resize_completes (hst : 1 ≤ stride) (hr : Reachable n nthreads stride s) :
    ∃ r s', BusyRun s r s' ∧ run s r = some s' ∧ Reachable n nthreads stride s' ∧ allIdle s' ∧
      s'.sizeCtl = .idle (threshold s'.n) ∧ s'.nextTable = false := progress_possible hst hr

/-- **no thread is ever admitted to a resize while holding the tables of another generation**
(finding F6): with the comparison of the generation stamps in `help_transfer`'s refusal test
(`C10Arith.help_refuses_other_generation`; `Reachable` starts from `init … true`) the counter of
stale joins stays 0 in every interleaving. `Lemmas/ResizeExamples.staleJoin` is a schedule that
reaches `staleJoins = 1` from `init 2 2 1 false`, i.e. without the comparison. -/
theorem no_stale_join (hr : Reachable n nthreads stride s) : s.staleJoins = 0 :=
  Flurry.Proto.Resize.no_stale_join hr

/-- state form: a thread whose join CAS would succeed now (`casJoin sc` with `sc` the current word)
holds the tables of the current generation, and the word carries the current stamp and counts at
least one participant -/
theorem joiner_holds_current_generation (hr : Reachable n nthreads stride s) {l : Local}
    (hl : l ∈ s.threads) {sc : SC} (hpc : l.pc = .casJoin sc) (hsc : s.sizeCtl = sc) :
    l.heldGen = s.gen ∧ ∃ k, sc = .resizing s.gen k ∧ 2 ≤ k := join_ready_current hr hl hpc hsc

/-- step form: a `casJoin` step that changes the word is taken by a thread that holds the current
generation, and it makes exactly that thread a participant -/
theorem join_admits_current_generation (hr : Reachable n nthreads stride s) {t c : Nat} {s' : State}
    {l : Local} {sc : SC} (hl : s.threads[t]? = some l) (hpc : l.pc = .casJoin sc)
    (hs : step s t c = some s') (hne : s'.sizeCtl ≠ s.sizeCtl) :
    l.heldGen = s.gen ∧ ∃ k, sc = .resizing s.gen k ∧ 2 ≤ k ∧ s'.sizeCtl = .resizing s.gen (k + 1) ∧
      ∃ l', s'.threads = s.threads.set t l' ∧ participating l' = true ∧ l'.heldGen = s'.gen :=
  join_step_current hr hl hpc hs hne

/-! ### the order of the control-word accesses when joining a resize (generated from the source)

`Proto/Resize` models the two join paths access by access (finding F6 was an abstraction of exactly
this order). The order of the model's program counters is the order in the source:
* `add_count`: `size_ctl` is loaded **before** `table` (then `next_table`, `transfer_index`), and
  the join CAS is on that first word — so a word of another generation fails the CAS
  (`acLoadTable → acLoadNext → acLoadIndex → casJoin` in the model);
* `help_transfer`: `next_table`, `table` (the validation), then `size_ctl`, `transfer_index`, CAS
  (`helpCheckNext → helpCheckTable → helpLoadSc → helpLoadIndex → casJoin`). -/
section AccessOrder
open Flurry.Gen

/-- position of the first occurrence -/
def firstIdx (l : List String) (x : String) : Nat := (l.findIdx? (· == x)).getD l.length

theorem add_count_access_order :
    let l := addCountAccessOrder
    firstIdx l "load:size_ctl" < firstIdx l "load:table" ∧
    firstIdx l "load:table" < firstIdx l "load:next_table" ∧
    firstIdx l "load:next_table" < firstIdx l "load:transfer_index" ∧
    firstIdx l "load:transfer_index" < firstIdx l "cas:size_ctl" ∧
    firstIdx l "cas:size_ctl" < l.length := by decide

theorem help_transfer_access_order :
    helpTransferAccessOrder = ["load:next_table", "load:table", "load:size_ctl", "load:transfer_index", "cas:size_ctl"] := by
  decide

end AccessOrder

/-! ### the order of `transfer`'s stores per bin (generated from the source)

Moving one bin is, under the bin's lock: build the two new bins, **store them into the next table,
then store the forwarding marker into the old table, then retire what was copied**. Forwarding
first lets a writer follow the marker, insert into the still empty new bin and be overwritten by
the late fill (a lost insert); retiring first hands nodes to the collector that the old bin still
links. `transferOrder` is the sequence of `lock` / `fill` / `forward` / `retire` calls of
`transfer` in source order. -/
section Order
open Flurry.Gen

/-- the calls that follow each `lock`, up to the next `lock` -/
def segmentsAfterLocks (l : List String) : List (List String) :=
  (l.splitBy (fun _ b => b != "lock")).filterMap fun seg =>
    match seg with
    | "lock" :: rest => some rest
    | _ => none

/-- fill, fill, forward, then nothing but retirements -/
def migrationOrderOk (seg : List String) : Bool :=
  match seg with
  | "fill" :: "fill" :: "forward" :: rest => rest.all (· == "retire")
  | _ => false

theorem fill_then_forward_then_retire :
    (segmentsAfterLocks transferOrder).all migrationOrderOk = true ∧
    2 ≤ (segmentsAfterLocks transferOrder).length := by decide

end Order

/-! ### the tie between the generated refusal test and the model's `helpRefuses true` -/
section Tie
open Flurry.Gen

private theorem ofNat_inj_small {a b : Nat} (ha : a < 2 ^ 64) (hb : b < 2 ^ 64) :
    (BitVec.ofNat 64 a = BitVec.ofNat 64 b) ↔ a = b := by
  constructor
  · intro h
    have := congrArg BitVec.toNat h
    simp only [BitVec.toNat_ofNat] at this
    rw [Nat.mod_eq_of_lt ha, Nat.mod_eq_of_lt hb] at this
    exact this
  · intro h; rw [h]

/-- the refusal test of `help_transfer` generated from the source is the one the protocol model
uses (`helpRefuses true`): on the word `rs(2^j) + c` of generation `j` with `c ≤ MAX_RESIZERS`
participants (+1), a helper holding the table of generation `k` is refused iff the generations
differ, or the word says "finisher elected" or "full". -/
theorem help_refusal_matches_model (j k : Fin 31) (c : Nat) (hc : c ≤ 2 ^ 32 - 1) :
    BV.joinRefusedHelp (BV.rsOf (len j) + BitVec.ofNat 64 c) (BV.rsOf (len k)) =
      helpRefuses true (2 ^ 32 - 1) j.val c k.val := by
  have hcn : (BitVec.ofNat 64 c).toNat = c := by
    simp only [BitVec.toNat_ofNat]; exact Nat.mod_eq_of_lt (by omega)
  by_cases hjk : j = k
  · subst hjk
    have hroom := stamp_room j (BitVec.ofNat 64 c) (by rw [hcn, max_resizers_val]; exact hc)
    have hs : BitVec.sshiftRight (BV.rsOf (len j) + BitVec.ofNat 64 c) 32 = BitVec.sshiftRight (BV.rsOf (len j)) 32 := by
      rw [sshift_eq_iff _ _ hroom.1 (stamp_negative j)]; exact hroom.2.1
    rw [help_same_generation_iff j _ hs]
    have hmax : BV.MAX_RESIZERS = BitVec.ofNat 64 (2 ^ 32 - 1) := by decide
    have h1 : (1#64) = BitVec.ofNat 64 1 := rfl
    simp only [helpRefuses, bne_self_eq_false, Bool.and_false, Bool.false_or, beq_self_eq_true, Bool.true_and]
    rw [hmax, h1]
    have e1 : (BV.rsOf (len j) + BitVec.ofNat 64 c == BV.rsOf (len j) + BitVec.ofNat 64 (2 ^ 32 - 1)) = (c == 2 ^ 32 - 1) := by
      rw [Bool.eq_iff_iff]; simp only [beq_iff_eq]
      rw [BitVec.add_right_inj, ofNat_inj_small (by omega) (by omega)]
    have e2 : (BV.rsOf (len j) + BitVec.ofNat 64 c == BV.rsOf (len j) + BitVec.ofNat 64 1) = (c == 1) := by
      rw [Bool.eq_iff_iff]; simp only [beq_iff_eq]
      rw [BitVec.add_right_inj, ofNat_inj_small (by omega) (by omega)]
    rw [e1, e2]
  · have hne : j.val ≠ k.val := fun e => hjk (Fin.ext e)
    rw [help_refuses_other_generation j k hjk _ (by rw [hcn, max_resizers_val]; exact hc)]
    simp [helpRefuses, hne]

end Tie

end Flurry.C10
