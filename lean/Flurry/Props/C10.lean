import Flurry.Props.C10Arith
import Flurry.Lemmas.Resize
/-! # C10 — cooperative resizing: no overlap, single publication, full completion

Arithmetic half: `Props/C10Arith.lean` (stamps, helper room, threshold, doubling), on definitions
regenerated from the source. Protocol half: `Proto/Resize` — any number of threads, every
interleaving, one transition per shared access of `transfer` / `help_transfer` / the resize parts
of `add_count` and `try_presize` (with the port's `i = next_index` claim semantics, under which
claimed strides can be skipped or overlap by one bin). The lemmas are in `Lemmas/Resize*.lean`.

Embedding in the whole map: **partial** — the protocol's control words are compared with the
implementation on the projected event stream of scheduled runs and at quiescence (inspector). -/
namespace Flurry.C10
open Flurry.Proto.Resize

variable {n nthreads stride : Nat} {s : State}

/-- while resizing, `size_ctl` counts exactly the participants (`rs + 1 + participants`) -/
theorem helper_accounting (hr : Reachable n nthreads stride s) {g c : Nat} (h : s.sizeCtl = .resizing g c) :
    c = 1 + numParticipants s ∧
    (g = s.gen ∨ (g + 1 = s.gen ∧ c = 1 ∧ ∃ l ∈ s.threads, l.pc = .pubStoreCtl)) := count_invariant hr h

/-- **every old bin is migrated at most once** per generation … -/
theorem bin_migrated_at_most_once (hr : Reachable n nthreads stride s) :
    s.moved.length = s.n ∧ s.migrations.length = s.n ∧
    ∀ idx, idx < s.n → s.migrations.getD idx 0 ≤ 1 ∧ (s.moved.getD idx false = true ↔ s.migrations.getD idx 0 = 1) :=
  moved_once hr

/-- … and **exactly once** by the time the new table is published (the finisher's re-sweep) -/
theorem all_bins_migrated_at_publication (hr : Reachable n nthreads stride s) {l : Local}
    (hl : l ∈ s.threads) (hpc : l.pc = .pubClearNext ∨ l.pc = .pubSwapTable) :
    ∀ idx, idx < s.n → s.migrations.getD idx 0 = 1 := all_migrated_once_at_publish hr hl hpc

/-- **exactly one thread publishes**: at most one finisher at any time … -/
theorem one_finisher (hr : Reachable n nthreads stride s) {t u : Nat} {l l' : Local}
    (ht : s.threads[t]? = some l) (hu : s.threads[u]? = some l')
    (hl : isFinisher l = true) (hl' : isFinisher l' = true) : t = u := single_finisher_unique hr ht hu hl hl'

/-- … every generation is published exactly once, and each publication exactly doubles the table -/
theorem one_publication_per_generation (hr : Reachable n nthreads stride s) :
    (∀ g, s.published.getD g 0 ≤ 1) ∧ s.published.length = s.gen ∧
    (∀ g, g < s.gen → s.published.getD g 0 = 1) ∧ s.n = n * 2 ^ s.gen := single_publication hr

/-- **resizes of different generations never overlap**: a next table exists only during a resize
of the current generation, and a resize can only be initiated from an idle word -/
theorem generations_do_not_overlap (hr : Reachable n nthreads stride s) (h : s.nextTable = true) :
    ∃ c, s.sizeCtl = .resizing s.gen c := no_overlap hr h

theorem initiation_only_from_idle (hr : Reachable n nthreads stride s) {t c : Nat} {s' : State}
    (hs : step s t c = some s') {thr : Nat} (hidle : s.sizeCtl = .idle thr) (hne : s'.sizeCtl ≠ s.sizeCtl) :
    s'.sizeCtl = .resizing s.gen 2 ∧ s.nextTable = false ∧ thr = threshold s.n ∧
    (∃ l, s.threads[t]? = some l ∧ l.pc = .casInit (.idle thr)) ∧ s'.gen = s.gen ∧ s'.n = s.n :=
  resize_starts_from_idle hr hs hidle hne

/-- **after the last participant leaves the map is not in a resizing state**, and the next
growth threshold is three quarters of the (new) length -/
theorem quiescent_after_resize (hr : Reachable n nthreads stride s) (h : allIdle s) :
    s.sizeCtl = .idle (threshold s.n) ∧ s.nextTable = false := quiescent_after hr h

/-- from every reachable state the threads already inside the machinery can finish on their own
(no new initiations or joins needed) and leave the map quiescent: no resize can get stuck -/
theorem resize_completes (hst : 1 ≤ stride) (hr : Reachable n nthreads stride s) :
    ∃ r s', BusyRun s r s' ∧ run s r = some s' ∧ Reachable n nthreads stride s' ∧ allIdle s' ∧
      s'.sizeCtl = .idle (threshold s'.n) ∧ s'.nextTable = false := progress_possible hst hr

end Flurry.C10
