import Flurry.Lemmas.TableGP
import Flurry.Props.C12BinG
import Flurry.Props.C11TableG
/-! # C12 for `Proto/TableG`: reads never block and finish in a bounded number of their own steps — in the whole table

> `get`, `contains_key`, iterators … never acquire a bin lock and never wait for a writer — whatever
> the other threads are doing in the same bin or in any other bin of the table.

`Proto/TableG`: `m` lineages of `Proto/BinG` on one clock. A thread at a reader pc in lineage `i` of a
reachable table is `idle` in every other lineage (`tableG_active_idle_elsewhere`), so:

1. `tableG_reader_step_enabled` — its table step in lineage `i` is enabled in every reachable table
   state, for every value of the scheduler's arguments (the keys they name, if any, being keys of
   lineage `i`; a reader ignores them);
2. `tableG_reader_step_frame` — that step changes nothing in any lineage except: the clock of every
   lineage advances by one (`tick`), and in lineage `i` the reader's own local state, the reader count
   of one `TreeBin` and `hist` (`BinG.Frame`);
3. `tableG_reader_solo_terminates` — running alone (`runSolo`: all other threads, in all lineages,
   suspended wherever they are) the reader has returned after at most `BinG.soloBound` of its lineage
   (`4 * heap.length + 10`) steps, all enabled; its answer is in the history of the map; every other
   lineage has only ticked.

Proofs: `Lemmas/TableGP.lean` over `Props/C12BinG.lean`. -/
namespace Flurry.Proto.TableGP
open Flurry.Lin Flurry.LinMap Flurry.Proto.TableG

theorem readerPc_ne_idle {pc : BinG.Pc} (h : BinG.readerPc pc = true) : pc ≠ .idle := by
  intro e
  rw [e] at h
  cases h

/-- **C12.1 for the table: a reader's step is never disabled.** In every reachable table state, for
every thread at a reader pc in lineage `i` and every value of the scheduler's arguments (an invoked
key / treeify key, which the reader ignores, must pass the `inLineage` test of `TableG.step`; with
`inv = none`, `maint = none` both hypotheses are `rfl`), the table step of that thread in lineage `i`
is enabled: no state of the other threads in ANY lineage — holding locks, mid-transfer, parked —
disables it. -/
theorem tableG_reader_step_enabled {m n : Nat} {S : State} (hr : Reachable m n S) {i t : Nat} {b : BinG.State}
    {l : BinG.Local} (hb : S.bins[i]? = some b) (hl : b.threads[t]? = some l) (hrd : BinG.readerPc l.pc = true)
    (inv : Option (Nat × KOp)) (lo : Bool) (mt : Option Nat) (rz sm sm2 : Bool)
    (h1 : inLineage S.bins.length i (inv.map (·.1)) = true) (h2 : inLineage S.bins.length i mt = true) :
    (step S i t inv lo mt rz sm sm2).isSome = true := by
  have hrb := tableG_lineage_reachable hr hb
  obtain ⟨b', hs⟩ := Option.isSome_iff_exists.1 (BinG.reader_step_enabled hrb hl hrd inv lo mt rz sm sm2)
  rw [step_lift hb (idleElse_of_active hr hb hl (readerPc_ne_idle hrd)) h1 h2 hs]
  rfl

/-- the quiet form: nothing is started -/
theorem tableG_reader_quiet_step_enabled {m n : Nat} {S : State} (hr : Reachable m n S) {i t : Nat} {b : BinG.State}
    {l : BinG.Local} (hb : S.bins[i]? = some b) (hl : b.threads[t]? = some l) (hrd : BinG.readerPc l.pc = true)
    (lo rz sm sm2 : Bool) : (step S i t none lo none rz sm sm2).isSome = true :=
  tableG_reader_step_enabled hr hb hl hrd none lo none rz sm sm2 rfl rfl

/-- **C12.2 for the table: a reader takes no lock and stores nothing, anywhere.** A table step of a
thread at a reader pc in lineage `i`: the table keeps its lineages; every lineage other than `i` only
ticks (its clock advances, nothing else changes); lineage `i` changes within `BinG.Frame` — heap, the
three cells, the table pointer, `first` / mutex / `WRITER` / `WAITER` of every `TreeBin` and all other
threads are as before; only the reader's local state, one reader count, the clock and `hist` change.
No reachability assumption. -/
theorem tableG_reader_step_frame {S S' : State} {i t : Nat} {b : BinG.State} {l : BinG.Local}
    (hb : S.bins[i]? = some b) (hl : b.threads[t]? = some l) (hrd : BinG.readerPc l.pc = true)
    {inv : Option (Nat × KOp)} {lo : Bool} {mt : Option Nat} {rz sm sm2 : Bool}
    (hs : step S i t inv lo mt rz sm sm2 = some S') :
    S'.bins.length = S.bins.length ∧ (∃ b', S'.bins[i]? = some b' ∧ BinG.Frame t b b') ∧
    ∀ (j : Nat) (bj : BinG.State), j ≠ i → S.bins[j]? = some bj → S'.bins[j]? = some (tick bj) := by
  obtain ⟨b0, b', hb0, _, _, _, hs', rfl⟩ := step_eq_some hs
  rw [hb] at hb0
  cases hb0
  obtain ⟨h1, h2⟩ := bins_after b' hb
  refine ⟨?_, ⟨b', h1, BinG.reader_step_frame hl hrd hs'⟩, h2⟩
  show ((S.bins.map tick).set i b').length = _
  rw [List.length_set, List.length_map]

/-- **C12.3 for the table: bounded own steps.** From every reachable table state, a thread at a reader
pc in lineage `i` that runs alone — every other thread suspended wherever it is, in whatever lineage —
has returned after at most `BinG.soloBound b = 4 * b.heap.length + 10` of its own steps (`b`: its
lineage), all of them enabled table steps: it is `idle` in lineage `i`, its call is appended to the
lineage's `hist` and is an entry of the history of the map; lineage `i` changed within `BinG.Frame`;
every other lineage has only ticked `k` times; the table reached is reachable. -/
theorem tableG_reader_solo_terminates {m n : Nat} {S : State} (hr : Reachable m n S) {i t : Nat} {b : BinG.State}
    {l : BinG.Local} (hb : S.bins[i]? = some b) (hl : b.threads[t]? = some l) (hrd : BinG.readerPc l.pc = true)
    (sm sm2 : Bool) :
    ∃ k, k ≤ BinG.soloBound b ∧ ∃ (S' : State) (b' : BinG.State) (p : BinG.Pending) (res : KRes) (resp : Nat),
      l.call = some p ∧ runSolo i t sm sm2 k S = some S' ∧ Reachable m n S' ∧
      S'.bins.length = S.bins.length ∧ S'.bins[i]? = some b' ∧ BinG.Frame t b b' ∧
      b'.threads[t]? = some { pc := .idle, call := none } ∧
      b'.hist = (p.key, { tid := t, op := p.op, res := res, inv := p.inv, resp := resp }) :: b.hist ∧
      (⟨p.key, { tid := t, op := p.op, res := res, inv := p.inv, resp := resp }⟩ : MCall) ∈ mhist S' ∧
      ∀ (j : Nat) (bj : BinG.State), j ≠ i → S.bins[j]? = some bj → S'.bins[j]? = some (tickN k bj) := by
  have hrb := tableG_lineage_reachable hr hb
  obtain ⟨k, hk, b', p, res, resp, hp, hrun, hfr, hidle, hhist⟩ := BinG.reader_solo_terminates hrb hl hrd sm sm2
  obtain ⟨S', hrun', hlen, hi', hoth⟩ :=
    solo_lift k hb (idleElse_of_active hr hb hl (readerPc_ne_idle hrd)) hrun
  refine ⟨k, hk, S', b', p, res, resp, hp, hrun', runSolo_reachable k hr hrun', hlen, hi', hfr, hidle, hhist, ?_, hoth⟩
  have : (p.key, ({ tid := t, op := p.op, res := res, inv := p.inv, resp := resp } : Call)) ∈ b'.hist := by
    rw [hhist]; exact List.mem_cons_self
  unfold mhist
  rw [List.mem_flatten]
  refine ⟨binCalls b', List.mem_map.2 ⟨b', List.mem_of_getElem? hi', rfl⟩, ?_⟩
  unfold binCalls
  exact List.mem_map.2 ⟨_, List.mem_reverse.2 this, rfl⟩

/-- `tickN k` changes the clock only -/
theorem tickN_eq (k : Nat) (b : BinG.State) : tickN k b = { b with now := b.now + k } := rfl

/-! ## non-vacuity: the reader of `busyState` (`Props/C11TableG.lean`) -/

/-- in `busyState` thread 2 is at `rTree 0` in lineage 0 while thread 0 is parked behind it, lineage 1
is mid-transfer with its bin lock held and thread 1 waits for that lock: running alone, the reader
returns `get 0 = some (5, 100)` in 3 steps (within `soloBound = 4 * 4 + 10`), lineage 1 has only ticked
(same pcs, clock + 3) -/
example : (busyState.bind fun S => (runSolo 0 2 false false 3 S).map fun S' =>
      ((S.bins[0]?).map BinG.soloBound, (S'.bins[0]?).map (fun b => (b.threads[2]?, b.hist.head?)))) =
    some (some 26, some (some { pc := .idle, call := none },
        some (0, { tid := 2, op := .get, res := .some 5 100, inv := 35, resp := 60 }))) := by decide

example : (busyState.bind fun S => (runSolo 0 2 false false 3 S).map fun S' =>
      ((S.bins[1]?).map (fun b => (b.threads.map (·.pc), b.cell0, b.now)),
        (S'.bins[1]?).map (fun b => (b.threads.map (·.pc), b.cell0, b.now)))) =
    some (some ([.idle, .wLock .old 0, .idle, .xStoreHigh (.inl 0) (.list 1)], .list 0, 57),
      some ([.idle, .wLock .old 0, .idle, .xStoreHigh (.inl 0) (.list 1)], .list 0, 60)) := by decide

/-- the general theorem instantiated at `busyState` -/
example : ∃ S, busyState = some S ∧ ∃ k, k ≤ 26 ∧ ∃ S', runSolo 0 2 false false k S = some S' ∧ Reachable 2 4 S' := by
  have h : (busyState.map fun S => (S.bins[0]?).map fun b => (b.threads[2]?, BinG.soloBound b)) =
      some (some (some { pc := .rTree 0, call := some ⟨0, .get, 35⟩ }, 26)) := by decide
  cases hs : busyState with
  | none => rw [hs] at h; cases h
  | some S =>
    rw [hs] at h
    simp only [Option.map_some, Option.some.injEq] at h
    cases hb : S.bins[0]? with
    | none => rw [hb] at h; cases h
    | some b =>
      rw [hb] at h
      simp only [Option.map_some, Option.some.injEq, Prod.mk.injEq] at h
      have hr : Reachable 2 4 S := run_reachable busySched Reachable.init hs
      obtain ⟨k, hk, S', _, _, _, _, _, hrun, hr', _⟩ := tableG_reader_solo_terminates hr hb h.1 rfl false false
      exact ⟨S, rfl, k, by rw [h.2] at hk; exact hk, S', hrun, hr'⟩

end Flurry.Proto.TableGP
