import Flurry.SigDefs
import Flurry.Gen.Guards
/-! # C09 — every guard-taking operation rejects guards of a foreign collector

`Flurry.Gen.guardFns` is regenerated from /repo/src on every run: one row per function of
`HashMap`, `HashSet`, `HashMapRef`, `HashSetRef` (and their trait impls) and per guard it has in
scope, with the ordered list of what it does with that guard. -/
namespace Flurry.C09
open Flurry.Sig Flurry.Gen

/-- call depth bound: the number of rows -/
def fuel : Nat := guardFns.length

/-- the public rows: `pub fn`s and trait-impl methods -/
def publicRows : List GFn := guardFns.filter (·.pub)

/-- **table theorem**: every public function, for every guard it has in scope, is `Checked`:
before any use of that guard other than passing it on, `check_guard` has run — in the function
itself or in every callee the guard is handed to. -/
theorem all_public_guarded : publicRows.all (checkedB guardFns fuel) = true := by decide

/-- **the check itself rejects in every build profile**: the body of every `check_guard` is an
unconditional `assert!(Collector::ptr_eq(..))` (not `debug_assert!`, not under `cfg`), or a call of
another `check_guard`; and there is at least one (the map's). -/
theorem check_guard_unconditional :
    checkGuardBodies.all (·.2) = true ∧ checkGuardBodies.any (·.1 == "HashMap") = true := by decide

/-- one level: if every callee that is `Checked` runs without a foreign use, so do the uses -/
theorem checkedUsesWith_sound (ck : Nat → Bool) (run : Nat → List GEv × Bool)
    (hc : ∀ i, ck i = true → ((run i).1.all (fun e => !isForeign e)) = true) :
    ∀ us, checkedUsesWith ck us = true →
      ((runUsesWith run us).1.all (fun e => !isForeign e)) = true := by
  intro us
  induction us with
  | nil => intro _; simp [runUsesWith]
  | cons u rest ih =>
    intro h
    cases u with
    | check => simp [runUsesWith, isForeign]
    | store => simpa [runUsesWith, checkedUsesWith] using ih (by simpa [checkedUsesWith] using h)
    | raw w => simp [checkedUsesWith] at h
    | call row name =>
      simp only [checkedUsesWith, Bool.and_eq_true] at h
      obtain ⟨h1, h2⟩ := h
      have e1 := hc row h1
      have e2 := ih h2
      simp only [runUsesWith]
      split
      · exact e1
      · simp only [List.all_append, Bool.and_eq_true]; exact ⟨e1, e2⟩

/-- general lemma: in the call semantics of `SigDefs`, running a `Checked` row with a foreign
guard produces no foreign use of the guard: it either panics first or never touches the map
through that guard. -/
theorem checkedRow_sound (tbl : List GFn) :
    ∀ (fuel i : Nat), checkedRow tbl fuel i = true →
      ((runRow tbl fuel i).1.all (fun e => !isForeign e)) = true := by
  intro fuel
  induction fuel with
  | zero => intro i h; simp [checkedRow] at h
  | succ n ih =>
    intro i h
    simp only [checkedRow] at h
    simp only [runRow]
    cases hl : tbl[i]? with
    | none => simp [hl] at h
    | some r =>
      simp only [hl] at h ⊢
      exact checkedUsesWith_sound _ _ (fun j hj => ih j hj) r.uses h

theorem checked_sound (tbl : List GFn) (fuel : Nat) (r : GFn) (h : checkedB tbl fuel r = true) :
    ((runFn tbl fuel r).1.all (fun e => !isForeign e)) = true :=
  checkedUsesWith_sound _ _ (fun j hj => checkedRow_sound tbl fuel j hj) r.uses h

/-- what C09 says, for the extracted table: calling any public guard-taking function with a
foreign guard never uses that guard on the map. -/
theorem no_foreign_use (r : GFn) (hr : r ∈ publicRows) :
    ((runFn guardFns fuel r).1.all (fun e => !isForeign e)) = true := by
  have h := all_public_guarded
  rw [List.all_eq_true] at h
  exact checked_sound guardFns fuel r (h r hr)

/-- … and a function that reads through the guard panics (the statement is not vacuous):
`HashMap::get` run with a foreign guard yields exactly one event, the panic. -/
example : (runRow guardFns fuel row_HashMap_get_guard).2 = true := by decide
example : (runRow guardFns fuel row_HashMap_try_insert_guard).2 = true := by decide
example : (runRow guardFns fuel row_HashMap_clear_guard).2 = true := by decide
example : (runRow guardFns fuel row_HashSetRef_clear_self_guard).2 = true := by decide

-- the table is not empty
example : 60 ≤ publicRows.length := by decide

end Flurry.C09
