import Flurry.Lemmas.BinNLin
import Flurry.Lemmas.BinNExamples
/-! # C01 / C08 / C10 (bin level): a list-bin lineage through ANY NUMBER of successive resizes

`Proto/BinN.lean` models the cells `(g, j)`, `j < 2^g`, of the generations `g = 0, 1, 2, …` of one
bin lineage; the table is resized again and again (one resizing thread per generation, cells in any
order, per cell exactly `Proto/BinX`'s transfer with the re-used last run) while any number of threads
perform `get`, `contains_key`, `insert`, `try_insert`, `remove`, `compute_if_present` — one
shared-memory access per transition; a thread may hold a pointer to a table that is arbitrarily many
generations old and follows forwarding marker after marker.

**Main theorem.** For every reachable state and every key, the history of that key — the completed calls,
plus the calls of writers that have done their store and only have to unlock — is linearizable from
"absent" to the key's current abstract state (`binN_linearizable`; quiescent form
`binN_linearizable_quiescent`), under every interleaving of any number of threads and ANY number of
successive resizes. Linearization points: lock-holding writers at their single store, the lock-free insert
at its successful CAS, operations that see an empty cell at that load, readers *in hindsight* (`Good`,
`Good.step`, and — across the forwarding of a cell, in whatever generation — `Good.moved` in
`Lemmas/BinNGhostMoved.lean`; a reader that has been carried over to a sibling lineage by a re-used last
run stays justified through every later split of that lineage: `Good.foreign`). Allocation of a
generation, every step of every transfer and every commit have no abstract effect
(`transfer_abs_invariant`).

**The generation structure** (`GenInv`, `Lemmas/BinNGen*.lean`): generations do not overlap, old
generations are forwarded for ever, cells of the next generation are never forwarded, a lookup follows at
most one marker from `cur`, *a thread that follows the markers and finds a cell that is not forwarded has
reached the live cell of its key, whatever the age of its table pointer* (`follow_markers_until_live`),
node locks match program counters and validated locks are exclusive.

**The heap** (`HInv`, `Lemmas/BinNDefs.lean`): every cell heads a well-formed chain, strictly increasing in
the rank `ord` (copies of ALL generations first, by decreasing index, then the other nodes by increasing
index), with pairwise distinct keys that all belong to the cell (`chains_wellformed`); the split
(`Lemmas/BinNSplit.lean`: `splitBinB_spec`) re-uses the last run and copies the prefix also when the old
list already contains copies of earlier generations.

**Validation by execution** (`Lemmas/BinNExamples.lean`): 24 000 random schedules (2–4 threads, up to 3
resizes, sleepers that are stale by two and three generations), every quiescent per-key history decided
linearizable by the complete procedure `Lin.search`; kernel-checked runs; the variant without the writers'
re-check is refuted (`noCheck_refutes`). -/
namespace Flurry.Proto.BinN
open Flurry.Lin
open Flurry.Proto.BinX (Pending)

/-- the generation invariant holds in every reachable state -/
theorem reachable_gen_inv {n : Nat} {s : State} (hr : Reachable n s) : GenInv s := reachable_geninv hr

/-- **generations do not overlap**: the tables are the generations `0 … cur`, plus generation `cur + 1`
exactly while a resize runs (so at most one generation is being filled, and it is `cur + 1`); generation
`g` has `2^g` cells; at most one thread is resizing, and only while `resizing` is set -/
theorem generations_do_not_overlap {n : Nat} {s : State} (hr : Reachable n s) :
    s.tabs.length = s.cur + 1 + (if s.resizing then 1 else 0) ∧
    (∀ g row, s.tabs[g]? = some row → row.length = 2 ^ g) ∧
    (∀ (t t' : Nat) (l l' : Local), s.threads[t]? = some l → s.threads[t']? = some l' → isT l.pc → isT l'.pc → t = t') ∧
    (∀ (t : Nat) (l : Local), s.threads[t]? = some l → isT l.pc → s.resizing = true) :=
  let I := reachable_geninv hr
  ⟨I.len, I.rows, I.uniqT, fun t l hl => (I.thr t l hl).tres⟩

/-- **old generations are forwarded**: every cell of a generation older than `cur` is `moved`, for ever -/
theorem old_generations_forwarded {n : Nat} {s : State} (hr : Reachable n s) {g j : Nat} (hg : g < s.cur)
    (hj : j < 2 ^ g) : cellAt s g j = .moved :=
  (reachable_geninv hr).old g j hg hj

/-- no cell of the generation that is being filled is forwarded; a forwarding marker in generation `cur`
exists only while a resize runs -/
theorem next_generation_not_forwarded {n : Nat} {s : State} (hr : Reachable n s) :
    (∀ j, cellAt s (s.cur + 1) j ≠ .moved) ∧ (∀ j, cellAt s s.cur j = .moved → s.resizing = true) :=
  ⟨(reachable_geninv hr).nextOK, (reachable_geninv hr).curMoved⟩

/-- a lookup that starts now follows at most one forwarding marker -/
theorem liveCell_one_hop {n : Nat} {s : State} (hr : Reachable n s) (k : Nat) :
    liveCell s k = if cellOf s s.cur k = .moved then cellOf s (s.cur + 1) k else cellOf s s.cur k :=
  (reachable_geninv hr).liveCell_eq k

/-- the generation a thread works in is at most `cur + 1`, and it is `cur + 1` only behind a forwarding
marker (of its key, in generation `cur`) that is still there -/
theorem thread_generation {n : Nat} {s : State} (hr : Reachable n s) {t : Nat} {l : Local} {p : Pending} {g : Nat}
    (hl : s.threads[t]? = some l) (hp : l.call = some p) (hg : genOfPc l.pc = some g) :
    g ≤ s.cur + 1 ∧ (g = s.cur + 1 → cellOf s s.cur p.key = .moved) :=
  ((reachable_geninv hr).thr t l hl).gen p g hp hg

/-- **follow the markers until a live cell**: a reader or writer that works in generation `g` — however
old the table pointer it once loaded — and sees a cell of its key that is not forwarded has reached the
cell in which a lookup started now would end; in an older generation it can only see `moved` -/
theorem follow_markers_until_live {n : Nat} {s : State} (hr : Reachable n s) {t : Nat} {l : Local} {p : Pending}
    {g : Nat} (hl : s.threads[t]? = some l) (hp : l.call = some p) (hg : genOfPc l.pc = some g) :
    (cellOf s g p.key ≠ .moved → liveCell s p.key = cellOf s g p.key) ∧
    (g < s.cur → cellOf s g p.key = .moved) :=
  ⟨(reachable_geninv hr).live_of_gen hl hp hg, fun h => (reachable_geninv hr).stale_sees_moved h _⟩

/-- **node locks match program counters**: a thread whose program counter says it holds the mutex of
node `h` is the owner recorded in the node -/
theorem node_lock_owner {n : Nat} {s : State} (hr : Reachable n s) {t : Nat} {l : Local} {h : Nat}
    (hl : s.threads[t]? = some l) (hh : Holds l.pc h) : h < s.heap.length ∧ lockAt s.heap h = some t :=
  ((reachable_geninv hr).thr t l hl).held h hh

/-- a validated lock holder (a writer between its re-check and its store, the resizing thread from
`tBuild` to the store of the forwarding marker) still sees its node as the head of its cell -/
theorem validated_head {n : Nat} {s : State} (hr : Reachable n s) {t : Nat} {l : Local} {g j h : Nat}
    (hl : s.threads[t]? = some l) (hv : vcell s.cur l = some (g, j, h)) :
    cellAt s g j = .node h ∧ Holds l.pc h :=
  ((reachable_geninv hr).thr t l hl).valid g j h hv

/-- **mutual exclusion**: at most one thread holds a validated lock on a cell — in particular a writer
and the transfer of the same cell exclude each other, in every generation -/
theorem validated_mutex {n : Nat} {s : State} (hr : Reachable n s) {t t1 : Nat} {l l1 : Local} {g j h h1 : Nat}
    (hl : s.threads[t]? = some l) (hl1 : s.threads[t1]? = some l1)
    (hv : vcell s.cur l = some (g, j, h)) (hv1 : vcell s.cur l1 = some (g, j, h1)) : t = t1 :=
  (reachable_geninv hr).mutex hl hl1 hv hv1

/-- the resizing thread commits only when every cell of generation `cur` is forwarded -/
theorem commit_only_when_all_forwarded {n : Nat} {s : State} (hr : Reachable n s) {t : Nat} {l : Local}
    (hl : s.threads[t]? = some l) (hc : l.pc = .tCommit) : ∀ j, j < 2 ^ s.cur → cellAt s s.cur j = .moved :=
  ((reachable_geninv hr).thr t l hl).commit hc

/-- **allocation and publication of a generation have no abstract effect** (the part of
`transfer_abs_invariant` that concerns the generation structure): starting a resize (allocating
generation `cur + 1`) and committing (`cur := cur + 1`) change the abstract state of no key -/
theorem alloc_commit_abs_invariant {n : Nat} {s s' : State} (hr : Reachable n s) {t : Nat} {l : Local}
    {inv : Option (Nat × KOp)} {rz : Bool} {pick : Nat} (hl : s.threads[t]? = some l)
    (hpc : (l.pc = .idle ∧ rz = true) ∨ l.pc = .tCommit)
    (hs : step s t inv rz pick = some s') (k : Nat) : absOf s' k = absOf s k := by
  have I := reachable_geninv hr
  have I' := step_geninv I hs
  have hk := step_stepK hl hs
  rcases hpc with ⟨hi, hrz⟩ | hc
  · subst hrz
    unfold step stepG at hs
    rw [hl] at hs
    obtain ⟨pc, call⟩ := l
    simp only at hi; subst hi
    simp only [if_true] at hs
    split at hs
    · cases hs
      exact absOf_congr (s := s) (s' := { s with now := s.now + 1 }) rfl (liveCell_congr (s := s) (s' := { s with now := s.now + 1 }) rfl rfl k)
    · cases hs
      exact alloc_abs I I' rfl rfl rfl k
  · have hall := ((I.thr t l hl).commit hc)
    unfold step stepG at hs
    rw [hl] at hs
    obtain ⟨pc, call⟩ := l
    simp only at hc; subst hc
    cases call with
    | some p => simp at hs
    | none =>
      simp only [Option.some.injEq] at hs
      subst hs
      exact commit_abs I I' rfl rfl rfl hall k

/-! ## linearizability -/

/-- **C01 / C10, bin level, any number of resizes.** Under every interleaving of any number of threads
and any number of successive transfers, the per-key history (completed calls plus stored-but-not-yet-unlocked
writers) is linearizable and ends in the abstract content of the key. -/
theorem binN_linearizable {n : Nat} {s : State} (hr : Reachable n s) (k : Nat) :
    Lin.Linearizable (callsOnExt s k) none (absOf s k) := by
  obtain ⟨G, A, pt, I, g⟩ := reachable_ginv hr k
  exact g.core.linearizable I.thr

/-- **C01 / C10, bin level, any number of resizes, quiescent form.** -/
theorem binN_linearizable_quiescent {n : Nat} {s : State} (hr : Reachable n s) (hq : quiescent s) (k : Nat) :
    Lin.Linearizable (callsOn s k) none (absOf s k) := by
  have := binN_linearizable hr k
  rw [callsOnExt_quiescent hq] at this
  exact this

/-- **the transfers have no abstract effect**: no step of a resizing thread — in any generation: the loads,
the CAS of an empty cell to `moved`, lock / re-check, the split, the store of the low list, of the high list,
of the forwarding marker (where the live chain of every key of the cell switches from the old list to a new
one), unlock, the commit — and no start of a resize (allocation of the next generation) changes the abstract
state of any key -/
theorem transfer_abs_invariant {n : Nat} {s s' : State} (hr : Reachable n s) {t : Nat} {l : Local}
    {inv : Option (Nat × KOp)} {rz : Bool} {pick : Nat} (hl : s.threads[t]? = some l)
    (hT : isT l.pc ∨ (l.pc = .idle ∧ rz = true))
    (hs : step s t inv rz pick = some s') (k : Nat) : absOf s' k = absOf s k := by
  rcases hT with hT | hidle
  · obtain ⟨G, I⟩ := reachable_inv hr
    obtain ⟨G', -, -, ae⟩ := stepK_inv I hl (step_stepK hl hs)
    refine ae.quiet_of ?_ ?_ k
    · intro g hpc; rw [hpc] at hT; exact hT
    · intro g h a b c hpc; rw [hpc] at hT; exact hT
  · exact alloc_commit_abs_invariant hr hl (Or.inl hidle) hs k

/-- the chains of a reachable state: every cell (of every generation) is the head of a chain that is strictly
increasing in `ord` (hence acyclic and duplicate-free), with pairwise distinct keys that all belong to the cell -/
theorem chains_wellformed {n : Nat} {s : State} (hr : Reachable n s) :
    ∃ cr : CR, NextOK cr s.heap ∧ ∀ id : CellId,
      BinX.IsChain s.heap (BinX.cellHead (getCell s id)) (chId s id) ∧ (chId s id).Nodup ∧
      (chId s id).Pairwise (fun x y => ord cr x < ord cr y) ∧
      BinX.KeysDistinct s.heap (chId s id) ∧ ∀ i ∈ chId s id, (BinX.nodeAt s.heap i).key % 2 ^ id.1 = id.2 := by
  obtain ⟨G, I⟩ := reachable_inv hr
  exact ⟨G.cr, I.heap.nextOK, fun id => ⟨I.heap.isChain id, I.heap.chain_nodup id,
    (I.heap.isChain id).sortedN I.heap.nextOK, I.heap.keys id, I.heap.side id⟩⟩

/-- cells of the generation being filled are empty until the transfer of their parent stores them: a cell
of generation `cur + 1` whose parent is neither forwarded nor being split is `empty` -/
theorem next_generation_empty_until_transferred {n : Nat} {s : State} (hr : Reachable n s) :
    ∃ G : Ghost, ∀ j', cellAt s s.cur (j' % 2 ^ s.cur) ≠ .moved → midIdx G ≠ some (j' % 2 ^ s.cur) →
      cellAt s (s.cur + 1) j' = .empty := by
  obtain ⟨G, I⟩ := reachable_inv hr
  exact ⟨G, I.heap.nextEmpty⟩

/-! ## validation by execution (see `Lemmas/BinNExamples.lean`) -/

/-- a reader and a writer that loaded generation 0 before the first resize and resume after the SECOND
resize has committed: reachable, and all histories linearizable (complete decision procedure, kernel-checked) -/
theorem stale_by_two_generations :
    ∃ s, Reachable 4 s ∧ quiescent s ∧ s.cur = 2 ∧ ∀ k < 4, Lin.Linearizable (callsOn s k) none (absOf s k) := by
  obtain ⟨s, -, h⟩ := stale_two_generations_linearizable
  exact ⟨s, h⟩

/-- the same run, by the theorem: the slow `get(1)` that loaded the head of cell `(0,0)` in generation 0 and
returns the OLD value after two complete resizes and after a later `get(1)` has returned the new value — its
history is linearizable, for every key -/
theorem stale_read_across_two_generations :
    ∃ s, run step (init 4) schedB = some s ∧ Reachable 4 s ∧ quiescent s ∧ s.cur = 2 ∧
      ∀ k, Lin.Linearizable (callsOn s k) none (absOf s k) := by
  obtain ⟨s, hrun, hreach, hq, hc, -⟩ := stale_read_two_generations_linearizable
  exact ⟨s, hrun, hreach, hq, hc, binN_linearizable_quiescent hreach hq⟩

/-- the re-check of the writers is load-bearing across any number of forwardings -/
theorem noCheck_refuted :
    ¬ ∀ (n : Nat) (s : State), ReachableNoCheck n s → quiescent s → ∀ k,
      Lin.Linearizable (callsOn s k) none (absOf s k) := noCheck_refutes

end Flurry.Proto.BinN
