import Flurry.Gen.Atomics
import Flurry.Proto.BinW
import Flurry.Proto.BinXC
/-! # C01 / C03 / C08 — the step order of the bin models is the order of the source

The bin models (`Proto/BinW`, `BinT`, `BinX`, `BinXC`) are written by hand. Their load-bearing
steps are

* `wLock → wCheck → write`: after taking a bin lock a writer re-reads the bin cell and compares it
  with the bin it locked before it stores anything (`noCheck_refutes`: without the re-check the
  list-bin model is not linearizable), and
* `cTable → cWait → cCell` in `clear`: after helping a resize, `clear` waits until the resize has
  been committed before it continues in the new table (`noWait_not_linearizable`,
  `noWait_retires_reachable`: finding F7).

`Gen.binLockOrder` and `Gen.clearMovedOrder` are regenerated from /repo/src/map.rs on every run
(`extract/src/atomics.rs`): per function that takes a bin lock, the source order of `lock`
(`.lock.lock()`), `binload` (a load of the bin cell), `recheck` (an `if` comparing that cell with
`!=`) and `write` (runs of stores / swaps / CASes / retirements). The theorems below say that the
source has the models' order at **every** bin-lock site. -/
namespace Flurry.C01Source
open Flurry.Gen

/-- scanning one function: `need = true` after a `lock` until the next `recheck`; a `write` while
`need` is a store made under a lock that was not validated -/
def lockedOk : Bool → List String → Bool
  | _, [] => true
  | need, e :: es =>
    if e == "lock" then lockedOk true es
    else if e == "recheck" then lockedOk false es
    else if e == "write" then (!need) && lockedOk need es
    else lockedOk need es

/-- after a `lock`, the very next events are `binload`, `recheck` -/
def recheckFollows : List String → Bool
  | [] => true
  | e :: es => (if e == "lock" then es.take 2 == ["binload", "recheck"] else true) && recheckFollows es

/-- **every bin lock taken in map.rs is followed by a re-read of the bin cell and a comparison
before anything is stored under it** -/
theorem every_bin_lock_is_rechecked :
    binLockOrder.all (fun fo => lockedOk false fo.2 && recheckFollows fo.2) = true := by decide

/-- not vacuous: the eleven lock sites of the six functions the models cover -/
theorem lock_sites_present :
    binLockOrder.map (fun fo => (fo.1, (fo.2.filter (· == "lock")).length)) =
      [("transfer", 2), ("put", 2), ("replace_node", 2), ("compute_if_present", 2), ("clear", 2), ("treeify_bin", 1)] := by
  decide

/-- the model's writer has the same order: in `Proto/BinW` the pc after `wLock` is `wCheck`, and
only `wCheck` leads to the walk that ends in a store (`stepG true`) -/
example : (Flurry.Proto.BinW.stepG true
    { heap := [⟨1, (5, 0), none, none⟩], head := some 0, threads := [{ pc := .wLock 0, call := some ⟨1, .rm, 0⟩ }] } 0 none).map
      (fun s => (s.threads.map (·.pc))) = some [.wCheck 0] := by decide

/-- **`clear` waits for the commit of a resize it helped before it restarts in the new table**
(the `cWait` step of `Proto/BinXC`; without it: `noWait_not_linearizable`, F7) -/
theorem clear_waits_for_commit : clearMovedOrder = ["help", "wait-commit", "restart"] := by decide

end Flurry.C01Source
