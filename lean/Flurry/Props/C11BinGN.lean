import Flurry.Lemmas.BinGNProgStuck
import Flurry.Props.C12BinGN
/-! # C11 for `Proto/BinGN`: no reachable state of a bin lineage is a deadlock — through ANY number of resizes

> A thread holds at most one bin lock at a time (plus, nested inside one `TreeBin`, mutex → write lock); the resizing
> thread holds one lock, and none between two cells; readers hold only a read count and never wait. Hence a thread
> that waits for a lock waits for a holder that can itself move.

Port of `Props/C11BinG.lean` to the small-step model `Proto/BinGN` (list-bin writers locking the head node, tree-bin
writers with bin mutex + read-write lock + `WAITER`/park, treeify, one resizing thread per generation moving the cells
`(cur, j)` in any order — empty, list and tree bins —, lock-free and lock-protocol readers) over **all** reachable states:

* `step_disabled_only_by_lock` — the step of a thread that is not `idle` is enabled unless the thread is at one of the
  six waiting pcs and what it waits for is taken (`Blocked`): `stepG` never returns `none` for any other reason in a
  reachable state (no missing call, no index outside the heap, no call that does not fit the pc);
* `holder_exists` — a taken node lock / bin mutex has a holder: a thread of the state at a pc that holds it;
  `holders_do_not_wait`;
* `resizer_between_cells_holds_no_lock` — the resizing thread at `xNext`, `xCell j`, `xCasMoved j`, `xCommit` is the
  owner of no lock word and of no mutex;
* `parked_writer_waits_for_reader`, `blocked_waits_for_other`, `blocked_waits_for_enabled` — from any thread that is not
  `idle`, the wait-for relation (`wLock`, `kLock`, `xLock` → holder of the node lock; `tMutex`, `yMutex` → holder of the
  mutex; parked `lrLoop` → a reader inside the bin) leads in at most two hops to a thread whose step is enabled;
* `binGN_never_stuck_all` / `binGN_never_stuck` — in every reachable state that is not quiescent some thread that is
  NOT idle has an enabled step.

Proofs: `Lemmas/BinGNProgInv.lean`, `Lemmas/BinGNProgEn.lean`, `Lemmas/BinGNProgStuck.lean` (namespace
`Flurry.Proto.BinGNP`). The theorems live in `Flurry.Proto.BinGNProg`. -/
namespace Flurry.Proto.BinGNProg
open Flurry.Lin
open Flurry.Proto.BinGNP
open Flurry.Proto.BinK (nodeAt binAt)

/-- **the only reason for a disabled step is a taken lock.** In every reachable state, for every thread that is not
`idle` and every value of the scheduler's arguments: the step is enabled, or the thread is at `wLock g h` /
`kLock g k h` / `xLock j h` and the lock word of node `h` is taken, or at `tMutex g b` / `yMutex j b` and the mutex of
`TreeBin` `b` is taken, or parked at `lrLoop g b` with `WAITER` set while the write lock is held or readers remain
(`Blocked`). -/
theorem step_disabled_only_by_lock {n : Nat} {s : State} (hr : Reachable n s) {t : Nat} {l : Local}
    (hl : s.threads[t]? = some l) (hne : l.pc ≠ .idle) (inv : Option (Nat × KOp)) (lo : Bool)
    (mt : Option Nat) (rz sm sm2 : Bool) (pick : Nat) :
    (step s t inv lo mt rz sm sm2 pick).isSome = true ∨ Blocked s l.pc :=
  step_enabled_or_blocked (reachable_inv hr) (reachable_binv hr) hl hne inv lo mt rz sm sm2 pick

/-- `Blocked` spelled out -/
theorem blocked_iff (s : State) (pc : Pc) : Blocked s pc ↔
    ((∃ g h, pc = .wLock g h ∧ (nodeAt s.heap h).lock.isSome = true) ∨
     (∃ g k h, pc = .kLock g k h ∧ (nodeAt s.heap h).lock.isSome = true) ∨
     (∃ j h, pc = .xLock j h ∧ (nodeAt s.heap h).lock.isSome = true) ∨
     (∃ g b, pc = .tMutex g b ∧ (binAt s.tbins b).mutex.isSome = true) ∨
     (∃ j b, pc = .yMutex j b ∧ (binAt s.tbins b).mutex.isSome = true) ∨
     (∃ g b k res, pc = .lrLoop g b k res ∧ (binAt s.tbins b).waiter = true ∧
        ((binAt s.tbins b).writer = true ∨ (binAt s.tbins b).readers ≠ 0))) := by
  constructor
  · intro h
    cases pc with
    | wLock g h' => exact Or.inl ⟨g, h', rfl, h⟩
    | kLock g k h' => exact Or.inr (Or.inl ⟨g, k, h', rfl, h⟩)
    | xLock j h' => exact Or.inr (Or.inr (Or.inl ⟨j, h', rfl, h⟩))
    | tMutex g b => exact Or.inr (Or.inr (Or.inr (Or.inl ⟨g, b, rfl, h⟩)))
    | yMutex j b => exact Or.inr (Or.inr (Or.inr (Or.inr (Or.inl ⟨j, b, rfl, h⟩))))
    | lrLoop g b k res => exact Or.inr (Or.inr (Or.inr (Or.inr (Or.inr ⟨g, b, k, res, rfl, h⟩))))
    | _ => exact absurd h id
  · rintro (⟨g, h, rfl, hh⟩ | ⟨g, k, h, rfl, hh⟩ | ⟨j, h, rfl, hh⟩ | ⟨g, b, rfl, hh⟩ | ⟨j, b, rfl, hh⟩ |
      ⟨g, b, k, res, rfl, hh⟩) <;> exact hh

/-- **a taken lock has a holder.** In every reachable state: if the lock word of node `h` is `some x`, thread `x`
exists and is at a pc that holds that lock (`holdsLock`: `wCheck … wUnlock`, `kCheck … kUnlock`, `xCheck`, `xBuild`,
`xStoreLow … xUnlock (inl h)`); if the mutex of `TreeBin` `b` is `some x`, thread `x` exists and is at a pc that holds
that mutex (`holdsMutex`: `tCheck … tUnlockM`, `yCheck`, `yBuild`, `xStoreLow … xUnlock (inr b)`). -/
theorem holder_exists {n : Nat} {s : State} (hr : Reachable n s) :
    (∀ h x, (nodeAt s.heap h).lock = some x → ∃ l, s.threads[x]? = some l ∧ holdsLock l.pc = some h) ∧
    (∀ b x, (binAt s.tbins b).mutex = some x → ∃ l, s.threads[x]? = some l ∧ holdsMutex l.pc = some b) :=
  ⟨fun _ _ hx => lock_holder_exists (reachable_inv hr) hx, fun _ _ hx => mutex_holder_exists (reachable_inv hr) hx⟩

/-- holders do not wait: the holder of a node lock is never at a waiting pc; the holder of a mutex is at a waiting pc
only when it is at `lrLoop` of that very `TreeBin` (the nesting mutex → write lock) -/
theorem holders_do_not_wait {pc : Pc} :
    (∀ h, holdsLock pc = some h → pc ≠ .idle ∧ waitPc pc = false) ∧
    (∀ b, holdsMutex pc = some b → pc ≠ .idle ∧ (waitPc pc = false ∨ ∃ g k res, pc = .lrLoop g b k res)) :=
  ⟨fun _ h => holdsLock_not_wait h, fun _ h => holdsMutex_not_wait h⟩

/-- **the resizing thread holds no lock between two cells**: in every reachable state a thread at `xNext` (choosing
the next cell / about to commit), `xCell j` (about to load a cell), `xCasMoved j` (about to forward an empty cell) or
`xCommit` is the owner of no lock word and of no bin mutex — so nobody ever waits for it there -/
theorem resizer_between_cells_holds_no_lock {n : Nat} {s : State} (hr : Reachable n s) {t : Nat} {l : Local}
    (hl : s.threads[t]? = some l)
    (hpc : l.pc = .xNext ∨ (∃ j, l.pc = .xCell j) ∨ (∃ j, l.pc = .xCasMoved j) ∨ l.pc = .xCommit) :
    (∀ h, (nodeAt s.heap h).lock ≠ some t) ∧ (∀ b, (binAt s.tbins b).mutex ≠ some t) := by
  have hL : ∀ h, holdsLock l.pc ≠ some h := by
    intro h e
    rcases hpc with h1 | ⟨j, h1⟩ | ⟨j, h1⟩ | h1 <;> rw [h1] at e <;> cases e
  have hM : ∀ b, holdsMutex l.pc ≠ some b := by
    intro b e
    rcases hpc with h1 | ⟨j, h1⟩ | ⟨j, h1⟩ | h1 <;> rw [h1] at e <;> cases e
  constructor
  · intro h hx
    obtain ⟨l', hl', hh⟩ := lock_holder_exists (reachable_inv hr) hx
    rw [hl] at hl'; cases hl'
    exact hL h hh
  · intro b hx
    obtain ⟨l', hl', hh⟩ := mutex_holder_exists (reachable_inv hr) hx
    rw [hl] at hl'; cases hl'
    exact hM b hh

/-- **a parked writer waits for a reader that can move.** In every reachable state, a thread blocked at `lrLoop g b`
holds the mutex of `b` and not the write lock, so `readers ≠ 0`, so some thread is at `rTree b` / `rRelease b _` —
and its step is enabled for every value of the scheduler's arguments. -/
theorem parked_writer_waits_for_reader {n : Nat} {s : State} (hr : Reachable n s) {t : Nat} {l : Local}
    (hl : s.threads[t]? = some l) {g : Nat} {b : Nat} {k : After} {res : KRes}
    (hpc : l.pc = .lrLoop g b k res) (hbl : Blocked s l.pc) :
    ∃ (t' : Nat) (l' : Local), s.threads[t']? = some l' ∧ holdsRead l'.pc = some b ∧ Enabled s t' :=
  parked_waits_for_reader (reachable_inv hr) (reachable_binv hr) hl hpc hbl

/-- **a blocked thread waits for ANOTHER thread**: in every reachable state, a thread that is `Blocked` waits for a
thread different from itself that is not `idle` and holds a node lock, a bin mutex or a read lock -/
theorem blocked_waits_for_other {n : Nat} {s : State} (hr : Reachable n s) {t : Nat} {l : Local}
    (hl : s.threads[t]? = some l) (hbl : Blocked s l.pc) :
    ∃ (t' : Nat) (l' : Local), t' ≠ t ∧ s.threads[t']? = some l' ∧ l'.pc ≠ .idle ∧
      ((∃ h, holdsLock l'.pc = some h) ∨ (∃ b, holdsMutex l'.pc = some b) ∨ (∃ b, holdsRead l'.pc = some b)) :=
  blocked_on_other (reachable_inv hr) (reachable_binv hr) hl hbl

/-- **the wait-for relation is well-founded of depth ≤ 2**: from any thread that is not `idle` one reaches — in zero
hops (its own step is enabled), one hop (the holder of the lock it waits for) or two hops (waiter → mutex holder
parked at `lrLoop` → reader) — a thread that is not `idle` and whose step is enabled for every value of the
scheduler's arguments -/
theorem blocked_waits_for_enabled {n : Nat} {s : State} (hr : Reachable n s) {t : Nat} {l : Local}
    (hl : s.threads[t]? = some l) (hne : l.pc ≠ .idle) :
    ∃ (t' : Nat) (l' : Local), s.threads[t']? = some l' ∧ l'.pc ≠ .idle ∧ Enabled s t' :=
  waits_for_enabled (reachable_inv hr) (reachable_binv hr) hl hne

/-- readers are always enabled (C12.1 in the vocabulary of this file) -/
theorem reader_enabled {n : Nat} {s : State} (hr : Reachable n s) {t : Nat} {l : Local}
    (hl : s.threads[t]? = some l) (hrd : readerPc l.pc = true) : Enabled s t :=
  fun inv lo mt rz sm sm2 pick => reader_step_enabled hr hl hrd inv lo mt rz sm sm2 pick

/-- **C11: no deadlock**, strong form: in every reachable state that is not quiescent some thread that is not `idle`
has a step that is enabled whatever the scheduler's arguments are -/
theorem binGN_never_stuck_all {n : Nat} {s : State} (hr : Reachable n s) (hq : ¬ quiescent s) :
    ∃ (t : Nat) (l : Local), s.threads[t]? = some l ∧ l.pc ≠ .idle ∧ Enabled s t :=
  binGN_never_stuck_aux (reachable_inv hr) (reachable_binv hr) hq

/-- **C11: no deadlock.** In every reachable state that is not quiescent, some thread that is NOT idle has an enabled
step. -/
theorem binGN_never_stuck {n : Nat} {s : State} (hr : Reachable n s) (hq : ¬ quiescent s) :
    ∃ (t : Nat) (l : Local), s.threads[t]? = some l ∧ l.pc ≠ .idle ∧
      ∃ (inv : Option (Nat × KOp)) (lo : Bool) (mt : Option Nat) (rz sm sm2 : Bool) (pick : Nat) (s' : State),
        step s t inv lo mt rz sm sm2 pick = some s' := by
  obtain ⟨t, l, hl, hne, he⟩ := binGN_never_stuck_all hr hq
  obtain ⟨s', hs⟩ := Option.isSome_iff_exists.1 (he none false none false false false 0)
  exact ⟨t, l, hl, hne, none, false, none, false, false, false, 0, s', hs⟩

/-- `Enabled` spelled out -/
theorem enabled_iff (s : State) (t : Nat) : Enabled s t ↔
    ∀ (inv : Option (Nat × KOp)) (lo : Bool) (mt : Option Nat) (rz sm sm2 : Bool) (pick : Nat),
      (step s t inv lo mt rz sm sm2 pick).isSome = true := Iff.rfl

end Flurry.Proto.BinGNProg
